#!/bin/bash
# MANIFEST.setup_cmd: offline pre-build of every harness binary against /repo.
set -u
cd "$(dirname "${BASH_SOURCE[0]}")"
export CARGO_NET_OFFLINE=true
mkdir -p evidence replays target
( cd harness && cargo build --offline --profile verif -p vcheck --bins ) 2>&1 | tail -3
for s in harness/pre/*.sh; do
  [ -x "$s" ] && { "$s" setup 2>&1 | tail -2; }
done
exit 0
