#!/bin/bash
# MANIFEST.setup_cmd: offline pre-build of every harness binary against /repo.
set -u
cd "$(dirname "${BASH_SOURCE[0]}")"
export VERIF_ROOT="$(pwd)"
export CARGO_NET_OFFLINE=true
mkdir -p evidence replays target
( cd harness && cargo build --offline --profile verif -p vcheck --bins ) 2>&1 | tail -3
( cd harness && cargo build --offline --profile verif -p vcheck --bin c29 --features vectors --target-dir "$VERIF_ROOT/target/vectors" ) 2>&1 | tail -1
harness/pre/frontends.sh setup 2>&1 | tail -1
harness/pre/c16.sh setup 2>&1 | tail -1
harness/pre/c26.sh setup 2>&1 | tail -1
exit 0
