#!/bin/bash
# Run one check against a MUTATED scratch copy of /repo without touching /repo or /verif:
#   tools/mutant_run.sh <patch.diff> <Cxx> [quick|thorough] [extra args...]
# Creates a git worktree of /repo HEAD under /tmp, applies the patch, copies the harness
# with its path dependencies re-pointed at the worktree, builds, runs, prints the
# check's output and exit code, then removes everything it created.
set -u
PATCH="$(readlink -f "$1")"; PROP="$2"; TIER="${3:-quick}"; shift; shift; shift || true
TAG="mut-$$-$RANDOM"
WT="/tmp/$TAG-repo"; H="/tmp/$TAG-harness"; VR="/tmp/$TAG-root"
cleanup() { git -C /repo worktree remove --force "$WT" >/dev/null 2>&1; rm -rf "$WT" "$H" "$VR"; }
trap cleanup EXIT
git -C /repo worktree add --detach -q "$WT" HEAD || exit 2
if ! git -C "$WT" apply "$PATCH"; then echo "patch does not apply"; exit 2; fi
mkdir -p "$H" "$VR/evidence" "$VR/replays"
rsync -a --exclude target /verif/harness/ "$H/"
cp /verif/known_findings.json "$VR/" 2>/dev/null
[ -d /verif/findings.d ] && cp -r /verif/findings.d "$VR/"
grep -rl "/repo/" "$H" --include=Cargo.toml --include=*.sh --include=config.toml | xargs -r sed -i "s#/repo/#$WT/#g"
sed -i "s#target-dir = .*#target-dir = \"$H/target\"#" "$H/.cargo/config.toml"
bin="$(echo "$PROP" | tr 'A-Z' 'a-z')"
FEATURES=""; [ "$PROP" = "C29" ] && FEATURES="--features vectors"
( cd "$H" && cargo build --offline --profile verif -p vcheck --bin "$bin" $FEATURES ) >"$VR/build.log" 2>&1 || { echo "BUILD FAILED"; tail -30 "$VR/build.log"; exit 2; }
# property-specific extra builds (front-end binaries, debug-assertion workers) from the MUTATED tree
if [ -x "$H/pre/$bin.sh" ]; then
  mkdir -p "$VR/target"
  [ -d /verif/target/repo-bins ] && rsync -a /verif/target/repo-bins "$VR/target/" 2>/dev/null
  VERIF_ROOT="$VR" VERIF_REPO="$WT" VERIF_HARNESS="$H" "$H/pre/$bin.sh" "$TIER" >"$VR/pre.log" 2>&1 || { echo "PRE-BUILD FAILED"; tail -20 "$VR/pre.log"; exit 2; }
fi
export VERIF_BIN_DIR="$VR/target/repo-bins/release"
export VERIF_HARNESS="$H"
VERIF_ROOT="$VR" VERIF_REPO="$WT" "$H/target/verif/$bin" "$TIER" "$@"
rc=$?
if [ -n "${MUTANT_SHOW_COUNTERS:-}" ] && [ -f "$VR/evidence/$PROP.json" ]; then
  python3 -c "import json,sys; print(json.dumps(json.load(open(sys.argv[1]))['coverage'].get('counters',{})))" "$VR/evidence/$PROP.json"
fi
echo "mutant_run exit=$rc"
exit $rc
