#!/usr/bin/env python3
"""Fold /verif/findings.d/*.json into the single committed /verif/known_findings.json."""
import json, glob, os
root = os.path.dirname(os.path.dirname(os.path.abspath(__file__)))
kf = os.path.join(root, "known_findings.json")
d = json.load(open(kf))
seen = {(f.get("property"), f.get("signature"), f.get("status"), f.get("commit")) for f in d["findings"]}
added = 0
for fn in sorted(glob.glob(os.path.join(root, "findings.d", "*.json"))):
    x = json.load(open(fn))
    for f in x.get("findings", []):
        key = (f.get("property"), f.get("signature"), f.get("status"), f.get("commit"))
        if key in seen:
            continue
        if f.get("status") == "fixed" and "line" not in f:
            f["line"] = f"fixed: property={f.get('property')} {f.get('commit','?')} {str(f.get('what',''))[:120]}"
        d["findings"].append(f)
        seen.add(key)
        added += 1
    os.remove(fn)
json.dump(d, open(kf, "w"), indent=1, ensure_ascii=False)
print("merged", added, "entries; total", len(d["findings"]))
