#!/bin/bash
# Builds an AddressSanitizer-instrumented copy of the C26 worker (nightly toolchain).
# Used by `./check C26 thorough` when present: /verif/target/asan/x86_64-unknown-linux-gnu/verif/c26
set -u
cd "$(dirname "${BASH_SOURCE[0]}")/../harness"
export CARGO_NET_OFFLINE=true
RUSTFLAGS="--cfg searchlite_verif -Zsanitizer=address -Cforce-frame-pointers=yes" \
  cargo +nightly build --offline --profile verif -p vcheck --bin c26 \
  --target x86_64-unknown-linux-gnu --target-dir /verif/target/asan
