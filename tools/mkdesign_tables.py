#!/usr/bin/env python3
"""Regenerates the machine-generated parts of DESIGN.md (between BEGIN/END markers):
repairs table, remaining known findings, seeded-change table."""
import json, glob, os, re, subprocess
ROOT = os.path.dirname(os.path.dirname(os.path.abspath(__file__)))
kf = json.load(open(os.path.join(ROOT, "known_findings.json")))["findings"]
extra = []
for fn in sorted(glob.glob(os.path.join(ROOT, "findings.d", "*.json"))):
    extra += json.load(open(fn)).get("findings", [])
allf = kf + [f for f in extra if (f.get("property"), f.get("signature"), f.get("status")) not in {(g.get("property"), g.get("signature"), g.get("status")) for g in kf}]
def short(s, n=170):
    s = " ".join(str(s).split())
    return s if len(s) <= n else s[: n - 1] + "…"
fixed = [f for f in allf if f.get("status") == "fixed"]
known = [f for f in allf if f.get("status") == "known"]
# one row per (property, commit)
rows = {}
for f in fixed:
    rows.setdefault((f["property"], f.get("commit", "?")), f)
log = subprocess.check_output(["git", "-C", "/repo", "log", "--format=%h %s"]).decode().splitlines()
subject = {l.split()[0]: l.split(" ", 1)[1] for l in log}
rep = ["| prop | commit | repair (commit subject) | what failed |", "|---|---|---|---|"]
for (p, c), f in sorted(rows.items()):
    rep.append(f"| {p} | {c} | {short(subject.get(c, ''), 110)} | {short(f.get('what', ''), 150)} |")
kn = ["| prop | signature | what fails |", "|---|---|---|"]
for f in sorted(known, key=lambda f: (f["property"], f["signature"])):
    kn.append(f"| {f['property']} | `{f['signature']}` | {short(f.get('what', ''), 200)} |")
seed = ["| prop | seeded change | needs to manifest | detected by (quick, seed 1) |", "|---|---|---|---|"]
for d in sorted(glob.glob(os.path.join(ROOT, "seeded", "C*"))):
    pid = os.path.basename(d)
    try:
        m = json.load(open(os.path.join(d, "meta.json")))
    except Exception:
        continue
    v = m.get("verified_by_coordinator", {})
    det = v.get("detected_by") or (f"./check {pid.split(chr(45))[0]}" if v.get("detected") else "NOT detected")
    seed.append(f"| {pid} | {short(m.get('summary', ''), 200)} | {short(m.get('needs', ''), 160)} | {det} |")
blocks = {"REPAIRS": "\n".join(rep), "KNOWN": "\n".join(kn), "SEEDED": "\n".join(seed)}
p = os.path.join(ROOT, "DESIGN.md")
s = open(p).read()
for k, body in blocks.items():
    pat = re.compile(r"(<!-- BEGIN " + k + r" -->\n).*?(\n<!-- END " + k + r" -->)", re.S)
    if pat.search(s):
        s = pat.sub(lambda m: m.group(1) + body + m.group(2), s)
    else:
        print("marker missing for", k)
open(p, "w").write(s)
print("repairs", len(rows), "known", len(known), "seeded", len(seed) - 2)
