#!/bin/bash
# Full regression on the current tree: every claimed check, quick at several seeds and (optionally) thorough.
#   tools/regress.sh "<seeds>" [thorough]
cd /verif
SEEDS="${1:-1 2 3}"; TH="${2:-}"
for p in $(cat tools/claimed.txt); do
  for s in $SEEDS; do
    VERIF_SEED=$s ./check $p quick > /tmp/rg_${p}_q$s.log 2>&1; rc=$?
    echo "$p quick seed=$s exit=$rc viol=$(grep -c '^VIOLATION' /tmp/rg_${p}_q$s.log) known=$(grep -c '^KNOWN-FINDING' /tmp/rg_${p}_q$s.log) | $(tail -1 /tmp/rg_${p}_q$s.log | cut -c1-140)"
  done
  if [ -n "$TH" ]; then
    VERIF_SEED=1 ./check $p thorough > /tmp/rg_${p}_t1.log 2>&1; rc=$?
    echo "$p thorough seed=1 exit=$rc viol=$(grep -c '^VIOLATION' /tmp/rg_${p}_t1.log) known=$(grep -c '^KNOWN-FINDING' /tmp/rg_${p}_t1.log) | $(tail -1 /tmp/rg_${p}_t1.log | cut -c1-140)"
  fi
done
