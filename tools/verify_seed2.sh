#!/bin/bash
# Verify an independently seeded breaking change delivered in /tmp/seed-<ID>{,-out}:
#   tools/verify_seed.sh <ID> [check-tier]
# 1. demo fails with the patch, passes without; 2. the repo's own suite passes with the patch
# (demo moved aside); 3. our check for <ID> fires on the patch (tools/mutant_run.sh).
# Writes /verif/seeded/<ID>/{patch.diff,demo/,meta.json} when everything is confirmed.
set -u
ID="$1"; TIER="${2:-quick}"
P="${SEED_PREFIX:-seed}"; SFX="${SEED_SUFFIX:-}"
WT="/tmp/$P-$ID"; OUT="/tmp/$P-$ID-out"; LOG="/tmp/verify-$ID$SFX.log"; DEST="/verif/seeded/$ID$SFX"
: > "$LOG"
cd "$WT" || { echo "no worktree"; exit 2; }
unset RUSTFLAGS; export CARGO_NET_OFFLINE=true; export CARGO_TARGET_DIR="$WT/target"
# start clean (demo files are in $OUT/demo); never use git stash here: stashes are shared by all worktrees
git checkout -q . ; git clean -fdq -e target
# locate where the demo goes (README says; default: first *.rs into searchlite-core/tests)
DEMO_RS=$(ls "$OUT"/demo/*.rs 2>/dev/null | head -1)
CRATE=$(grep -o "cargo test -p [a-z-]*" "$OUT/demo/README.txt" 2>/dev/null | head -1 | awk '{print $4}')
[ -z "$CRATE" ] && CRATE=searchlite-core
mkdir -p "$WT/$CRATE/tests"; cp "$DEMO_RS" "$WT/$CRATE/tests/seeded_demo.rs"
FEAT=""; [ "$ID" = "C29" ] && FEAT="--features vectors"
run_demo() { cargo test -p "$CRATE" $FEAT --offline -j 6 --test seeded_demo >>"$LOG" 2>&1; }
echo "== demo on clean tree" >>"$LOG"; run_demo; CLEAN=$?
git apply "$OUT/patch.diff" || { echo "patch does not apply to HEAD"; exit 2; }
echo "== demo with patch" >>"$LOG"; run_demo; PATCHED=$?
mv "$WT/$CRATE/tests/seeded_demo.rs" /tmp/seeded_demo_$ID.rs
echo "== suite with patch" >>"$LOG"
cargo test --workspace --offline -j 6 --no-fail-fast >>"$LOG" 2>&1; SUITE=$?
PASSED=$(grep -E "^test result:" "$LOG" | awk '{s+=$4} END{print s}')
FAILED=$(grep -E "^test result:" "$LOG" | awk '{s+=$6} END{print s}')
mv /tmp/seeded_demo_$ID.rs "$WT/$CRATE/tests/seeded_demo.rs"
echo "== our check on the patch" >>"$LOG"
VERIF_THREADS=6 env -u CARGO_TARGET_DIR /verif/tools/mutant_run.sh "$OUT/patch.diff" "$ID" "$TIER" >"/tmp/verify-$ID$SFX-check.log" 2>&1; CHECK=$?
echo "$ID: demo_clean_exit=$CLEAN demo_patched_exit=$PATCHED suite_exit=$SUITE (sum passed=$PASSED failed=$FAILED incl. demo runs) check_exit=$CHECK"
if [ $CLEAN -eq 0 ] && [ $PATCHED -ne 0 ] && [ $SUITE -eq 0 ]; then
  mkdir -p "$DEST/demo"
  cp "$OUT/patch.diff" "$DEST/patch.diff"; cp -r "$OUT"/demo/* "$DEST/demo/"
  python3 - "$ID" "$CHECK" "$TIER" "$OUT" "$DEST" "/tmp/verify-$ID$SFX-check.log" <<'E'
import json,sys
i,check,tier=sys.argv[1],int(sys.argv[2]),sys.argv[3]
out,dest,clog=sys.argv[4:7]
m=json.load(open(f'{out}/meta.json'))
tail=open(clog).read().splitlines()[-6:]
m['verified_by_coordinator']={'demo_on_clean_tree':'passes','demo_with_patch':'fails','repo_suite_with_patch':'passes (cargo test --workspace --offline --no-fail-fast, demo moved aside)',
  'our_check':f'./check {i} {tier} via tools/mutant_run.sh', 'our_check_exit':check, 'detected': check==1, 'check_output_tail':tail}
json.dump(m,open(f'{dest}/meta.json','w'),indent=1)
E
  echo "$ID: recorded in $DEST (detected=$([ $CHECK -eq 1 ] && echo yes || echo NO))"
else
  echo "$ID: NOT confirmed as a valid seeded change (see $LOG)"
fi
