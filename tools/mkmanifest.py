#!/usr/bin/env python3
"""Regenerates /verif/MANIFEST.json from the table below and validates it."""
import json, os, subprocess, sys
ROOT = os.path.dirname(os.path.dirname(os.path.abspath(__file__)))
ALL = ["C%02d" % i for i in range(1, 31)]

# id -> (category, technique, level text, level note, design_ref)
CHECKS = {
 "C01": ("fault_enumeration", "crash-point enumeration over an strace-recorded syscall trace + durable-image reopen",
         "A worker runs generated histories on a real directory under strace; every syscall boundary touching the index is a crash point; the volatile/durable file-system model yields every durable image (dir-op prefixes x dropped/kept/prefix/torn data), each is materialised at the original path and reopened with the real Index::open and compared with the content model. Exhaustive over crash points of each trace under the stated crash model, sampled over histories.",
         "Crash model: fsync(file) persists data not the dirent; dir ops since last fsync(dir) persist as a program-order prefix; strace is faithful for the single-threaded worker.", "DESIGN.md#c01"),
 "C02": ("fault_enumeration", "log-tail crash enumeration (dropped/kept/cut/torn) over multi-round crash/restart histories + recovery oracle",
         "The real writer runs through a crash-capable Storage wrapper that shadows wal.log record by record; at storage-operation boundaries the unsynced tail is dropped, kept, cut after any record or torn inside a record; each image is recovered with Wal::last_pending_ops / writer / commit and judged against the computed intact prefix and the crash-free contents; up to 3 crash rounds.",
         "Only the log tail varies (the property's quantifier); other files as on disk; wal.log's dirent durable once created.", "DESIGN.md#c02"),
 "C03": ("fault_enumeration", "exhaustive single (thorough: ordered double) storage-fault injection at the public Storage trait + content model",
         "Every storage operation of every add/delete/commit/rollback/compact call of generated histories is failed once, before and after its effect; thorough adds every ordered pair inside commit/rollback/compact and a filesystem-backed variant; result, same-index reader, reopen and retry are judged against the content model.",
         "Faults injected at the Storage/StorageFile trait boundary; for pairs only openability/no-missing-files/no-panic is judged.", "DESIGN.md#c03"),
 "C04": ("exploration", "reference-model monitor over generated call histories",
         "Every call of thousands of seeded multi-handle histories is followed by a fresh reader whose stored contents are compared with an independent sequential content/queue model; holds on the histories explored, not a proof.",
         "Healthy storage, no crashes; stored fields compared modulo null/[]/absent and singleton-array trivia; model of handle inheritance per DESIGN C04.", "DESIGN.md#c04"),
 "C05": ("exploration", "exact serializability checker over recorded concurrent histories (mixed and churn workload profiles, compaction from a thread or between a handle's own calls) with injected delays at hook pause points",
         "2-4 writer threads (+ compactor) run concurrently with seeded delays inside the writer critical sections; calls are stamped at the client boundary and an exact search decides whether some interleaving consistent with real-time order reproduces all results and the final contents under the sequential model.",
         "Sequential spec = C04 model; search budget exceeded => inconclusive; perturbation (not enumeration) of schedules.", "DESIGN.md#c05"),
 "C06": ("exploration", "directed pause-point schedules + a failing-commit family (storage wrapper holds and fails the manifest store) + stress, snapshot-membership history checker",
         "Every (reader pause point x writer operation) and (writer/compaction pause point x reader) schedule is driven deterministically through the hook; readers must succeed, see exactly one admissible committed state, and keep returning it after later changes; plus free-running stress with admissible-window checking.",
         "Pause points are the hook's; lock-blocked schedules are released after 300 ms and reported as such.", "DESIGN.md#c06"),
 "C07": ("exploration", "independent boolean query evaluator (reference model) over generated schemas/corpora/query trees; the id set must be the same under bm25, wand and bmw execution",
         "An independent three-valued evaluator over analyzed field contents (engine's public analyzers only) decides which live documents must / may match each generated query tree; compared with the id set returned by exhaustive search.",
         "Public analyzers trusted for tokenisation; cases the README leaves undefined are excluded and counted.", "DESIGN.md#c07"),
 "C08": ("exploration", "independent filter evaluator over the original JSON documents",
         "A tree-walk evaluator over original documents (scopes, nested binding, sibling same-path sharing) is compared with match_all+filter results in three request forms over generated nested schemas and filter trees.",
         "Only fast fields targeted; ambiguous readings (non-ASCII folding, And-in-And sharing) not judged.", "DESIGN.md#c08"),
 "C09": ("exploration", "differential: wand/bmw vs exhaustive bm25, epsilon-tie aware",
         "For the same reader and request the pruned strategies must return an admissible top-k of the exhaustive ranking (tolerance-aware tie groups), over Zipfian corpora with multi-block postings, limits 1-50, block sizes 1-300.",
         "Exhaustive bm25 execution is the reference; score tolerance 2e-5 relative.", "DESIGN.md#c09"),
 "C10": ("exploration", "independent BM25/score-tree and sort-key computation",
         "Hit order is checked against independently computed sort keys and hit scores against an independent BM25 + boosts/function/script/rank_feature computation from the corpus and commit layout.",
         "Public analyzers trusted; score checks only on segments without deletions; tolerance 1e-4.", "DESIGN.md#c10"),
 "C11": ("exploration", "metamorphic: cursor walk vs one big page; stale/foreign cursor rejection",
         "Following next_cursor with page sizes 1-7 must reproduce the single-request result exactly; totals bounded/exact; cursors must be rejected after generation changes and under other sort plans.",
         "Same reader for walk and reference; delete-only commits judged leniently as DESIGN states.", "DESIGN.md#c11"),
 "C12": ("exploration", "layout-invariance metamorphic relation + independent aggregation computer",
         "The same corpus under 4-5 commit layouts must give equal aggregation responses, and each response must equal an independent computation from the original JSON for every exact aggregation kind, recursively through sub-aggregations.",
         "Undocumented conventions (range `to` inclusivity, fixed-interval key rounding, percentile interpolation) not judged.", "DESIGN.md#c12"),
 "C13": ("exploration", "metamorphic: aggregations/suggest equal across paging/sort/execution variants",
         "For a fixed (reader, query, filter, aggs, suggest) the aggregations and suggestions must be identical across limit, cursor page, sort, return_hits, execution, explain/profile and rescore variants.",
         "Exact aggregation kinds only; numeric tolerance 1e-9.", "DESIGN.md#c13"),
 "C14": ("exploration", "before/after-compaction metamorphic relation; refusal leaves bytes unchanged",
         "Stored contents and the id-level results of a request battery must be equal before and after compaction; a refused compaction must leave manifest, file listing and hashes unchanged; second compaction and post-compaction commits are exercised.",
         "Scores may change (statistics); order compared only where independent of scores.", "DESIGN.md#c14"),
 "C15": ("exploration", "differential add-time vs commit-time verdict + labelled invalid mutants",
         "Every document accepted by add_document must commit (alone and in a batch); every single-mutation schema violation must be rejected at add time.",
         "Healthy storage; each mutation label is a violation class named by the property.", "DESIGN.md#c15"),
 "C16": ("exploration", "panic/abort/hang monitor over generated + mutated requests in sandboxed workers (release-like and debug-assertions builds)",
         "Structure-aware hostile requests and char-level mutations are executed by IndexReader::search in worker processes with an address-space limit and a watchdog; panics, process deaths and reproduced hangs are violations.",
         "Requests that do not deserialise are outside the property; hang = reproduced alone with a 10x bound.", "DESIGN.md#c16"),
 "C17": ("fault_enumeration", "byte-flip / truncation enumeration of every index file + open (both create_if_missing settings) / per-request search battery / writer probe in sandboxed workers",
         "Every byte x 4 xor masks and every truncation length of every file of small indexes (thorough; sampled in quick) is applied in place; the probe must error or reproduce baseline answers exactly; the WAL must recover a prefix.",
         "Acceptable outcomes: error at any stage or identical answers (WAL: prefix of the queue).", "DESIGN.md#c17"),
 "C18": ("exploration", "collapse reference model over the uncollapsed ranking",
         "Expected groups, representatives, order, total_groups and inner hits are derived from the same request without collapse and compared.",
         "With limit < matches only the weaker invariants are judged.", "DESIGN.md#c18"),
 "C19": ("exploration", "rescore reference model over base ranking + stand-alone rescore scores",
         "Expected window scores (all five modes), drops by min_score, window re-sort and untouched tail are derived from the un-rescored ranking and the rescore query run alone, and compared.",
         "Candidate pool per documented 'global candidate pool' (three admissible readings accepted).", "DESIGN.md#c19"),
 "C20": ("exploration", "metamorphic: explain/profile on vs off",
         "The four (explain, profile) variants of a request must agree in hits, order, bit-equal scores, totals, cursors, aggregations and suggestions; explanation.final_score equals the hit score.",
         "total_hits_estimate compared only where exactness is promised.", "DESIGN.md#c20"),
 "C21": ("exploration", "fragment well-formedness invariants on generated Unicode text",
         "Every fragment/snippet must be non-empty, contain a tagged match, be a substring of the stored text once tags are removed, respect fragment_size and number_of_fragments.",
         "Judged only when fragment_size >= 2x the longest possible match; length in characters.", "DESIGN.md#c21"),
 "C22": ("exploration", "term-dictionary reference model for completion suggestions",
         "Options are checked against a dictionary rebuilt with the public index analyzer: size, order, prefix/fuzzy membership, doc_freq, determinism, layout independence below the scan cap.",
         "Score formula undocumented: preference among qualifying terms not judged.", "DESIGN.md#c22"),
 "C23": ("exploration", "queue model at the HTTP client boundary against a live server",
         "Generated valid/invalid /add,/bulk,/delete,/commit,/refresh,/compact,/search sequences (with restarts) against a real searchlite-http process; after each commit the index must equal the acknowledged queue.",
         "Client boundary = oracle boundary; unknown-field documents not sent.", "DESIGN.md#c23"),
 "C24": ("exploration", "response-shape/status monitor + liveness probe against a live server",
         "Every syntactically valid HTTP/1.1 request (any method/path/content type/body/framing) must get a complete response with the documented JSON shape or error envelope and status class; /healthz stays 200.",
         "Only syntactically valid HTTP is judged against the JSON contract.", "DESIGN.md#c24"),
 "C25": ("exploration", "four-driver differential (library, CLI, HTTP, FFI)",
         "One scenario through four drivers into four directories; final contents and every response must be equal after parsing.",
         "FFI arm laid out one document per commit; CLI flag form compared with the documented request.", "DESIGN.md#c25"),
 "C26": ("other", "guard pages + canaries around the real C ABI call (sanitizer-style), exhaustive over buffer capacities; the same functions driven inside the Miri interpreter with exact-size allocations (both tiers, harness/vmiri); AddressSanitizer build of the same matrix in thorough when available",
         "The output buffer ends at a PROT_NONE page and is surrounded by canaries; every capacity 0..full_len+64 per tuple; return value, NUL, prefix and untouched bytes are checked; a 1-byte overrun kills the worker and is observed by the parent.",
         "Caller honours the documented contract; panics (process abort) are C16's subject.", "DESIGN.md#c26"),
 "C28": ("exploration", "copy equality + original removed/modified + strace path monitor + tamper hashes",
         "Operations on a copied index run under strace -f -e trace=%file; no syscall may name a path under the original; answers equal; the original's files are untouched; the copy works with the original renamed away, modified or deleted.",
         "Plain recursive copy of a quiescent index.", "DESIGN.md#c28"),
 "C29": ("exploration", "brute-force vector oracle (vectors feature build)",
         "Every hit's liveness, filters, vector_score, blended _score and order are checked against a brute-force computation; exact-NN completeness is judged when every segment holds <= m vectors.",
         "ANN recall not a property; BM25 part taken from the engine's own alpha=1 run.", "DESIGN.md#c29"),
 "C30": ("exploration", "metamorphic: composite paging vs unpaged + independent composite oracle",
         "Feeding after_key back with page sizes 1-5 must reproduce the unpaged bucket sequence exactly, with after_key absent exactly on the last page.",
         "One reader snapshot per walk.", "DESIGN.md#c30"),
}
NOT_YET = "check not built yet in this session (work in progress; will be claimed once its monitor is silent on the unchanged tree over several seeds)"
NA = {
 "C27": "the browser artefact (wasm32 + IndexedDB) cannot be executed in this sandbox: there is no wasm32 target, no wasm-bindgen CLI, no browser and no IndexedDB; runtime monitoring has no execution to observe (re-hosting wasm.rs on hand-written shims was judged not defensible as an observation of the real system, see DESIGN.md section 5)",
}
ONLY_IF_BUILT = True

def main():
    hooks_commits = [l.strip() for l in open(os.path.join(ROOT, "tools", "hook_commits.txt")) if l.strip()]
    checks = []
    claimed = set(l.strip() for l in open(os.path.join(ROOT, "tools", "claimed.txt")) if l.strip() and not l.startswith("#"))
    for pid in ALL:
        if pid not in CHECKS or pid not in claimed:
            continue
        cat, tech, text, note, ref = CHECKS[pid]
        checks.append({
            "property_id": pid,
            "quick_cmd": f"./check {pid} quick",
            "thorough_cmd": f"./check {pid} thorough",
            "evidence_file": f"/verif/evidence/{pid}.json",
            "replay_cmd_template": f"./check {pid} quick --replay {{path}}",
            "engine": "vcheck",
            "level_claimed": {"category": cat, "text": text, "design_ref": ref},
            "level_note": note,
            "technique": tech,
        })
    na = []
    for pid in ALL:
        if pid in CHECKS and pid in claimed:
            continue
        na.append({"property_id": pid, "reason": NA.get(pid, NOT_YET)})
    m = {
        "version": 1,
        "setup_cmd": "./setup.sh",
        "hooks": {
            "guard": "--cfg searchlite_verif",
            "enable": "RUSTFLAGS='--cfg searchlite_verif' (set in /verif/harness/.cargo/config.toml [build] rustflags; the harness path-depends on /repo/searchlite-core so every check rebuilds the working tree with the hooks on)",
            "baseline_off_cmd": "/verif/baseline_off.sh",
            "source_commits": hooks_commits,
            "add_only": True,
        },
        "engines": [
            {"name": "vcheck", "path": "/verif/harness", "serves_properties": sorted(k for k in CHECKS if k in claimed),
             "kind_free_text": "Rust harness (one binary per property) driving the real searchlite crates with seeded hostile workloads; oracles are independent reference models, metamorphic relations, fault/crash enumeration over strace-recorded syscall traces, history checkers, sanitizers"},
        ],
        "checks": checks,
        "not_applicable": na,
        "notes": "Exit codes: 0 held on everything explored, 1 VIOLATION (replay file under /verif/replays), 2 could not run / inconclusive (never a verdict). Known findings: /verif/known_findings.json.",
    }
    out = os.path.join(ROOT, "MANIFEST.json")
    json.dump(m, open(out, "w"), indent=1)
    try:
        import jsonschema
        jsonschema.validate(m, json.load(open("/root/.vp/MANIFEST.schema.json")))
        print("MANIFEST.json valid;", len(checks), "checks,", len(na), "not_applicable")
    except ImportError:
        print("jsonschema not importable; wrote without validation")

if __name__ == "__main__":
    main()
