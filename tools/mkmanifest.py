#!/usr/bin/env python3
"""Regenerates /verif/MANIFEST.json from the table below and validates it."""
import json, os, subprocess, sys
ROOT = os.path.dirname(os.path.dirname(os.path.abspath(__file__)))
ALL = ["C%02d" % i for i in range(1, 31)]

# id -> (category, technique, level text, level note, design_ref)
CHECKS = {
 "C04": ("exploration", "reference-model monitor over generated call histories",
         "Every call of thousands of seeded multi-handle histories is followed by a fresh reader whose stored contents are compared with an independent sequential content/queue model; holds on the histories explored, not a proof.",
         "Healthy storage, no crashes; stored fields compared modulo null/[]/absent and singleton-array trivia; model of handle inheritance per DESIGN C04.",
         "DESIGN.md#c04"),
}
NOT_YET = "check not built yet in this session (work in progress; will be claimed once its monitor is silent on the unchanged tree over several seeds)"
NA = {}

def main():
    hooks_commits = [l.strip() for l in open(os.path.join(ROOT, "tools", "hook_commits.txt")) if l.strip()]
    checks = []
    for pid in ALL:
        if pid not in CHECKS:
            continue
        cat, tech, text, note, ref = CHECKS[pid]
        checks.append({
            "property_id": pid,
            "quick_cmd": f"./check {pid} quick",
            "thorough_cmd": f"./check {pid} thorough",
            "evidence_file": f"/verif/evidence/{pid}.json",
            "replay_cmd_template": f"./check {pid} quick --replay {{path}}",
            "engine": "vcheck",
            "level_claimed": {"category": cat, "text": text, "design_ref": ref},
            "level_note": note,
            "technique": tech,
        })
    na = []
    for pid in ALL:
        if pid in CHECKS:
            continue
        na.append({"property_id": pid, "reason": NA.get(pid, NOT_YET)})
    m = {
        "version": 1,
        "setup_cmd": "./setup.sh",
        "hooks": {
            "guard": "--cfg searchlite_verif",
            "enable": "RUSTFLAGS='--cfg searchlite_verif' (set in /verif/harness/.cargo/config.toml [build] rustflags; the harness path-depends on /repo/searchlite-core so every check rebuilds the working tree with the hooks on)",
            "baseline_off_cmd": "/verif/baseline_off.sh",
            "source_commits": hooks_commits,
            "add_only": True,
        },
        "engines": [
            {"name": "vcheck", "path": "/verif/harness", "serves_properties": sorted(CHECKS.keys()),
             "kind_free_text": "Rust harness (one binary per property) driving the real searchlite crates with seeded hostile workloads; oracles are independent reference models, metamorphic relations, fault/crash enumeration over strace-recorded syscall traces, history checkers, sanitizers"},
        ],
        "checks": checks,
        "not_applicable": na,
        "notes": "Exit codes: 0 held on everything explored, 1 VIOLATION (replay file under /verif/replays), 2 could not run / inconclusive (never a verdict). Known findings: /verif/known_findings.json.",
    }
    out = os.path.join(ROOT, "MANIFEST.json")
    json.dump(m, open(out, "w"), indent=1)
    try:
        import jsonschema
        jsonschema.validate(m, json.load(open("/root/.vp/MANIFEST.schema.json")))
        print("MANIFEST.json valid;", len(checks), "checks,", len(na), "not_applicable")
    except ImportError:
        print("jsonschema not importable; wrote without validation")

if __name__ == "__main__":
    main()
