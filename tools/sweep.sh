#!/bin/bash
# Seed sweep on the current tree: every claimed check, quick tier, seeds <from>..<to>.
#   tools/sweep.sh <from> <to> [props...]
# Prints one line per (check, seed) that is not silent, and a summary per check.
cd /verif
FROM="${1:-5}"; TO="${2:-12}"; shift; shift
PROPS="${*:-$(cat tools/claimed.txt)}"
for p in $PROPS; do
  bad=0
  for s in $(seq $FROM $TO); do
    VERIF_SEED=$s ./check $p quick > /tmp/sw_${p}_$s.log 2>&1; rc=$?
    if [ $rc -ne 0 ] || grep -q '^VIOLATION' /tmp/sw_${p}_$s.log; then
      bad=$((bad+1))
      echo "$p seed=$s exit=$rc $(grep -h 'violation signature' /tmp/sw_${p}_$s.log | sed 's/ : .*//' | sort -u | tr '\n' ' ' | cut -c1-300)"
    fi
  done
  echo "$p seeds $FROM..$TO: non-silent=$bad known_lines=$(cat /tmp/sw_${p}_*.log | grep -c '^KNOWN-FINDING') inconclusive=$(grep -h -o 'inconclusive=[0-9]*' /tmp/sw_${p}_*.log | awk -F= '{s+=$2} END{print s+0}')"
done
