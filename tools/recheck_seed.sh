#!/bin/bash
# Re-run our check against an already recorded seeded change and update its meta.json:
#   tools/recheck_seed.sh <ID> [tier]
ID="$1"; TIER="${2:-quick}"; PROP="${ID%%-*}"   # seeded/C05-2 is a second change for property C05
unset CARGO_TARGET_DIR
VERIF_THREADS="${VERIF_THREADS:-6}" /verif/tools/mutant_run.sh "/verif/seeded/$ID/patch.diff" "$PROP" "$TIER" >"/tmp/verify-$ID-check.log" 2>&1; CHECK=$?
python3 - "$ID" "$CHECK" "$TIER" "$PROP" <<'E'
import json,sys
i,check,tier=sys.argv[1],int(sys.argv[2]),sys.argv[3]
p=f'/verif/seeded/{i}/meta.json'
m=json.load(open(p))
tail=open(f'/tmp/verify-{i}-check.log').read().splitlines()[-6:]
v=m.setdefault('verified_by_coordinator',{})
v.update({'our_check':f'./check {sys.argv[4]} {tier} via tools/mutant_run.sh','our_check_exit':check,'detected':check==1,'check_output_tail':tail})
json.dump(m,open(p,'w'),indent=1)
print(i,'check_exit',check,'detected',check==1)
E
