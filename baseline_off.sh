#!/bin/bash
# Runs the repository's pinned test suite with the verification guard OFF
# (no --cfg searchlite_verif). Prints a pass/fail summary; exit 0 iff all pass.
cd /repo || exit 2
unset RUSTFLAGS
export CARGO_NET_OFFLINE=true
if cargo nextest --version >/dev/null 2>&1 && [ -f /w/lib/nextest.toml ]; then
  cargo nextest run --workspace --no-fail-fast --tool-config-file pb:/w/lib/nextest.toml --profile pb --test-threads 8 --offline
else
  cargo test --workspace --no-fail-fast --offline
fi
