//! Crash simulator (C01): parses an strace recording of the real process, replays it
//! into a two-level file-system model (volatile view / durable view) and enumerates the
//! durable images a crash at any syscall boundary may leave behind.
//!
//! Model (DESIGN §2 "Crash simulator"):
//! * `fsync(file)` makes the file's current content and length durable, not its directory entry.
//! * directory operations (create, rename, unlink) since the last `fsync(dir)` persist as an
//!   arbitrary PREFIX in program order; `fsync(dir)` makes them all durable.
//! * unsynced file data persists as: nothing, everything, any prefix of the write sequence,
//!   or a prefix with the last write torn at a byte; truncates may or may not have happened.
use std::collections::{BTreeMap, HashMap};

#[derive(Clone, Debug)]
pub enum Ev {
  /// marker written by the worker: (call index, phase "B"|"OK"|"ERR"|"C")
  Marker(usize, String),
  Open { fd: i32, path: String, create: bool, trunc: bool, append: bool, write: bool },
  Close { fd: i32 },
  Write { fd: i32, data: Vec<u8> },
  Pwrite { fd: i32, data: Vec<u8>, off: u64 },
  Lseek { fd: i32, result: u64 },
  Ftruncate { fd: i32, len: u64 },
  Fsync { fd: i32 },
  Rename { from: String, to: String },
  Unlink { path: String },
  Mkdir { path: String },
}

fn unhex(s: &str) -> Vec<u8> {
  // strace -xx string body: sequence of \xHH
  let b = s.as_bytes();
  let mut out = Vec::with_capacity(b.len() / 4);
  let mut i = 0;
  while i + 3 < b.len() {
    if b[i] == b'\\' && b[i + 1] == b'x' {
      let h = |c: u8| -> u8 {
        match c {
          b'0'..=b'9' => c - b'0',
          b'a'..=b'f' => c - b'a' + 10,
          b'A'..=b'F' => c - b'A' + 10,
          _ => 0,
        }
      };
      out.push(h(b[i + 2]) * 16 + h(b[i + 3]));
      i += 4;
    } else {
      out.push(b[i]);
      i += 1;
    }
  }
  out
}

/// split top-level args on ", " outside quotes / brackets
fn split_args(s: &str) -> Vec<String> {
  let mut out = Vec::new();
  let mut cur = String::new();
  let mut inq = false;
  let mut depth = 0i32;
  let cs: Vec<char> = s.chars().collect();
  let mut i = 0;
  while i < cs.len() {
    let c = cs[i];
    if inq {
      cur.push(c);
      if c == '"' {
        inq = false;
      }
    } else {
      match c {
        '"' => {
          inq = true;
          cur.push(c);
        }
        '{' | '[' | '(' => {
          depth += 1;
          cur.push(c);
        }
        '}' | ']' | ')' => {
          depth -= 1;
          cur.push(c);
        }
        ',' if depth == 0 => {
          out.push(cur.trim().to_string());
          cur.clear();
        }
        _ => cur.push(c),
      }
    }
    i += 1;
  }
  if !cur.trim().is_empty() {
    out.push(cur.trim().to_string());
  }
  out
}

fn qstr(a: &str) -> Option<Vec<u8>> {
  let a = a.trim();
  let a = a.strip_suffix("...").unwrap_or(a);
  let a = a.strip_prefix('"')?.strip_suffix('"')?;
  Some(unhex(a))
}

fn qpath(a: &str) -> Option<String> {
  qstr(a).map(|b| String::from_utf8_lossy(&b).to_string())
}

/// Parse `strace -xx -s <big>` output (single-threaded tracee, `-o file`).
/// Returns the events and the number of lines that looked like relevant syscalls but
/// could not be parsed (must be 0 for the trace to be trusted).
pub fn parse_strace(text: &str) -> (Vec<Ev>, Vec<String>) {
  let mut evs = Vec::new();
  let mut bad = Vec::new();
  for line in text.lines() {
    let line = line.trim();
    if line.is_empty() || line.starts_with("---") || line.starts_with("+++") {
      continue;
    }
    // optional pid prefix
    let line = {
      let mut l = line;
      if let Some(sp) = l.find(' ') {
        if l[..sp].chars().all(|c| c.is_ascii_digit()) {
          l = l[sp..].trim_start();
        }
      }
      l
    };
    let Some(po) = line.find('(') else { continue };
    let name = &line[..po];
    // `name(args)   = result` (strace pads with spaces before the `=`)
    let Some(eqpos) = line.rfind(" = ") else {
      if line.contains("<unfinished") || line.contains("resumed>") {
        bad.push(line.to_string());
      }
      continue;
    };
    let before = line[..eqpos].trim_end();
    if !before.ends_with(')') || before.len() <= po {
      if line.contains("<unfinished") || line.contains("resumed>") {
        bad.push(line.to_string());
      }
      continue;
    }
    let args_s = &before[po + 1..before.len() - 1];
    let res_s = line[eqpos + 3..].trim();
    let res_tok = res_s.split_whitespace().next().unwrap_or("");
    let res: i64 = if let Some(h) = res_tok.strip_prefix("0x") {
      i64::from_str_radix(h, 16).unwrap_or(-1)
    } else {
      res_tok.parse().unwrap_or(-1)
    };
    let args = split_args(args_s);
    let fd_of = |a: &str| -> i32 { a.trim().split('<').next().unwrap_or("").parse().unwrap_or(-1) };
    match name {
      "openat" | "open" | "creat" => {
        if res < 0 {
          continue;
        }
        let (p_i, f_i) = if name == "openat" { (1, 2) } else { (0, 1) };
        let Some(path) = args.get(p_i).and_then(|a| qpath(a)) else {
          bad.push(line.to_string());
          continue;
        };
        let flags = if name == "creat" { "O_WRONLY|O_CREAT|O_TRUNC".to_string() } else { args.get(f_i).cloned().unwrap_or_default() };
        evs.push(Ev::Open {
          fd: res as i32,
          path,
          create: flags.contains("O_CREAT"),
          trunc: flags.contains("O_TRUNC"),
          append: flags.contains("O_APPEND"),
          write: flags.contains("O_WRONLY") || flags.contains("O_RDWR"),
        });
      }
      "close" => {
        if res == 0 {
          evs.push(Ev::Close { fd: fd_of(&args[0]) });
        }
      }
      "write" => {
        let fd = fd_of(&args[0]);
        let Some(data) = args.get(1).and_then(|a| qstr(a)) else {
          bad.push(line.to_string());
          continue;
        };
        if res < 0 {
          continue;
        }
        let n = res as usize;
        if fd == 2 {
          let s = String::from_utf8_lossy(&data).to_string();
          if let Some(rest) = s.strip_prefix("@@M ") {
            let mut it = rest.split_whitespace();
            let idx = it.next().and_then(|x| x.parse().ok()).unwrap_or(usize::MAX);
            let ph = it.next().unwrap_or("").to_string();
            evs.push(Ev::Marker(idx, ph));
          }
          continue;
        }
        if data.len() < n {
          bad.push(format!("short string for write: {}", &line[..line.len().min(120)]));
          continue;
        }
        evs.push(Ev::Write { fd, data: data[..n].to_vec() });
      }
      "pwrite64" => {
        let fd = fd_of(&args[0]);
        let Some(data) = args.get(1).and_then(|a| qstr(a)) else {
          bad.push(line.to_string());
          continue;
        };
        if res < 0 {
          continue;
        }
        let off: u64 = args.get(3).and_then(|a| a.trim().parse().ok()).unwrap_or(0);
        evs.push(Ev::Pwrite { fd, data: data[..(res as usize).min(data.len())].to_vec(), off });
      }
      "writev" | "pwritev" | "pwritev2" | "sendfile" | "copy_file_range" | "fallocate" | "truncate" | "link" | "linkat" | "symlink" | "symlinkat" => {
        // not expected from this code base; refuse to guess
        bad.push(format!("unsupported syscall in trace: {}", &line[..line.len().min(160)]));
      }
      "lseek" => {
        if res >= 0 {
          evs.push(Ev::Lseek { fd: fd_of(&args[0]), result: res as u64 });
        }
      }
      "ftruncate" => {
        if res == 0 {
          let len: u64 = args.get(1).and_then(|a| a.trim().parse().ok()).unwrap_or(0);
          evs.push(Ev::Ftruncate { fd: fd_of(&args[0]), len });
        }
      }
      "fsync" | "fdatasync" => {
        if res == 0 {
          evs.push(Ev::Fsync { fd: fd_of(&args[0]) });
        }
      }
      "rename" | "renameat" | "renameat2" => {
        if res != 0 {
          continue;
        }
        let (a, b) = if name == "rename" { (0, 1) } else { (1, 3) };
        match (args.get(a).and_then(|x| qpath(x)), args.get(b).and_then(|x| qpath(x))) {
          (Some(from), Some(to)) => evs.push(Ev::Rename { from, to }),
          _ => bad.push(line.to_string()),
        }
      }
      "unlink" | "unlinkat" | "rmdir" => {
        if res != 0 {
          continue;
        }
        let i = if name == "unlinkat" { 1 } else { 0 };
        match args.get(i).and_then(|x| qpath(x)) {
          Some(path) => evs.push(Ev::Unlink { path }),
          None => bad.push(line.to_string()),
        }
      }
      "mkdir" | "mkdirat" => {
        if res != 0 {
          continue;
        }
        let i = if name == "mkdirat" { 1 } else { 0 };
        if let Some(path) = args.get(i).and_then(|x| qpath(x)) {
          evs.push(Ev::Mkdir { path });
        }
      }
      _ => {}
    }
  }
  (evs, bad)
}

#[derive(Clone, Debug)]
pub enum DataOp {
  Write { off: usize, data: Vec<u8> },
  Trunc { len: usize },
}

#[derive(Clone, Debug, Default)]
pub struct Obj {
  pub vol: Vec<u8>,
  pub dur: Vec<u8>,
  pub pending: Vec<DataOp>,
}

#[derive(Clone, Debug)]
pub enum DirOp {
  Create { path: String, obj: usize },
  Rename { from: String, to: String },
  Unlink { path: String },
}

#[derive(Clone, Debug)]
struct Fd {
  path: String,
  obj: Option<usize>,
  pos: usize,
  append: bool,
  is_dir: bool,
}

#[derive(Clone, Debug, Default)]
pub struct FsModel {
  pub root: String,
  pub objs: Vec<Obj>,
  pub vol_ns: BTreeMap<String, usize>,
  pub dur_ns: BTreeMap<String, usize>,
  pub pending_dir: Vec<DirOp>,
  fds: HashMap<i32, Fd>,
  pub dirs: Vec<String>,
}

fn apply_data(buf: &mut Vec<u8>, op: &DataOp) {
  match op {
    DataOp::Write { off, data } => {
      let end = off + data.len();
      if buf.len() < end {
        buf.resize(end, 0);
      }
      buf[*off..end].copy_from_slice(data);
    }
    DataOp::Trunc { len } => buf.resize(*len, 0),
  }
}

fn apply_dir(ns: &mut BTreeMap<String, usize>, op: &DirOp) {
  match op {
    DirOp::Create { path, obj } => {
      ns.insert(path.clone(), *obj);
    }
    DirOp::Rename { from, to } => {
      if let Some(o) = ns.remove(from) {
        ns.insert(to.clone(), o);
      }
    }
    DirOp::Unlink { path } => {
      ns.remove(path);
    }
  }
}

/// One durable image: path (relative to root) -> content.
pub type Image = BTreeMap<String, Vec<u8>>;

#[derive(Clone, Debug)]
pub struct ImageDesc {
  pub dir_prefix: usize,
  pub dir_pending: usize,
  pub data_variant: String,
}

impl FsModel {
  pub fn new(root: &str) -> Self {
    FsModel { root: root.trim_end_matches('/').to_string(), dirs: vec![root.trim_end_matches('/').to_string()], ..Default::default() }
  }

  fn rel(&self, path: &str) -> Option<String> {
    let p = path.strip_prefix(&self.root)?;
    let p = p.strip_prefix('/')?;
    Some(p.to_string())
  }

  /// Apply one event to the model. Returns a short label when the event touched the index directory.
  pub fn apply(&mut self, ev: &Ev) -> Option<String> {
    match ev {
      Ev::Marker(..) => None,
      Ev::Mkdir { path } => {
        if path.starts_with(&self.root) {
          self.dirs.push(path.trim_end_matches('/').to_string());
        }
        None
      }
      Ev::Open { fd, path, create, trunc, append, write } => {
        let clean = path.trim_end_matches('/').to_string();
        if self.dirs.iter().any(|d| *d == clean) {
          self.fds.insert(*fd, Fd { path: clean, obj: None, pos: 0, append: false, is_dir: true });
          return None;
        }
        let Some(rel) = self.rel(path) else {
          self.fds.remove(fd);
          return None;
        };
        let mut label = None;
        let obj = match self.vol_ns.get(&rel) {
          Some(o) => *o,
          None => {
            if !*create {
              // opening something we never saw created (should not happen inside root)
              self.fds.remove(fd);
              return None;
            }
            let o = self.objs.len();
            self.objs.push(Obj::default());
            self.vol_ns.insert(rel.clone(), o);
            self.pending_dir.push(DirOp::Create { path: rel.clone(), obj: o });
            label = Some(format!("create({})", class(&rel)));
            o
          }
        };
        if *trunc && *write && !self.objs[obj].vol.is_empty() {
          let op = DataOp::Trunc { len: 0 };
          apply_data(&mut self.objs[obj].vol, &op);
          self.objs[obj].pending.push(op);
          label = Some(format!("open-trunc({})", class(&rel)));
        }
        self.fds.insert(*fd, Fd { path: rel, obj: Some(obj), pos: 0, append: *append, is_dir: false });
        label
      }
      Ev::Close { fd } => {
        self.fds.remove(fd);
        None
      }
      Ev::Lseek { fd, result } => {
        if let Some(f) = self.fds.get_mut(fd) {
          f.pos = *result as usize;
        }
        None
      }
      Ev::Write { fd, data } => {
        let f = self.fds.get_mut(fd)?;
        let obj = f.obj?;
        let off = if f.append { self.objs[obj].vol.len() } else { f.pos };
        let op = DataOp::Write { off, data: data.clone() };
        apply_data(&mut self.objs[obj].vol, &op);
        self.objs[obj].pending.push(op);
        f.pos = off + data.len();
        Some(format!("write({})", class(&f.path)))
      }
      Ev::Pwrite { fd, data, off } => {
        let f = self.fds.get_mut(fd)?;
        let obj = f.obj?;
        let op = DataOp::Write { off: *off as usize, data: data.clone() };
        apply_data(&mut self.objs[obj].vol, &op);
        self.objs[obj].pending.push(op);
        Some(format!("pwrite({})", class(&f.path)))
      }
      Ev::Ftruncate { fd, len } => {
        let f = self.fds.get_mut(fd)?;
        let obj = f.obj?;
        let op = DataOp::Trunc { len: *len as usize };
        apply_data(&mut self.objs[obj].vol, &op);
        self.objs[obj].pending.push(op);
        Some(format!("ftruncate({})", class(&f.path)))
      }
      Ev::Fsync { fd } => {
        let f = self.fds.get(fd)?.clone();
        if f.is_dir {
          let ops = std::mem::take(&mut self.pending_dir);
          for op in ops.iter() {
            apply_dir(&mut self.dur_ns, op);
          }
          Some("fsync(dir)".into())
        } else {
          let obj = f.obj?;
          self.objs[obj].dur = self.objs[obj].vol.clone();
          self.objs[obj].pending.clear();
          Some(format!("fsync({})", class(&f.path)))
        }
      }
      Ev::Rename { from, to } => {
        let (Some(a), Some(b)) = (self.rel(from), self.rel(to)) else { return None };
        if let Some(o) = self.vol_ns.remove(&a) {
          self.vol_ns.insert(b.clone(), o);
        }
        self.pending_dir.push(DirOp::Rename { from: a.clone(), to: b.clone() });
        Some(format!("rename({}->{})", class(&a), class(&b)))
      }
      Ev::Unlink { path } => {
        let rel = self.rel(path)?;
        self.vol_ns.remove(&rel);
        self.pending_dir.push(DirOp::Unlink { path: rel.clone() });
        Some(format!("unlink({})", class(&rel)))
      }
    }
  }

  fn content(&self, obj: usize, ops: usize, torn: Option<usize>) -> Vec<u8> {
    let o = &self.objs[obj];
    let mut buf = o.dur.clone();
    for op in o.pending.iter().take(ops) {
      apply_data(&mut buf, op);
    }
    if let Some(t) = torn {
      if let Some(DataOp::Write { off, data }) = o.pending.get(ops) {
        let part = DataOp::Write { off: *off, data: data[..t.min(data.len())].to_vec() };
        apply_data(&mut buf, &part);
      }
    }
    buf
  }

  /// Enumerate the durable images a crash right now may leave (see module doc).
  /// `torn_all_below`: writes up to this size are torn at every byte, larger ones at
  /// `torn_samples` evenly spread offsets.
  pub fn images(&self, torn_all_below: usize, torn_samples: usize, mut sink: impl FnMut(Image, ImageDesc)) {
    let np = self.pending_dir.len();
    let mut ns = self.dur_ns.clone();
    for p in 0..=np {
      if p > 0 {
        apply_dir(&mut ns, &self.pending_dir[p - 1]);
      }
      let desc = |v: String| ImageDesc { dir_prefix: p, dir_pending: np, data_variant: v };
      // global policies
      let all_dur: Image = ns.iter().map(|(k, o)| (k.clone(), self.objs[*o].dur.clone())).collect();
      let all_vol: Image = ns.iter().map(|(k, o)| (k.clone(), self.objs[*o].vol.clone())).collect();
      let any_pending = ns.values().any(|o| !self.objs[*o].pending.is_empty());
      sink(all_dur.clone(), desc("all-unsynced-dropped".into()));
      if any_pending {
        sink(all_vol.clone(), desc("all-unsynced-kept".into()));
      }
      // per-file prefixes and torn writes, others dropped / others kept
      for (path, o) in ns.iter() {
        let n = self.objs[*o].pending.len();
        if n == 0 {
          continue;
        }
        for j in 0..=n {
          if j > 0 && j < n {
            let c = self.content(*o, j, None);
            let mut a = all_dur.clone();
            a.insert(path.clone(), c.clone());
            sink(a, desc(format!("{}:prefix{}/{}+others-dropped", class(path), j, n)));
            let mut b = all_vol.clone();
            b.insert(path.clone(), c);
            sink(b, desc(format!("{}:prefix{}/{}+others-kept", class(path), j, n)));
          }
          if j < n {
            if let DataOp::Write { data, .. } = &self.objs[*o].pending[j] {
              let len = data.len();
              let cuts: Vec<usize> = if len <= torn_all_below {
                (1..len).collect()
              } else {
                (1..=torn_samples).map(|k| k * len / (torn_samples + 1)).filter(|c| *c > 0 && *c < len).collect()
              };
              for t in cuts {
                let c = self.content(*o, j, Some(t));
                let mut a = all_dur.clone();
                a.insert(path.clone(), c.clone());
                sink(a, desc(format!("{}:prefix{}/{}+torn@{}of{}+others-dropped", class(path), j, n, t, len)));
                if ns.len() > 1 {
                  let mut b = all_vol.clone();
                  b.insert(path.clone(), c);
                  sink(b, desc(format!("{}:prefix{}/{}+torn@{}of{}+others-kept", class(path), j, n, t, len)));
                }
              }
            }
          }
        }
      }
    }
  }
}

pub fn class(rel: &str) -> String {
  if rel.starts_with("seg_") {
    match rel.rsplit('.').next() {
      Some(e) if e != rel => format!("seg.{e}"),
      _ => "seg".into(),
    }
  } else {
    rel.to_string()
  }
}

pub fn image_hash(img: &Image) -> u64 {
  let mut h = 0xcbf2_9ce4_8422_2325u64;
  let mut feed = |b: &[u8]| {
    for x in b {
      h ^= *x as u64;
      h = h.wrapping_mul(0x1000_0000_01b3);
    }
  };
  for (k, v) in img {
    feed(k.as_bytes());
    feed(&[0]);
    feed(&(v.len() as u64).to_le_bytes());
    feed(v);
  }
  vcore::rng::mix(h)
}

/// Write the image at `root` (directory is emptied first).
pub fn materialise(root: &std::path::Path, img: &Image) -> std::io::Result<()> {
  if root.exists() {
    for e in std::fs::read_dir(root)? {
      let e = e?;
      let p = e.path();
      if p.is_dir() {
        std::fs::remove_dir_all(&p)?;
      } else {
        std::fs::remove_file(&p)?;
      }
    }
  } else {
    std::fs::create_dir_all(root)?;
  }
  for (k, v) in img {
    let p = root.join(k);
    if let Some(parent) = p.parent() {
      std::fs::create_dir_all(parent)?;
    }
    std::fs::write(p, v)?;
  }
  Ok(())
}
