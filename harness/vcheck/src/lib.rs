//! Per-property checks live in `src/bin/cXX.rs`; helpers shared by several
//! checks live here.
pub mod crashsim;
pub mod hist;
pub mod http;
pub mod sched;
