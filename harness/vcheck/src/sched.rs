//! Pause-point scheduling on top of the `--cfg searchlite_verif` hook
//! (`searchlite_core::verif::point`). The hook callback is process-global; it dispatches
//! on a thread-local so that independent runs can share one process.
use std::cell::RefCell;
use std::sync::{Arc, Mutex, Once};
use vcore::Rng;

pub struct RunTrace {
  /// (thread label, point) in global observation order
  pub points: Mutex<Vec<(usize, &'static str)>>,
}

pub type Action = Box<dyn FnMut(&'static str) + Send>;

pub struct ThreadSched {
  pub thread: usize,
  pub trace: Arc<RunTrace>,
  pub action: Action,
}

thread_local! {
  static TL: RefCell<Option<ThreadSched>> = const { RefCell::new(None) };
}

static INSTALL: Once = Once::new();

pub fn install() {
  INSTALL.call_once(|| {
    searchlite_core::verif::set_callback(Some(Arc::new(|name: &'static str| {
      // take the scheduler out while running the action so that re-entrancy is harmless
      let taken = TL.with(|t| t.borrow_mut().take());
      if let Some(mut s) = taken {
        s.trace.points.lock().unwrap().push((s.thread, name));
        (s.action)(name);
        TL.with(|t| *t.borrow_mut() = Some(s));
      }
    })));
  });
}

/// Register the calling thread: every pause point it reaches is recorded in `trace` and `action` runs.
pub fn enter(thread: usize, trace: Arc<RunTrace>, action: Action) {
  install();
  TL.with(|t| *t.borrow_mut() = Some(ThreadSched { thread, trace, action }));
}

pub fn leave() {
  TL.with(|t| *t.borrow_mut() = None);
}

/// Perturbation action: seeded random sleeps, biased to the windows named in `hot`.
pub fn perturb(mut rng: Rng, hot: &'static [&'static str], max_us: u64) -> Action {
  Box::new(move |name: &'static str| {
    let is_hot = hot.iter().any(|h| *h == name);
    let p = if is_hot { 0.7 } else { 0.25 };
    if rng.chance(p) {
      let us = rng.below(if is_hot { max_us } else { max_us / 3 + 1 });
      if us < 50 {
        std::thread::yield_now();
      } else {
        std::thread::sleep(std::time::Duration::from_micros(us));
      }
    }
  })
}
