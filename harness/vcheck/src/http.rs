//! Minimal blocking HTTP/1.1 client + live-server management for the front-end checks.
use std::io::{Read, Write};
use std::net::{SocketAddr, TcpListener, TcpStream};
use std::path::{Path, PathBuf};
use std::process::{Child, Command, Stdio};
use std::time::{Duration, Instant};

#[derive(Debug, Clone)]
pub struct Resp {
  pub status: u16,
  pub headers: Vec<(String, String)>,
  pub body: Vec<u8>,
  /// the peer closed before a complete response was received
  pub truncated: bool,
}

impl Resp {
  pub fn header(&self, name: &str) -> Option<&str> {
    self.headers.iter().find(|(k, _)| k.eq_ignore_ascii_case(name)).map(|(_, v)| v.as_str())
  }
  pub fn json(&self) -> Option<serde_json::Value> {
    serde_json::from_slice(&self.body).ok()
  }
  pub fn is_2xx(&self) -> bool {
    (200..300).contains(&self.status)
  }
}

fn find(h: &[u8], n: &[u8]) -> Option<usize> {
  h.windows(n.len()).position(|w| w == n)
}

/// Parse one HTTP/1.1 response from raw bytes (Content-Length, chunked, or read-to-close).
pub fn parse_response(raw: &[u8], eof: bool) -> Option<Resp> {
  let he = find(raw, b"\r\n\r\n")?;
  let head = String::from_utf8_lossy(&raw[..he]).to_string();
  let mut lines = head.split("\r\n");
  let status_line = lines.next()?;
  let mut sp = status_line.split_whitespace();
  let ver = sp.next()?;
  if !ver.starts_with("HTTP/") {
    return None;
  }
  let status: u16 = sp.next()?.parse().ok()?;
  let mut headers = Vec::new();
  for l in lines {
    if let Some((k, v)) = l.split_once(':') {
      headers.push((k.trim().to_string(), v.trim().to_string()));
    }
  }
  let body_raw = &raw[he + 4..];
  let get = |n: &str| headers.iter().find(|(k, _)| k.eq_ignore_ascii_case(n)).map(|(_, v)| v.clone());
  if let Some(cl) = get("content-length").and_then(|v| v.parse::<usize>().ok()) {
    if body_raw.len() >= cl {
      return Some(Resp { status, headers, body: body_raw[..cl].to_vec(), truncated: false });
    }
    if eof {
      return Some(Resp { status, headers, body: body_raw.to_vec(), truncated: true });
    }
    return None;
  }
  if get("transfer-encoding").map(|v| v.to_ascii_lowercase().contains("chunked")).unwrap_or(false) {
    let mut out = Vec::new();
    let mut p = 0;
    loop {
      let Some(le) = find(&body_raw[p..], b"\r\n") else {
        return if eof { Some(Resp { status, headers, body: out, truncated: true }) } else { None };
      };
      let szs = String::from_utf8_lossy(&body_raw[p..p + le]).to_string();
      let sz = usize::from_str_radix(szs.split(';').next().unwrap_or("").trim(), 16).ok()?;
      p += le + 2;
      if sz == 0 {
        return Some(Resp { status, headers, body: out, truncated: false });
      }
      if body_raw.len() < p + sz + 2 {
        return if eof { Some(Resp { status, headers, body: out, truncated: true }) } else { None };
      }
      out.extend_from_slice(&body_raw[p..p + sz]);
      p += sz + 2;
    }
  }
  if status == 204 || status == 304 || (100..200).contains(&status) {
    return Some(Resp { status, headers, body: vec![], truncated: false });
  }
  if eof {
    return Some(Resp { status, headers, body: body_raw.to_vec(), truncated: false });
  }
  None
}

/// Send raw bytes on a fresh connection and read one response.
/// Ok(None) = the connection was closed / timed out without any parsable response.
pub fn send_raw(addr: SocketAddr, bytes: &[u8], timeout: Duration) -> std::io::Result<Option<Resp>> {
  let mut s = TcpStream::connect_timeout(&addr, Duration::from_secs(5))?;
  s.set_read_timeout(Some(Duration::from_millis(200)))?;
  s.set_write_timeout(Some(timeout))?;
  // the server may answer (and close) before the whole request is written: ignore write errors
  let _ = s.write_all(bytes);
  let _ = s.flush();
  let start = Instant::now();
  let mut buf = Vec::new();
  let mut tmp = [0u8; 65536];
  loop {
    match s.read(&mut tmp) {
      Ok(0) => return Ok(parse_response(&buf, true)),
      Ok(n) => {
        buf.extend_from_slice(&tmp[..n]);
        if let Some(r) = parse_response(&buf, false) {
          return Ok(Some(r));
        }
      }
      Err(e) if e.kind() == std::io::ErrorKind::WouldBlock || e.kind() == std::io::ErrorKind::TimedOut => {
        if start.elapsed() > timeout {
          return Ok(parse_response(&buf, true).filter(|r| !r.truncated));
        }
      }
      Err(e) if e.kind() == std::io::ErrorKind::ConnectionReset => return Ok(parse_response(&buf, true)),
      Err(e) => return Err(e),
    }
  }
}

pub fn request(addr: SocketAddr, method: &str, path: &str, content_type: Option<&str>, body: &[u8], timeout: Duration) -> std::io::Result<Option<Resp>> {
  let mut req = format!("{method} {path} HTTP/1.1\r\nHost: {addr}\r\nConnection: close\r\nContent-Length: {}\r\n", body.len());
  if let Some(ct) = content_type {
    req.push_str(&format!("Content-Type: {ct}\r\n"));
  }
  req.push_str("\r\n");
  let mut bytes = req.into_bytes();
  bytes.extend_from_slice(body);
  send_raw(addr, &bytes, timeout)
}

pub fn post_json(addr: SocketAddr, path: &str, v: &serde_json::Value) -> std::io::Result<Option<Resp>> {
  request(addr, "POST", path, Some("application/json"), v.to_string().as_bytes(), Duration::from_secs(60))
}

static NEXT_PORT: std::sync::atomic::AtomicU32 = std::sync::atomic::AtomicU32::new(0);

/// A port nobody in this process was handed before (cases run in parallel threads, so asking
/// the OS for "any free port" and closing it again can hand the same port to two cases).
pub fn free_port() -> u16 {
  use std::sync::atomic::Ordering;
  let base = 20000 + (std::process::id() % 400) * 100;
  for _ in 0..2000 {
    let n = NEXT_PORT.fetch_add(1, Ordering::SeqCst);
    let port = (base + n % 20000) as u16;
    if port < 1024 {
      continue;
    }
    if TcpListener::bind(("127.0.0.1", port)).is_ok() {
      return port;
    }
  }
  TcpListener::bind("127.0.0.1:0").and_then(|l| l.local_addr()).map(|a| a.port()).unwrap_or(18080)
}

pub struct Server {
  pub child: Child,
  pub addr: SocketAddr,
  pub index_dir: PathBuf,
}

impl Server {
  pub fn alive(&mut self) -> bool {
    matches!(self.child.try_wait(), Ok(None))
  }
  pub fn stop(&mut self) {
    let _ = self.child.kill();
    let _ = self.child.wait();
  }
  pub fn healthy(&self) -> bool {
    // patient on a loaded machine: a slow answer is not an unhealthy server
    for secs in [5u64, 30, 120] {
      match request(self.addr, "GET", "/healthz", None, b"", Duration::from_secs(secs)) {
        Ok(Some(r)) => return r.status == 200,
        Err(e) if matches!(e.kind(), std::io::ErrorKind::TimedOut | std::io::ErrorKind::WouldBlock) => continue,
        _ => return false,
      }
    }
    false
  }
}

impl Drop for Server {
  fn drop(&mut self) {
    self.stop();
  }
}

/// Where the driver's pre-build step puts the front-end binaries.
pub fn repo_bin(name: &str) -> PathBuf {
  let root = std::env::var("VERIF_BIN_DIR").unwrap_or_else(|_| "/verif/target/repo-bins/release".into());
  Path::new(&root).join(name)
}

pub fn start_server(index_dir: &Path, extra: &[&str]) -> Result<Server, String> {
  let exe = repo_bin("searchlite-http");
  if !exe.exists() {
    return Err(format!("{} not built", exe.display()));
  }
  // The error text starts with "slow:" when no attempt's process exited on its own (a starved machine:
  // callers treat that as inconclusive) and with "exited:" (+ the last stderr lines) otherwise.
  let mut last_exit: Option<String> = None;
  for _attempt in 0..5 {
    let port = free_port();
    let addr: SocketAddr = format!("127.0.0.1:{port}").parse().unwrap();
    let mut cmd = Command::new(&exe);
    cmd.arg("--index").arg(index_dir).arg("--bind").arg(addr.to_string());
    for e in extra {
      cmd.arg(e);
    }
    cmd.env("RUST_LOG", "off").stdin(Stdio::null()).stdout(Stdio::null()).stderr(Stdio::piped());
    let child = cmd.spawn().map_err(|e| format!("spawn: {e}"))?;
    let mut s = Server { child, addr, index_dir: index_dir.to_path_buf() };
    // drain stderr in the background so that a chatty server never blocks on a full pipe
    let err_buf = std::sync::Arc::new(std::sync::Mutex::new(Vec::<u8>::new()));
    if let Some(mut e) = s.child.stderr.take() {
      let buf = err_buf.clone();
      std::thread::spawn(move || {
        let mut chunk = [0u8; 4096];
        while let Ok(n) = std::io::Read::read(&mut e, &mut chunk) {
          if n == 0 {
            break;
          }
          let mut b = buf.lock().unwrap();
          if b.len() < 65536 {
            b.extend_from_slice(&chunk[..n]);
          }
        }
      });
    }
    let t = Instant::now();
    let mut exited = false;
    while t.elapsed() < Duration::from_secs(30) {
      if !s.alive() {
        exited = true;
        break;
      }
      if s.healthy() {
        // make sure it is OUR process that answers (a failed bind exits within milliseconds)
        std::thread::sleep(Duration::from_millis(120));
        if s.alive() && s.healthy() {
          return Ok(s);
        }
        exited = !s.alive();
        break;
      }
      std::thread::sleep(Duration::from_millis(30));
    }
    s.stop();
    if exited {
      std::thread::sleep(Duration::from_millis(50));
      let text = String::from_utf8_lossy(&err_buf.lock().unwrap()).to_string();
      // a lost race for the port is not the server's fault: try the next port
      if !(text.contains("Address already in use") || text.contains("AddrInUse")) {
        last_exit = Some(text.chars().rev().take(400).collect::<String>().chars().rev().collect());
      }
    }
  }
  match last_exit {
    Some(e) => Err(format!("exited: server process exited before becoming healthy: {e}")),
    None => Err("slow: server did not become healthy within 5 x 30 s".into()),
  }
}
