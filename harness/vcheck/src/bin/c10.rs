//! C10 — Hit order and scores follow the sort spec and BM25.
//! (a) sort oracle: the hit list must be ordered by sort keys computed from the ORIGINAL documents
//!     (min for asc / max for desc on multi-valued fields, missing last, ties by (segment, doc));
//! (b) score oracle: every hit's score must equal an independently computed BM25 (per-segment
//!     N/df/avgdl/dl derived from the corpus and the commit layout through the public analyzers)
//!     combined through boosts, Sum/DisMax, multi_match rules and the custom scoring nodes.
#[path = "../shared/scoring.rs"]
mod scoring;

use scoring::{Built, CorpusCfg, DocEval, QCfg, Quirks};
use serde_json::{json, Value};
use std::cmp::Ordering;
use vcore::{gen, idx, Ctx, Local, Rng};

#[derive(Clone, Debug)]
enum SK {
  Score(bool),
  Kw(String, bool),
  I(String, bool),
  F(String, bool),
}

struct HitInfo<'a> {
  id: String,
  score: f32,
  src: &'a Value,
  loc: (usize, usize),
}

fn ord_dir(o: Ordering, desc: bool) -> Ordering {
  if desc {
    o.reverse()
  } else {
    o
  }
}

fn opt_cmp<T, F: Fn(&T, &T) -> Ordering>(a: &Option<T>, b: &Option<T>, desc: bool, f: F) -> Ordering {
  match (a, b) {
    (None, None) => Ordering::Equal,
    (None, _) => Ordering::Greater, // missing last in both directions
    (_, None) => Ordering::Less,
    (Some(x), Some(y)) => ord_dir(f(x, y), desc),
  }
}

fn part_cmp(k: &SK, a: &HitInfo, b: &HitInfo) -> Ordering {
  match k {
    SK::Score(desc) => ord_dir(a.score.total_cmp(&b.score), *desc),
    SK::Kw(f, desc) => {
      let pick = |h: &HitInfo| {
        let v = scoring::strs_of(h.src.get(f));
        if *desc {
          v.into_iter().max()
        } else {
          v.into_iter().min()
        }
      };
      opt_cmp(&pick(a), &pick(b), *desc, |x, y| x.as_bytes().cmp(y.as_bytes()))
    }
    SK::I(f, desc) => {
      let pick = |h: &HitInfo| {
        let v = scoring::i64s_of(h.src.get(f));
        if *desc {
          v.into_iter().max()
        } else {
          v.into_iter().min()
        }
      };
      opt_cmp(&pick(a), &pick(b), *desc, |x, y| x.cmp(y))
    }
    SK::F(f, desc) => {
      let pick = |h: &HitInfo| {
        let v = scoring::f64s_of(h.src.get(f));
        if *desc {
          v.into_iter().fold(None, |m: Option<f64>, x| Some(m.map_or(x, |m| m.max(x))))
        } else {
          v.into_iter().fold(None, |m: Option<f64>, x| Some(m.map_or(x, |m| m.min(x))))
        }
      };
      opt_cmp(&pick(a), &pick(b), *desc, |x, y| x.partial_cmp(y).unwrap_or(Ordering::Equal))
    }
  }
}

fn describe_part(k: &SK, a: &HitInfo, b: &HitInfo) -> String {
  let (name, desc, field) = match k {
    SK::Score(d) => ("_score", *d, None),
    SK::Kw(f, d) => ("keyword", *d, Some(f)),
    SK::I(f, d) => ("i64", *d, Some(f)),
    SK::F(f, d) => ("f64", *d, Some(f)),
  };
  let mut s = format!("{name}:{}", if desc { "desc" } else { "asc" });
  if let Some(f) = field {
    let cnt = |h: &HitInfo| match h.src.get(f) {
      Some(Value::Array(a)) => a.len(),
      Some(Value::Null) | None => 0,
      Some(_) => 1,
    };
    let (ca, cb) = (cnt(a), cnt(b));
    if ca == 0 || cb == 0 {
      s.push_str(":missing-value");
    }
    if ca > 1 || cb > 1 {
      s.push_str(":multi-valued");
    }
  }
  s
}

fn gen_sort(rng: &mut Rng) -> (Vec<Value>, Vec<SK>) {
  let r = rng.below(100);
  if r < 40 {
    return (vec![], vec![SK::Score(true)]);
  }
  let nkeys = if r < 55 { 1 } else { rng.urange(1, 3) };
  let mut specs = Vec::new();
  let mut plan = Vec::new();
  let mut used = Vec::new();
  for i in 0..nkeys {
    let field = if r < 55 && i == 0 { "_score" } else { *rng.pick(&["skey", "tag", "n", "x", "age", "pop", "cat", "_score", "skey", "n", "x"]) };
    if used.contains(&field) {
      continue;
    }
    used.push(field);
    let order: Option<bool> = match rng.below(5) {
      0 => None,
      1 | 2 => Some(true),
      _ => Some(false),
    };
    let desc = order.unwrap_or(field == "_score");
    let mut spec = json!({"field": field});
    if let Some(d) = order {
      spec["order"] = json!(if d { "desc" } else { "asc" });
    }
    specs.push(spec);
    plan.push(match field {
      "_score" => SK::Score(desc),
      "skey" | "tag" | "cat" => SK::Kw(field.to_string(), desc),
      "n" | "age" => SK::I(field.to_string(), desc),
      _ => SK::F(field.to_string(), desc),
    });
  }
  (specs, plan)
}

fn tol_eq(a: f64, b: f64) -> bool {
  (a - b).abs() <= 1e-4 * a.abs().max(b.abs()) + 1e-5
}

struct ScoreOutcome {
  compared: u64,
  skipped_nonmatch: u64,
  undefined: u64,
  mismatches: Vec<Value>,
  below_min: Vec<Value>,
}

fn score_pass(b: &Built, plan: &scoring::Plan, hits: &[HitInfo]) -> ScoreOutcome {
  let mut o = ScoreOutcome { compared: 0, skipped_nonmatch: 0, undefined: 0, mismatches: vec![], below_min: vec![] };
  for h in hits {
    let mut ev = DocEval::new(b, plan, h.loc.0, h.loc.1);
    match ev.total() {
      Err(_) => o.undefined += 1,
      Ok((false, _)) => o.skipped_nonmatch += 1,
      Ok((true, s)) => {
        o.compared += 1;
        if !tol_eq(h.score as f64, s) {
          o.mismatches.push(json!({"id": h.id, "engine_score": h.score, "expected_score": s, "segment": h.loc.0, "doc": h.loc.1}));
        }
        if let Some(m) = ev.min_score_margin {
          if m < -1e-3 {
            o.below_min.push(json!({"id": h.id, "engine_score": h.score, "combined_minus_min_score": m}));
          }
        }
      }
    }
  }
  o
}

fn main() {
  let args: Vec<String> = std::env::args().skip(1).collect();
  if args.first().map(|s| s.as_str()) == Some("probe") {
    std::process::exit(scoring::probe_main(&args[1]));
  }
  let mut ctx = Ctx::from_args("C10", "exploration", &args);
  ctx.rule = "per case one random corpus (15-250 docs, 1-4 commits, k1/b randomised, text through default or stop-word+stemmer analyzers, multi-valued/missing keyword and numeric fast fields; ~35% of the corpora also contain upserts/deletes) and 30-50 random requests (scored query trees: term, query_string, multi_match best/most_fields, prefix, dis_max+tie_breaker, bool, boosts, constant_score, function_score, rank_feature, script_score; sort plans of 0-3 keys over keyword/i64/f64/_score, both orders; all three execution modes). Each request is run with limit >= corpus size; evaluations = (1) order check of the full hit list against sort keys computed from the original documents, (2) on corpora without deleted documents and when _score is a sort key: every hit's score against the independent BM25/score-tree model (rel 1e-4), (3) a second run with a random limit 1..50 must be an admissible prefix of the full list. A request is non-trivial when it returned >= 2 hits that were order-checked (and counted once by hash of corpus+request).".into();
  ctx.assumptions = vec![
    "scores are judged only on corpora whose segments contain no deleted documents (N/df of a segment with tombstones is ambiguous) and only when `_score` is part of the sort (a field-only sort does not compute scores)".into(),
    "avgdl of a field = total tokens of the field / number of documents of the segment (classic BM25); keyword terms have tf 1 and neutral length normalisation".into(),
    "a query without any scoring clause scores 1.0; match_all/phrase/filters contribute nothing inside compound queries; a node's boost multiplies the node's whole score".into(),
    "function_score: score_mode/boost_mode always explicit, at least one unfiltered function, `missing` always given where the field may be absent, modifiers only inside their mathematical domain (log=ln, log1p=ln(1+x)), max_boost only with boost_mode replace|min (where capping the function value and capping the result coincide), min_score only top-level; scripts never divide by zero nor read absent fields; all custom scores are >= 0; cross_fields, log2p, fuzzy, wildcard/regex and phrases are not judged (semantics undocumented)".into(),
    "for `_score` sort keys the engine's reported score is used as the key (scores are verified separately), so near-ties cannot cause false order alarms".into(),
    "which documents match is C07/C08's concern: only returned hits are judged".into(),
  ];
  let n = ctx.n(300, 50_000);
  let quick = ctx.quick();
  ctx.run_cases("idx", n, |rng: &mut Rng, l: &mut Local, scratch| {
    let mut vocab: Vec<String> = gen::WORDS.iter().map(|s| s.to_string()).collect();
    vocab.extend(gen::INFLECTED.iter().map(|s| s.to_string()));
    let mut doc_vocab = vocab.clone();
    doc_vocab.extend(gen::STOPWORDS.iter().take(3).map(|s| s.to_string()));
    doc_vocab.extend(gen::MIXED_CASE.iter().map(|s| s.to_string()));
    let cfg = CorpusCfg {
      n_docs: if quick { rng.urange(15, 120) } else { rng.urange(15, 250) },
      vocab: doc_vocab,
      max_commits: 4,
      dirty: rng.chance(0.35),
      body_analyzer: if rng.chance(0.5) { "en".into() } else { "default".into() },
      title_missing_p: if rng.chance(0.5) { 0.0 } else { 0.15 },
      title_max: 4,
      body_max: rng.urange(4, 14),
      multi_text_p: 0.1,
    };
    let mut corpus = scoring::gen_corpus(rng, &cfg);
    if !cfg.dirty && rng.chance(0.3) {
      // length-skewed family: long documents, a few very short ones at the end of each commit
      scoring::add_length_skew(rng, &mut corpus, &cfg.vocab);
      l.count("corpora_length_skewed", 1);
    }
    let dir = scratch.join("i");
    let built = match vcore::ctx::catch(|| scoring::build(&dir, &corpus)) {
      Ok(Ok(b)) => b,
      Ok(Err(e)) => {
        l.inconclusive(format!("index build/model: {e}"));
        return;
      }
      Err(p) => {
        l.inconclusive(format!("index build panicked: {p}"));
        return;
      }
    };
    l.count(if built.clean { "corpora_clean" } else { "corpora_with_deletions" }, 1);
    if built.segs.len() > 1 {
      l.count("corpora_multi_segment", 1);
    }
    let corpus_fp = vcore::ctx::fp(&format!("{:?}", corpus.batches));
    let qcfg = QCfg { vocab, depth: 3, custom: true, cross_fields: false, prefix: true, kw_terms: true, zero_boost: true, fancy_terms: true, min_score: true };
    let nreq = if quick { 30 } else { 50 };
    for _ in 0..nreq {
      let mut qc = qcfg.clone();
      qc.custom = rng.chance(0.7);
      qc.depth = rng.urange(0, 3);
      let query = scoring::gen_query(rng, &qc);
      let (sort_specs, sort_plan) = gen_sort(rng);
      let exec = *rng.pick(&["bm25", "wand", "bmw"]);
      let mut req = json!({"query": query, "limit": built.total_docs + 5, "execution": exec});
      if !sort_specs.is_empty() {
        req["sort"] = json!(sort_specs);
      }
      if exec == "bmw" && rng.chance(0.5) {
        req["bmw_block_size"] = json!(rng.urange(1, 64));
      }
      if rng.chance(0.1) {
        req["fields"] = rng.pick(&[json!(["body"]), json!(["title"]), json!(["title", "body"])]).clone();
      }
      if rng.chance(0.15) {
        req["filter"] = scoring::gen_filter(rng, 1);
      }
      let res = match vcore::ctx::catch(|| idx::search(&built.reader, req.clone())) {
        Ok(Ok(r)) => r,
        Ok(Err(e)) => {
          l.count("requests_rejected", 1);
          if l.inconclusive.len() < 3 {
            l.inconclusive(format!("request rejected: {e:#} :: {req}"));
          }
          continue;
        }
        Err(p) => {
          // panics are C16's property; not judged here
          l.count("requests_panicked", 1);
          let _ = p;
          continue;
        }
      };
      l.count("requests", 1);
      // map hits to the model
      let mut hits: Vec<HitInfo> = Vec::new();
      let mut unknown = 0;
      for h in res.hits.iter() {
        match built.loc.get(&h.doc_id) {
          Some(loc) => hits.push(HitInfo { id: h.doc_id.clone(), score: h.score, src: &built.segs[loc.0].docs[loc.1].src, loc: *loc }),
          None => unknown += 1,
        }
      }
      if unknown > 0 {
        l.count("hits_not_live_in_model(not judged: C04)", unknown);
        continue;
      }
      let uses_score = sort_plan.iter().any(|k| matches!(k, SK::Score(_)));
      // ---- (1) order ------------------------------------------------------------------------
      l.eval();
      let mut order_fail = false;
      for w in hits.windows(2) {
        let mut decided = None;
        for k in sort_plan.iter() {
          let c = part_cmp(k, &w[0], &w[1]);
          if c != Ordering::Equal {
            decided = Some((c, describe_part(k, &w[0], &w[1])));
            break;
          }
        }
        let (c, what) = decided.unwrap_or_else(|| (w[0].loc.cmp(&w[1].loc), "tie-break(segment,doc)".to_string()));
        l.count("order_pairs", 1);
        if what.contains("missing-value") {
          l.count("order_pairs_decided_by_missing_value", 1);
        }
        if what.contains("multi-valued") {
          l.count("order_pairs_decided_on_multi_valued", 1);
        }
        if what.starts_with("tie-break") {
          l.count("order_pairs_decided_by_tie_break", 1);
        }
        if c != Ordering::Less && !order_fail {
          order_fail = true;
          l.fail(
            format!("order:{what}"),
            format!("hits {} and {} are out of order with respect to {what}", w[0].id, w[1].id),
            json!({"request": req, "k1": built.k1, "b": built.b, "first": {"id": w[0].id, "score": w[0].score, "doc": w[0].src, "segment_doc": [w[0].loc.0, w[0].loc.1]},
              "second": {"id": w[1].id, "score": w[1].score, "doc": w[1].src, "segment_doc": [w[1].loc.0, w[1].loc.1]}, "segments": built.segs.len()}),
          );
        }
      }
      if hits.len() >= 2 {
        l.nontrivial(&(corpus_fp, req.to_string()));
      }
      l.count(&format!("sort_keys[{}]", sort_plan.len()), 1);
      // ---- (2) scores -----------------------------------------------------------------------
      let mut judged_scores = false;
      if built.clean && uses_score && !hits.is_empty() {
        match scoring::plan(&built, &query, req.get("fields"), Quirks::default()) {
          Err(e) => {
            l.count("score_oracle_not_applicable", 1);
            if l.inconclusive.len() < 3 {
              l.inconclusive(format!("score oracle: {e}"));
            }
          }
          Ok(plan) if !plan.leaves.is_empty() && plan.leaves.iter().all(|lf| lf.is_empty()) && !plan.notes.custom_nodes => {
            // every scored term vanished in analysis / expansion: whether such a query scores 0 or counts
            // as a query without scoring clause (1.0) is not documented
            l.count("score_requests_without_surviving_scored_term(not judged)", 1);
          }
          Ok(plan) => {
            l.eval();
            judged_scores = true;
            let o = score_pass(&built, &plan, &hits);
            l.count("hit_scores_compared", o.compared);
            l.count("hit_scores_skipped_oracle_says_no_match", o.skipped_nonmatch);
            l.count("hit_scores_skipped_undocumented_case", o.undefined);
            if plan.notes.custom_nodes {
              l.count("score_requests_with_custom_nodes", 1);
            }
            if plan.notes.dup_keys {
              l.count("score_requests_with_duplicate_term_keys", 1);
            }
            if built.segs.len() > 1 {
              l.count("score_requests_multi_segment", 1);
            }
            if !o.below_min.is_empty() && o.mismatches.is_empty() {
              l.fail("score:hit-below-min_score", "a returned hit's function_score value is below min_score", json!({"request": req, "hits": o.below_min}));
            }
            if !o.mismatches.is_empty() {
              // classify against the confirmed engine deviations
              let mut sig = None;
              let cands: Vec<(Quirks, &str)> = vec![
                (Quirks { merged_dups: true, double_boost: false }, "score:duplicate-term-merged-into-first-leaf"),
                (Quirks { merged_dups: false, double_boost: true }, "score:enclosing-boost-applied-twice-to-function/script_score"),
                (Quirks { merged_dups: true, double_boost: true }, "score:duplicate-term-merged+enclosing-boost-twice"),
              ];
              for (q, name) in cands {
                if (q.merged_dups && !plan.notes.dup_keys) || (q.double_boost && !plan.notes.wrapped_boost) {
                  continue;
                }
                if let Ok(p2) = scoring::plan(&built, &query, req.get("fields"), q) {
                  let o2 = score_pass(&built, &p2, &hits);
                  if std::env::var("C10_DEBUG").is_ok() {
                    eprintln!("model {name}: compared={} undefined={} mismatches={:?}", o2.compared, o2.undefined, o2.mismatches.iter().take(3).collect::<Vec<_>>());
                  }
                  if o2.mismatches.is_empty() && o2.compared > 0 {
                    sig = Some(name.to_string());
                    break;
                  }
                }
              }
              let sig = sig.unwrap_or_else(|| {
                let mut t = plan.notes.node_types.clone();
                t.sort();
                t.dedup();
                format!("score:unclassified:{}", t.join("+"))
              });
              l.fail(
                sig,
                format!("{} of {} hit scores differ from the independent BM25/score-tree computation", o.mismatches.len(), o.compared),
                json!({"request": req, "k1": built.k1, "b": built.b, "segments": built.segs.iter().map(|s| s.docs.len()).collect::<Vec<_>>(),
                  "mismatches": o.mismatches.iter().take(4).collect::<Vec<_>>(),
                  "docs": o.mismatches.iter().take(2).map(|m| { let loc = &built.loc[m["id"].as_str().unwrap()]; built.segs[loc.0].docs[loc.1].src.clone() }).collect::<Vec<_>>(),
                  "duplicate_term_keys": plan.notes.dup_keys, "function_or_script_under_boost": plan.notes.wrapped_boost}),
              );
            }
          }
        }
      }
      if l.samples.len() < 3 && hits.len() >= 2 {
        l.sample(json!({"request": req, "hits": hits.len(), "first_hits": hits.iter().take(3).map(|h| json!({"id": h.id, "score": h.score})).collect::<Vec<_>>(),
          "scores_judged": judged_scores, "segments": built.segs.len(), "k1": built.k1, "b": built.b}));
      }
      // ---- (3) a limited request is a prefix of the full list ------------------------------------
      if hits.len() >= 2 && !order_fail {
        let k = rng.urange(1, 50.min(hits.len()));
        let score_only_desc = sort_plan.len() == 1 && matches!(sort_plan[0], SK::Score(true));
        if score_only_desc || !uses_score {
          let mut variants: Vec<Value> = Vec::new();
          let mut req2 = req.clone();
          req2["limit"] = json!(k);
          if score_only_desc {
            // exhaustive first; the request's own (possibly pruned) execution as well: the top of
            // the ranking must not depend on the strategy (C09 studies that in depth, here it is
            // the same order/score statement applied to a limited request)
            let mut ex = req2.clone();
            ex["execution"] = json!("bm25");
            variants.push(ex);
            if req2.get("execution").and_then(|e| e.as_str()) != Some("bm25") {
              variants.push(req2.clone());
            }
          } else {
            variants.push(req2.clone());
          }
          for req2 in variants {
          if let Ok(Ok(r2)) = vcore::ctx::catch(|| idx::search(&built.reader, req2.clone())) {
            l.eval();
            l.count("limit_prefix_checks", 1);
            let got: Vec<(String, f32)> = r2.hits.iter().map(|h| (h.doc_id.clone(), h.score)).collect();
            let full: Vec<(String, f32)> = hits.iter().map(|h| (h.id.clone(), h.score)).collect();
            let strict = scoring::plan(&built, &query, req.get("fields"), Quirks::default()).map(|p| scoring::bit_reproducible(&p)).unwrap_or(false);
            let bad = if score_only_desc {
              scoring::check_topk(&full, &got, k, 2e-5, &built.loc, strict).err().map(|d| (d.kind, d.detail))
            } else {
              let a: Vec<&String> = got.iter().map(|g| &g.0).collect();
              let e: Vec<&String> = full.iter().take(k).map(|g| &g.0).collect();
              (a != e).then(|| ("ids-differ".to_string(), json!({"got": a, "expected": e})))
            };
            if let Some((kind, detail)) = bad {
              l.fail(
                format!("limit-prefix:{kind}:{}:{}", if score_only_desc { "score-sort" } else { "field-sort" }, req2.get("execution").and_then(|e| e.as_str()).unwrap_or("default")),
                format!("limit {k} does not return the first {k} hits of the full ordering"),
                json!({"request": req2, "detail": detail}),
              );
            }
          }
          }
        }
      }
    }
    drop(built);
    let _ = std::fs::remove_dir_all(&dir);
  });
  std::process::exit(ctx.finish());
}
