//! C30 — Composite aggregation paging is complete.
//! Metamorphic: pages obtained by feeding `after_key` back as `after` (page sizes 1..5) must
//! concatenate to the unpaged response; `after_key` is absent exactly on the last page.
//! The unpaged response is cross-checked against the independent composite oracle of C12.
use serde_json::{json, Map, Value};
use vcore::{idx, Ctx, Local, Rng};

#[path = "../shared/aggs.rs"]
mod aggs;
use aggs::Oracle;

use searchlite_core::api::IndexReader;

fn run(reader: &IndexReader, req: &Value) -> Result<Value, String> {
  match vcore::ctx::catch(|| idx::search(reader, req.clone())) {
    Err(p) => Err(format!("panic:{}", vcore::ctx::panic_site(&p))),
    Ok(Err(e)) => Err(format!("error:{}", format!("{e:#}").chars().take(160).collect::<String>())),
    Ok(Ok(res)) => Ok(serde_json::to_value(&res.aggregations).unwrap_or(Value::Null)),
  }
}

struct PageOutcome {
  sig: Option<(String, String)>,
  pages: usize,
}

/// Page through `spec` with page size `p`; compare with the unpaged bucket list `all`.
fn page_through(reader: &IndexReader, base: &Value, spec: &Value, p: usize, all: &[Value], trace: &mut Vec<Value>) -> PageOutcome {
  let mut got: Vec<Value> = Vec::new();
  let mut after: Option<Value> = None;
  let mut pages = 0;
  let cap = all.len() + 6;
  loop {
    let mut s = spec.clone();
    s["size"] = json!(p);
    if let Some(a) = after.as_ref() {
      s["after"] = a.clone();
    }
    let mut req = base.clone();
    req["aggs"] = json!({"c": s});
    let resp = match run(reader, &req) {
      Ok(r) => r,
      Err(e) => return PageOutcome { sig: Some((format!("paging:engine-{}", e.split(|c: char| c.is_ascii_digit()).next().unwrap_or("")), format!("page {pages} failed: {e}"))), pages },
    };
    pages += 1;
    let c = &resp["c"];
    let buckets = c["buckets"].as_array().cloned().unwrap_or_default();
    let ak = c.get("after_key").filter(|k| !k.is_null()).cloned();
    trace.push(json!({"after": after, "keys": buckets.iter().map(|b| b["key"].clone()).collect::<Vec<_>>(), "after_key": ak}));
    if buckets.len() > p {
      return PageOutcome { sig: Some(("paging:page-larger-than-size".into(), format!("page {pages} holds {} buckets for size {p}", buckets.len()))), pages };
    }
    got.extend(buckets.iter().cloned());
    let consumed = got.len();
    match ak {
      Some(k) => {
        if consumed >= all.len() && aggs::json_close(&Value::Array(got.clone()), &Value::Array(all.to_vec()), &mut vec![]).is_none() {
          return PageOutcome { sig: Some(("paging:after_key-present-on-last-page".into(), format!("page {pages} completes the {} buckets but still returns after_key {k}", all.len()))), pages };
        }
        if buckets.is_empty() {
          return PageOutcome { sig: Some(("paging:after_key-on-empty-page".into(), format!("page {pages} is empty but returns after_key {k}"))), pages };
        }
        after = Some(k);
      }
      None => break,
    }
    if pages > cap {
      return PageOutcome { sig: Some(("paging:does-not-terminate".into(), format!("{pages} pages of size {p} for {} buckets and after_key still present", all.len()))), pages };
    }
  }
  // classify the difference between the concatenation and the unpaged list
  let key_of = |b: &Value| b["key"].to_string();
  let all_keys: Vec<String> = all.iter().map(key_of).collect();
  let got_keys: Vec<String> = got.iter().map(key_of).collect();
  let mut seen = std::collections::BTreeSet::new();
  for k in got_keys.iter() {
    if !seen.insert(k.clone()) {
      return PageOutcome { sig: Some(("paging:bucket-repeated".into(), format!("bucket {k} returned on two pages (page size {p})"))), pages };
    }
  }
  if got_keys.len() < all_keys.len() {
    let missing = all_keys.iter().find(|k| !seen.contains(*k)).cloned().unwrap_or_default();
    let ended_early = got_keys.iter().zip(all_keys.iter()).all(|(a, b)| a == b);
    let sig = if ended_early { "paging:after_key-absent-before-last-page" } else { "paging:bucket-skipped" };
    return PageOutcome { sig: Some((sig.into(), format!("bucket {missing} of the unpaged response never returned with page size {p} ({} of {} buckets after {pages} pages)", got_keys.len(), all_keys.len()))), pages };
  }
  if let Some(extra) = got_keys.iter().find(|k| !all_keys.contains(k)) {
    return PageOutcome { sig: Some(("paging:bucket-not-in-unpaged-response".into(), format!("bucket {extra} appears only when paging (page size {p})"))), pages };
  }
  if got_keys != all_keys {
    return PageOutcome { sig: Some(("paging:order-differs".into(), format!("paged order {:?} vs unpaged {:?}", got_keys.iter().take(8).collect::<Vec<_>>(), all_keys.iter().take(8).collect::<Vec<_>>()))), pages };
  }
  for (g, a) in got.iter().zip(all.iter()) {
    if g["doc_count"] != a["doc_count"] {
      return PageOutcome { sig: Some(("paging:doc_count-differs".into(), format!("bucket {} has doc_count {} paged, {} unpaged", g["key"], g["doc_count"], a["doc_count"]))), pages };
    }
  }
  if let Some(d) = aggs::json_close(&Value::Array(got), &Value::Array(all.to_vec()), &mut vec![]) {
    return PageOutcome { sig: Some(("paging:sub-aggregation-differs".into(), format!("paged vs unpaged: {d}"))), pages };
  }
  PageOutcome { sig: None, pages }
}

fn main() {
  let args: Vec<String> = std::env::args().skip(1).collect();
  let mut ctx = Ctx::from_args("C30", "exploration", &args);
  ctx.rule = "per case: a seeded corpus (20-150 documents; multi-valued / missing keyword and numeric fields, negative values around zero, keys that are prefixes of one another) indexed in-memory under a random commit layout (mostly several segments, some with deletes / compaction); per request a composite aggregation with 1-3 uniquely named terms / histogram sources, optional metric sub-aggregations, over match_all / term query / filter. The unpaged response (size 10000) is compared with the independent composite oracle, then the aggregation is paged with page sizes from 1..5 (all five when the unpaged response has <= 40 buckets, two seeded ones otherwise) by feeding after_key back as after. evaluations = unpaged oracle comparisons + (request, page size) paging runs. A (request, page size) run is non-trivial (counted once by hash) when the unpaged response has more buckets than the page size, i.e. at least two pages are needed.".into();
  ctx.assumptions = vec![
    "buckets are ordered by source values in source order (strings bytewise, numbers numerically); documents lacking a value for any source are skipped (the behaviour the oracle of C12 encodes)".into(),
    "the reader is not refreshed between pages (one snapshot)".into(),
    "sub-aggregations are restricted to kinds without attributed multi-segment findings (metrics, top_hits with from = 0); their values are compared paged vs unpaged and against the oracle".into(),
    "histogram sources over i64 fields return no buckets at all (finding recorded under C12 and here); paging over the empty result is still exercised".into(),
  ];
  let quick = ctx.quick();
  let n = ctx.n(100, 8000);
  ctx.run_cases("paging", n, |rng: &mut Rng, l: &mut Local, scratch: &std::path::PathBuf| {
    let ndocs = rng.urange(20, 150);
    let docs = aggs::gen_corpus(rng, ndocs);
    let mut info = aggs::corpus_info(&docs);
    info.clean = true;
    let plan = match rng.below(6) {
      0 => aggs::plan_single(&docs),
      1 | 2 => aggs::plan_commits(rng, &docs, 6),
      3 => aggs::plan_one_per_commit(rng, &docs),
      4 => aggs::plan_churn(rng, &docs),
      _ => aggs::plan_compacted(rng, &docs),
    };
    let dir = scratch.join("idx");
    let _ = std::fs::remove_dir_all(&dir);
    let built = vcore::ctx::catch(|| -> anyhow::Result<_> {
      let index = aggs::build_plan(&dir, &docs, &plan, &mut rng.fork())?;
      let reader = index.reader()?;
      Ok((index, reader))
    });
    let (_index, reader) = match built {
      Ok(Ok(x)) => x,
      Ok(Err(e)) => {
        l.inconclusive(format!("layout {} could not be built: {e:#}", plan.name));
        return;
      }
      Err(p) => {
        l.inconclusive(format!("layout {} panicked while building: {p}", plan.name));
        return;
      }
    };
    if idx::all_docs(&reader).map(|v| v.len()).unwrap_or(usize::MAX) != docs.len() {
      l.inconclusive(format!("layout {} does not hold the corpus (write-path issue, not judged here)", plan.name));
      return;
    }
    l.count(&format!("layout[{}]", plan.name), 1);
    l.count("commits_total", plan.commits.len() as u64);
    let nreq = if quick { 8 } else { 16 };
    for _ in 0..nreq {
      let (q, f) = aggs::gen_query(rng);
      let i64_hist = rng.chance(0.15);
      let sources = aggs::gen_sources(rng, i64_hist);
      let mut spec = json!({"type": "composite", "sources": sources, "size": 10_000});
      let kids = [0usize, 0, 1, 2][rng.usize(4)];
      if kids > 0 {
        let mut m = Map::new();
        for i in 0..kids {
          m.insert(format!("m{i}"), aggs::gen_metric(rng, &info));
        }
        spec["aggs"] = Value::Object(m);
      }
      let mut base = json!({"query": q, "limit": *rng.pick(&[1usize, 5]), "execution": *rng.pick(&["wand", "bm25", "bmw"]), "return_stored": false});
      if let Some(f) = f.as_ref() {
        base["filter"] = f.clone();
      }
      let matched: Vec<&Value> = docs.iter().filter(|d| aggs::matches(d, &q, f.as_ref())).collect();
      let mut req = base.clone();
      req["aggs"] = json!({"c": spec});
      let case = |extra: Value| -> Value {
        json!({"layout": {"name": plan.name, "commits": plan.commits.len(), "compacted": plan.compact}, "documents": docs.len(), "matched": matched.len(), "request": req, "detail": extra})
      };
      l.count("requests", 1);
      l.count(&format!("sources[{}]", spec["sources"].as_array().map(|a| a.len()).unwrap_or(0)), 1);
      // 1. unpaged response vs the independent computation
      let unpaged = match run(&reader, &req) {
        Ok(r) => r,
        Err(e) => {
          l.eval();
          l.fail(format!("unpaged:engine-{}", e.split(|c: char| c.is_ascii_digit()).next().unwrap_or("")), format!("unpaged composite request failed: {e}"), case(json!(e)));
          continue;
        }
      };
      l.eval();
      let specs: Map<String, Value> = [("c".to_string(), spec.clone())].into_iter().collect();
      let exp = Oracle::default().aggs(&specs, &matched);
      let mut mms = vec![];
      aggs::compare_all(&specs, &exp, &unpaged, &mut vec![], &mut mms);
      let has_i64_hist = spec["sources"].as_array().map(|a| a.iter().any(|s| s["type"] == "histogram" && aggs::field_kind(s["field"].as_str().unwrap_or("")) == aggs::FK::I64)).unwrap_or(false);
      let all = unpaged["c"]["buckets"].as_array().cloned().unwrap_or_default();
      for m in mms.iter() {
        let sig = if m.kind == "composite" && has_i64_hist && all.is_empty() {
          "composite.histogram-source:i64-field-yields-no-buckets".to_string()
        } else if m.path.len() == 1 {
          "unpaged-differs-from-oracle:composite-buckets".to_string()
        } else {
          format!("unpaged-differs-from-oracle:sub-aggregation:{}", m.kind)
        };
        l.fail(sig, format!("unpaged composite response differs from the independent computation at {}: {}", m.path.join("/"), m.what), case(json!({"path": m.path, "what": m.what})));
      }
      if unpaged["c"].get("after_key").map(|k| !k.is_null()).unwrap_or(false) {
        l.fail("unpaged:after_key-present", "the response holding every bucket still returns after_key", case(json!({"after_key": unpaged["c"]["after_key"]})));
      }
      l.count("unpaged_buckets", all.len() as u64);
      if all.is_empty() {
        l.count("requests_without_buckets", 1);
      }
      if l.samples.is_empty() && all.len() > 3 {
        l.sample(json!({"layout": plan.name, "commits": plan.commits.len(), "documents": docs.len(), "matched": matched.len(), "request": req,
          "unpaged_keys": all.iter().take(10).map(|b| b["key"].clone()).collect::<Vec<_>>(), "unpaged_buckets": all.len()}));
      }
      // 2. paging
      // every page size on small results; two seeded sizes on large ones (each page is a full search)
      let sizes: Vec<usize> = if all.len() <= 40 {
        (1..=5).collect()
      } else {
        let lo = if all.len() <= 120 { 1 } else { 2 };
        let mut v: Vec<usize> = (lo..=5).collect();
        rng.shuffle(&mut v);
        v.truncate(2);
        v
      };
      for p in sizes {
        let mut trace = Vec::new();
        let out = page_through(&reader, &base, &spec, p, &all, &mut trace);
        l.eval();
        l.count("pages_fetched", out.pages as u64);
        if all.len() > p {
          l.nontrivial(&(serde_json::to_string(&docs).unwrap_or_default(), req.to_string(), plan.commits.len(), p));
          l.count("multi_page_runs", 1);
          if all.len() % p == 0 {
            l.count("runs_where_last_page_is_full", 1);
          }
        }
        if let Some((sig, what)) = out.sig {
          trace.truncate(12);
          l.fail(sig, what, case(json!({"page_size": p, "unpaged_keys": all.iter().take(24).map(|b| b["key"].clone()).collect::<Vec<_>>(), "pages": trace})));
        }
      }
    }
  });
  std::process::exit(ctx.finish());
}
