//! C15 — Every accepted document can be committed.
//! (a) differential: `add_document` Ok  =>  `commit` Ok (document alone in a fresh writer, and inside a
//!     batch of valid documents), with healthy in-memory storage;
//! (b) labelled mutants: a schema-valid document with exactly ONE injected schema violation must be
//!     rejected by `add_document`.
use searchlite_core::api::Index;
use serde_json::{json, Value};
use std::path::Path;
use vcore::gen::{FieldInfo, Kind, NestedInfo, SchemaInfo};
use vcore::{idx, Ctx, Local, Rng};

#[path = "../shared/c14gen.rs"]
mod c14gen;
use c14gen::{DocOpts, SchemaOpts};

const LABELS: &[&str] = &[
  "id-removed",
  "id-blank",
  "id-non-string",
  "wrong-scalar-type-top",
  "wrong-scalar-type-nested",
  "wrong-array-element-type-top",
  "wrong-array-element-type-nested",
  "fractional-number-in-i64-field-top",
  "fractional-number-in-i64-field-nested",
  "unknown-top-level-field",
  "unknown-nested-field",
  "null-on-non-nullable",
  "scalar-inside-nested-array",
  "array-inside-nested-array",
  "missing-required-nested-property",
  "object-where-scalar-expected-top",
  "object-where-scalar-expected-nested",
];

#[derive(Clone, Debug)]
enum Seg {
  Key(String),
  Idx(usize),
}

fn get_mut<'a>(v: &'a mut Value, path: &[Seg]) -> Option<&'a mut Value> {
  let mut cur = v;
  for s in path {
    cur = match s {
      Seg::Key(k) => cur.get_mut(k.as_str())?,
      Seg::Idx(i) => cur.get_mut(*i)?,
    };
  }
  Some(cur)
}

/// Every nested OBJECT inside the document with its schema node: (node, path to the object).
fn object_sites<'a>(s: &'a SchemaInfo, doc: &Value) -> Vec<(&'a NestedInfo, Vec<Seg>)> {
  fn walk<'a>(n: &'a NestedInfo, v: &Value, path: Vec<Seg>, out: &mut Vec<(&'a NestedInfo, Vec<Seg>)>) {
    match v {
      Value::Array(a) => {
        for (i, x) in a.iter().enumerate() {
          if x.is_object() {
            let mut p = path.clone();
            p.push(Seg::Idx(i));
            walk(n, x, p, out);
          }
        }
      }
      Value::Object(m) => {
        out.push((n, path.clone()));
        for c in n.children.iter() {
          if let Some(x) = m.get(&c.name) {
            let mut p = path.clone();
            p.push(Seg::Key(c.name.clone()));
            walk(c, x, p, out);
          }
        }
      }
      _ => {}
    }
  }
  let mut out = Vec::new();
  for n in s.nested.iter() {
    if let Some(v) = doc.get(&n.name) {
      walk(n, v, vec![Seg::Key(n.name.clone())], &mut out);
    }
  }
  out
}

/// Every place that holds a nested VALUE (array / object / null / absent) with its schema node:
/// (node, path of the parent object, key).
fn value_sites<'a>(s: &'a SchemaInfo, doc: &Value) -> Vec<(&'a NestedInfo, Vec<Seg>)> {
  let mut out: Vec<(&NestedInfo, Vec<Seg>)> = Vec::new();
  for n in s.nested.iter() {
    out.push((n, vec![]));
  }
  for (n, p) in object_sites(s, doc) {
    for c in n.children.iter() {
      out.push((c, p.clone()));
    }
  }
  out
}

fn wrong_scalar(rng: &mut Rng, k: Kind) -> Value {
  match k {
    Kind::Text | Kind::Keyword => match rng.below(3) {
      0 => json!(42),
      1 => json!(true),
      _ => json!(1.5),
    },
    Kind::I64 | Kind::F64 => match rng.below(3) {
      0 => json!("12"),
      1 => json!(false),
      _ => json!("abc"),
    },
  }
}

/// Make sure the document has at least one nested object to mutate; returns false if the schema has none.
fn ensure_nested_object(rng: &mut Rng, s: &SchemaInfo, doc: &mut Value, o: &DocOpts) -> bool {
  if !object_sites(s, doc).is_empty() {
    return true;
  }
  let Some(n) = s.nested.first() else { return false };
  let a = c14gen::nested_object(rng, n, o, 0);
  let b = c14gen::nested_object(rng, n, o, 0);
  doc[n.name.as_str()] = if rng.chance(0.5) { json!([a, b]) } else { a };
  true
}

/// Apply exactly one labelled schema violation to a schema-valid document. None = not applicable.
fn mutate(rng: &mut Rng, s: &SchemaInfo, valid: &Value, label: &str, o: &DocOpts) -> Option<Value> {
  let mut d = valid.clone();
  let idf = s.doc_id_field.clone();
  let pick_top = |rng: &mut Rng, pred: &dyn Fn(&FieldInfo) -> bool| -> Option<FieldInfo> {
    let c: Vec<&FieldInfo> = s.fields.iter().filter(|f| pred(f)).collect();
    if c.is_empty() {
      None
    } else {
      Some((*rng.pick(&c)).clone())
    }
  };
  // a nested object site holding (or able to hold) a leaf property satisfying `pred`
  let nested_leaf = |rng: &mut Rng, d: &mut Value, pred: &dyn Fn(&FieldInfo) -> bool| -> Option<(Vec<Seg>, FieldInfo)> {
    if !ensure_nested_object(rng, s, d, o) {
      return None;
    }
    let sites = object_sites(s, d);
    let c: Vec<(Vec<Seg>, FieldInfo)> =
      sites.iter().flat_map(|(n, p)| n.fields.iter().filter(|f| pred(f)).map(move |f| (p.clone(), f.clone()))).collect();
    if c.is_empty() {
      None
    } else {
      Some(rng.pick(&c).clone())
    }
  };
  match label {
    "id-removed" => {
      d.as_object_mut()?.remove(&idf);
    }
    "id-blank" => {
      d[idf.as_str()] = json!(*rng.pick(&["", " ", "   ", "\t", "\n "]));
    }
    "id-non-string" => {
      d[idf.as_str()] = match rng.below(6) {
        0 => json!(7),
        1 => Value::Null,
        2 => json!(["a"]),
        3 => json!({"x": 1}),
        4 => json!(true),
        _ => json!(1.25),
      };
    }
    "wrong-scalar-type-top" => {
      let f = pick_top(rng, &|_| true)?;
      d[f.name.as_str()] = wrong_scalar(rng, f.kind);
    }
    "wrong-array-element-type-top" => {
      let f = pick_top(rng, &|_| true)?;
      let good = c14gen::scalar(rng, &f);
      let bad = wrong_scalar(rng, f.kind);
      d[f.name.as_str()] = if rng.chance(0.5) { json!([good, bad]) } else { json!([bad]) };
    }
    "fractional-number-in-i64-field-top" => {
      let f = pick_top(rng, &|f| f.kind == Kind::I64)?;
      d[f.name.as_str()] = if rng.chance(0.5) { json!(1.5) } else { json!([2, 2.25]) };
    }
    "object-where-scalar-expected-top" => {
      let f = pick_top(rng, &|_| true)?;
      d[f.name.as_str()] = json!({"a": 1});
    }
    "wrong-scalar-type-nested" => {
      let (p, f) = nested_leaf(rng, &mut d, &|_| true)?;
      let w = wrong_scalar(rng, f.kind);
      get_mut(&mut d, &p)?.as_object_mut()?.insert(f.name.clone(), w);
    }
    "wrong-array-element-type-nested" => {
      let (p, f) = nested_leaf(rng, &mut d, &|_| true)?;
      let good = c14gen::scalar(rng, &f);
      let bad = wrong_scalar(rng, f.kind);
      let v = if rng.chance(0.5) { json!([good, bad]) } else { json!([bad]) };
      get_mut(&mut d, &p)?.as_object_mut()?.insert(f.name.clone(), v);
    }
    "fractional-number-in-i64-field-nested" => {
      let (p, f) = nested_leaf(rng, &mut d, &|f| f.kind == Kind::I64)?;
      let v = if rng.chance(0.5) { json!(1.5) } else { json!([2, 2.25]) };
      get_mut(&mut d, &p)?.as_object_mut()?.insert(f.name.clone(), v);
    }
    "object-where-scalar-expected-nested" => {
      let (p, f) = nested_leaf(rng, &mut d, &|_| true)?;
      get_mut(&mut d, &p)?.as_object_mut()?.insert(f.name.clone(), json!({"a": 1}));
    }
    "unknown-top-level-field" => {
      let v = match rng.below(6) {
        0 => json!("x"),
        1 => json!(5),
        2 => Value::Null,
        3 => json!([]),
        4 => json!({"a": "b"}),
        _ => json!(["p", "q"]),
      };
      let name = *rng.pick(&["zzz_unknown", "extra", "Body", "tags"]);
      if s.field(name).is_some() || s.nested.iter().any(|n| n.name == name) || name == idf {
        return None;
      }
      d[name] = v;
    }
    "unknown-nested-field" => {
      if !ensure_nested_object(rng, s, &mut d, o) {
        return None;
      }
      let sites = object_sites(s, &d);
      let (_, p) = rng.pick(&sites).clone();
      get_mut(&mut d, &p)?.as_object_mut()?.insert("zzz_unknown".into(), json!("x"));
    }
    "null-on-non-nullable" => {
      // candidates: top-level leaf, top-level nested container, nested leaf, child container, array element
      #[derive(Clone)]
      enum C {
        Top(String),
        Leaf(Vec<Seg>, String),
        Elem(Vec<Seg>, String, String),
      }
      let mut c: Vec<C> = Vec::new();
      for f in s.fields.iter().filter(|f| !f.nullable) {
        c.push(C::Top(f.name.clone()));
      }
      for n in s.nested.iter().filter(|n| !n.nullable) {
        c.push(C::Top(n.name.clone()));
        c.push(C::Elem(vec![], n.name.clone(), n.path.clone()));
      }
      ensure_nested_object(rng, s, &mut d, o);
      for (n, p) in object_sites(s, &d) {
        for f in n.fields.iter().filter(|f| !f.nullable) {
          c.push(C::Leaf(p.clone(), f.name.clone()));
        }
        for ch in n.children.iter().filter(|ch| !ch.nullable) {
          c.push(C::Leaf(p.clone(), ch.name.clone()));
          c.push(C::Elem(p.clone(), ch.name.clone(), ch.path.clone()));
        }
      }
      if c.is_empty() {
        return None;
      }
      match rng.pick(&c).clone() {
        C::Top(k) => {
          d[k.as_str()] = Value::Null;
        }
        C::Leaf(p, k) => {
          get_mut(&mut d, &p)?.as_object_mut()?.insert(k, Value::Null);
        }
        C::Elem(p, k, np) => {
          // a null element inside the array of a non-nullable nested field
          let node = value_sites(s, &d).into_iter().find(|(n, _)| n.path == np).map(|(n, _)| n)?;
          let obj = c14gen::nested_object(rng, node, o, 1);
          let parent = get_mut(&mut d, &p)?.as_object_mut()?;
          parent.insert(k, json!([obj, null]));
        }
      }
    }
    "scalar-inside-nested-array" | "array-inside-nested-array" => {
      ensure_nested_object(rng, s, &mut d, o);
      let sites = value_sites(s, &d);
      if sites.is_empty() {
        return None;
      }
      let (n, p) = rng.pick(&sites).clone();
      let obj = c14gen::nested_object(rng, n, o, 1);
      let v = if label == "scalar-inside-nested-array" {
        match rng.below(4) {
          0 => json!([obj, 5]),
          1 => json!(["str"]),
          2 => json!([true, obj]),
          _ => json!([obj, "x", obj]),
        }
      } else {
        match rng.below(4) {
          0 => json!([[obj]]),
          1 => json!([obj, [obj]]),
          2 => json!([[]]),
          _ => json!([obj, []]),
        }
      };
      get_mut(&mut d, &p)?.as_object_mut()?.insert(n.name.clone(), v);
    }
    "missing-required-nested-property" => {
      ensure_nested_object(rng, s, &mut d, o);
      let mut c: Vec<(Vec<Seg>, String)> = Vec::new();
      for (n, p) in object_sites(s, &d) {
        for f in n.fields.iter().filter(|f| !f.nullable) {
          c.push((p.clone(), f.name.clone()));
        }
        for ch in n.children.iter().filter(|ch| !ch.nullable) {
          c.push((p.clone(), ch.name.clone()));
        }
      }
      if c.is_empty() {
        return None;
      }
      let (p, k) = rng.pick(&c).clone();
      get_mut(&mut d, &p)?.as_object_mut()?.remove(&k)?;
    }
    _ => return None,
  }
  if d == *valid {
    return None;
  }
  Some(d)
}

fn stem(e: &str) -> String {
  let s: String = e.chars().map(|c| if c.is_ascii_alphanumeric() { c.to_ascii_lowercase() } else { '-' }).collect();
  // generated field names are not part of the root cause
  const NAMES: &[&str] = &["body", "title", "note", "tag", "cat", "n", "x", "c", "d", "who", "k", "s", "t", "sub", "w", "z", "req", "pk", "id"];
  let parts: Vec<&str> =
    s.split('-').filter(|p| !p.is_empty() && !p.chars().all(|c| c.is_ascii_digit()) && !NAMES.contains(p)).take(5).collect();
  parts.join("-")
}

fn fresh(dir: &Path, schema_json: &Value) -> anyhow::Result<Index> {
  let sch = idx::schema(schema_json)?;
  Index::create(dir, sch, idx::opts(dir, true))
}

#[derive(Debug)]
enum AddOutcome {
  /// the add error, and what happened afterwards: a rejected document must leave nothing behind
  Rejected(String, Result<(), String>),
  Accepted { alone: Result<(), String>, batch: Result<(), String>, later_blocked: bool, recovered: Result<(), String> },
  Panic(String),
}

/// Push one document through add / commit-alone / commit-in-batch / recovery, each on healthy in-memory storage.
fn probe(dir: &Path, s: &SchemaInfo, schema_json: &Value, doc: &Value, valid_pool: &[Value]) -> AddOutcome {
  let r = vcore::ctx::catch(|| -> anyhow::Result<AddOutcome> {
    let index = fresh(dir, schema_json)?;
    let mut w = index.writer()?;
    if let Err(e) = w.add_document(&idx::doc(doc)) {
      // A rejected document must leave nothing behind: (1) the same writer goes on with a valid document;
      // (2) on a second index the writer is dropped right after the rejection (no commit, no rollback) and a
      // NEW writer - which inherits whatever the first one left in the log - adds a valid document and commits.
      let good = valid_pool[0].clone();
      let want = good.get(&s.doc_id_field).and_then(|v| v.as_str()).unwrap_or("").to_string();
      let aftermath = (|| -> Result<(), String> {
        w.add_document(&idx::doc(&good)).map_err(|e| format!("same-writer:valid add after a rejection failed: {e:#}"))?;
        w.commit().map_err(|e| format!("same-writer:commit after a rejection failed: {e:#}"))?;
        let ids: Vec<String> = idx::all_docs(&index.reader().map_err(|e| format!("{e:#}"))?).map_err(|e| format!("{e:#}"))?.into_iter().map(|(id, _)| id).collect();
        if ids != vec![want.clone()] {
          return Err(format!("same-writer:contents after rejection + valid add + commit are {ids:?}, expected [{want}]"));
        }
        let index3 = fresh(&dir.join("r"), schema_json).map_err(|e| format!("{e:#}"))?;
        {
          let mut w3 = index3.writer().map_err(|e| format!("{e:#}"))?;
          let _ = w3.add_document(&idx::doc(doc));
          // dropped without commit or rollback
        }
        let mut w4 = index3.writer().map_err(|e| format!("new-writer:open after a rejection failed: {e:#}"))?;
        w4.add_document(&idx::doc(&good)).map_err(|e| format!("new-writer:valid add failed: {e:#}"))?;
        w4.commit().map_err(|e| format!("new-writer:commit failed because of a document that was rejected when it was queued: {e:#}"))?;
        let ids: Vec<String> = idx::all_docs(&index3.reader().map_err(|e| format!("{e:#}"))?).map_err(|e| format!("{e:#}"))?.into_iter().map(|(id, _)| id).collect();
        if ids != vec![want.clone()] {
          return Err(format!("new-writer:contents after rejection + writer re-open + valid add + commit are {ids:?}, expected [{want}]"));
        }
        Ok(())
      })();
      return Ok(AddOutcome::Rejected(format!("{e:#}"), aftermath));
    }
    let alone = w.commit().map_err(|e| format!("{e:#}"));
    let mut later_blocked = false;
    let mut recovered = Ok(());
    if alone.is_err() {
      // one bad document must not block later commits: first without, then with rollback
      let good = valid_pool[0].clone();
      drop(w);
      let mut w2 = index.writer()?;
      w2.add_document(&idx::doc(&good))?;
      later_blocked = w2.commit().is_err();
      recovered = (|| -> anyhow::Result<()> {
        w2.rollback()?;
        w2.add_document(&idx::doc(&good))?;
        w2.commit()?;
        let ids: Vec<String> = idx::all_docs(&index.reader()?)?.into_iter().map(|(id, _)| id).collect();
        let want = good.get(&s.doc_id_field).and_then(|v| v.as_str()).unwrap_or("").to_string();
        if ids != vec![want.clone()] {
          anyhow::bail!("after rollback + valid add + commit the index holds {ids:?}, expected [{want}]");
        }
        Ok(())
      })()
      .map_err(|e| format!("{e:#}"));
    }
    // the same document inside a batch of valid documents, fresh index
    let index2 = fresh(&dir.join("b"), schema_json)?;
    let mut wb = index2.writer()?;
    wb.add_document(&idx::doc(&valid_pool[0]))?;
    let batch = match wb.add_document(&idx::doc(doc)) {
      Err(e) => Err(format!("add in batch rejected although add alone was accepted: {e:#}")),
      Ok(_) => {
        wb.add_document(&idx::doc(&valid_pool[1]))?;
        wb.commit().map_err(|e| format!("{e:#}"))
      }
    };
    Ok(AddOutcome::Accepted { alone, batch, later_blocked, recovered })
  });
  match r {
    Err(p) => AddOutcome::Panic(p),
    Ok(Err(e)) => AddOutcome::Panic(format!("harness-error: {e:#}")),
    Ok(Ok(o)) => o,
  }
}

fn main() {
  let args: Vec<String> = std::env::args().skip(1).collect();
  let mut ctx = Ctx::from_args("C15", "exploration", &args);
  ctx.rule = "each case = one random schema (text/keyword/numeric fields, nested objects with child objects, random stored/indexed/fast/nullable flags, doc_id_field _id or pk) and N documents; every document starts schema-valid (all value shapes: absent, null on nullable, scalar, 1-element / multi-valued / empty arrays, nested arrays with nulls and {}); two thirds then receive exactly ONE labelled schema violation (17 labels: id removed/blank/non-string, wrong scalar type, wrong array element type, fractional number in an i64 field, unknown top-level / nested field, null on non-nullable, scalar / array inside nested array, missing required nested property, object where scalar expected; top-level and nested variants). Each document goes to add_document on a fresh in-memory index; if accepted it must commit alone and inside a batch of valid documents (differential a); a labelled mutant must be rejected at add (b); after a failed commit, rollback + valid add + commit must work; after a REJECTED add, the same writer and - on a second index - a new writer opened after the first was dropped without commit/rollback must be able to add a valid document and commit it, and the index must then hold exactly that document. evaluations = add decisions + commit decisions judged; a document is non-trivial when it is a mutant or was accepted and committed; distinct = distinct (label, schema, document) hashes.".into();
  ctx.assumptions = vec![
    "storage is healthy (InMemory), one writer at a time".into(),
    "a schema-valid document is one that follows README's field description; valid documents being rejected is reported too (signature valid-document-rejected:*) because it would invalidate the mutant labels".into(),
    "a fractional number in an i64 field counts as a wrong value type (the engine's own top-level validator rejects it)".into(),
    "top-level non-nullable fields that are simply absent are not judged (the property only names missing required NESTED values)".into(),
    "the vectors build (wrong vector dimension label) is not exercised here".into(),
  ];
  let n = ctx.n(150, 40_000);
  let per = ctx.n(60, 100) as usize;
  ctx.run_cases("schema", n, |rng: &mut Rng, l: &mut Local, scratch| {
    let so = SchemaOpts { all_stored: false, p_fast: 0.7, p_nullable: 0.5, want_nested: rng.chance(0.85) };
    let s = c14gen::gen_schema(rng, &so);
    let sj = s.to_json();
    let o = DocOpts { required_children_nonempty: false };
    let dir = scratch.join("i");
    let pool: Vec<Value> = (0..2).map(|i| c14gen::gen_doc(rng, &s, &format!("pool{i}"), &o)).collect();
    let sfp = vcore::ctx::fp(&sj.to_string());
    for k in 0..per {
      let _ = std::fs::remove_dir_all(&dir);
      let valid = c14gen::gen_doc(rng, &s, &format!("doc{k}"), &o);
      let (label, doc) = if k % 3 == 0 {
        ("valid", valid.clone())
      } else {
        let lab = *rng.pick(LABELS);
        match mutate(rng, &s, &valid, lab, &o) {
          Some(d) => (lab, d),
          None => {
            l.count(&format!("not_applicable[{lab}]"), 1);
            ("valid", valid.clone())
          }
        }
      };
      l.count(&format!("generated[{label}]"), 1);
      let out = probe(&dir, &s, &sj, &doc, &pool);
      // semantic fingerprint: label + schema + document content without its (always unique) id
      let mut body = doc.clone();
      if let Some(m) = body.as_object_mut() {
        m.remove(&s.doc_id_field);
      }
      let dfp = body.to_string();
      let case = |extra: Value| json!({"label": label, "schema": sj, "document": doc, "valid_original": valid, "outcome": extra});
      match out {
        AddOutcome::Panic(p) => {
          l.eval();
          l.fail(format!("panic:{}:{}", label, vcore::ctx::panic_site(&p)), format!("panic while adding/committing a {label} document: {p}"), case(json!(p)));
        }
        AddOutcome::Rejected(e, aftermath) => {
          l.eval();
          l.evals_add(2);
          if let Err(why) = aftermath {
            let kind = why.split(':').next().unwrap_or("?").to_string();
            l.fail(format!("rejected-document-leaves-traces:{kind}:{}", stem(why.splitn(2, ':').nth(1).unwrap_or(""))), format!("a document rejected by add_document still affected later operations: {why}"), case(json!({"add_error": e, "aftermath": why})));
          }
          l.count(&format!("rejected_at_add[{label}]"), 1);
          if label == "valid" {
            l.fail(format!("valid-document-rejected:{}", stem(&e)), format!("a schema-valid document was rejected by add_document: {e}"), case(json!(e)));
          } else {
            l.nontrivial(&(label, sfp, &dfp));
          }
        }
        AddOutcome::Accepted { alone, batch, later_blocked, recovered } => {
          l.evals_add(3);
          l.count(&format!("accepted_at_add[{label}]"), 1);
          l.nontrivial(&(label, sfp, &dfp));
          let commit_fails = alone.is_err() || batch.is_err();
          if commit_fails {
            l.count(&format!("commit_fails[{label}]"), 1);
            if later_blocked {
              l.count("later_commit_of_new_writer_blocked_until_rollback", 1);
            }
          }
          let detail = json!({"commit_alone": alone.as_ref().err(), "commit_in_batch": batch.as_ref().err(),
            "later_commit_blocked_without_rollback": later_blocked, "rollback_recovers": recovered.is_ok()});
          if label == "valid" {
            if commit_fails {
              let e = alone.as_ref().err().or(batch.as_ref().err()).cloned().unwrap_or_default();
              l.fail(format!("accepted-valid:commit-fails:{}", stem(&e)), format!("add_document accepted a schema-valid document but commit failed: {e}"), case(detail.clone()));
            }
          } else {
            let e = alone.as_ref().err().or(batch.as_ref().err()).cloned().unwrap_or_default();
            l.fail(
              format!("accepted-invalid:{label}:{}", if commit_fails { "commit-fails" } else { "commit-ok" }),
              if commit_fails {
                format!("add_document accepted a document with an injected `{label}` violation and commit then failed ({e}); every later commit of a writer that inherits the queue fails until rollback")
              } else {
                format!("add_document accepted a document with an injected `{label}` violation (commit succeeded, the offending value is silently dropped or stored)")
              },
              case(detail.clone()),
            );
          }
          if let Err(e) = recovered {
            l.fail(format!("rollback-does-not-recover:{label}:{}", stem(&e)), format!("after a failed commit, rollback + valid add + commit did not work: {e}"), case(detail));
          }
        }
      }
    }
    if l.samples.len() < 2 {
      l.sample(json!({"schema": sj, "valid_document": pool[0]}));
    }
    let _ = std::fs::remove_dir_all(&dir);
  });
  std::process::exit(ctx.finish());
}
