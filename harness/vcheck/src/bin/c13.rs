//! C13 — Aggregations and suggestions do not depend on paging.
//! Metamorphic oracle: for a fixed (reader, query, filter, aggs, suggest) every request that
//! differs only in limit / cursor page / sort / return_hits / execution / explain / profile /
//! rescore must return the same `aggregations` and `suggest`.
use serde_json::{json, Value};
use vcore::{Ctx, Local, Rng};

#[path = "../shared/paging.rs"]
mod paging;
use paging::{Call, F, Q};

const TOL: f64 = 1e-9;

/// `$.a0.buckets[3].aggregations.s0.sum` -> `a0.buckets.aggregations.s0.sum`
fn path_stem(diff: &str) -> String {
  let path = diff.split(':').next().unwrap_or("");
  let mut out = String::new();
  let mut skip = false;
  for c in path.chars() {
    match c {
      '[' => skip = true,
      ']' => skip = false,
      '$' => {}
      _ if skip => {}
      _ => out.push(c),
    }
  }
  out.trim_start_matches('.').to_string()
}

/// The type of the top-level aggregation a diff path points into.
fn agg_type_at(aggs: &Value, diff: &str) -> String {
  let stem = path_stem(diff);
  let name = stem.split('.').next().unwrap_or("");
  aggs.get(name).and_then(|a| a.get("type")).and_then(|t| t.as_str()).unwrap_or("?").to_string()
}

fn main() {
  let args: Vec<String> = std::env::args().skip(1).collect();
  let mut ctx = Ctx::from_args("C13", "exploration", &args);
  ctx.rule = "per case one in-memory index (8-40 docs, 1-4 segments with tombstones, tie-heavy values, small exactly-representable numbers). Per index 6-10 base requests = random query (match_all/term/query string/bool/function_score/dis_max/multi_match...) x optional filter x aggregation tree (terms, range, histogram, filter, stats, extended_stats, value_count, cardinality; nesting <= 3; no sampling) x optional completion suggesters. The base response (limit 10, default sort, wand) is compared with 10-25 variants differing ONLY in: limit (1,3,all), sort plan, return_hits=false, execution bm25/wand/bmw(+block size), explain, profile, rescore, random combinations of these, and every page of a cursor walk with page size 1-5 (under the default or a random sort). Comparison: structural JSON equality of `aggregations` and `suggest`, numbers within 1e-9 relative. evaluations = variant responses compared; a base is non-trivial (counted once by hash of corpus+request) when it matches >= 2 documents and its aggregation response contains a non-zero count.".into();
  ctx.assumptions = vec![
    "only exact aggregation kinds are generated (no percentiles/sampling/significant_terms/top_hits/composite/pipelines); top_hits is excluded because its per-hit score legitimately depends on whether the request computes scores".into(),
    "numeric fields hold small exactly-representable values so that sums do not depend on the order of addition; the 1e-9 relative tolerance is slack only".into(),
    "a variant that the engine rejects (Err) is counted and sampled as inconclusive, not as a violation (the property speaks about responses)".into(),
    "cursor + return_hits=false is documented as unsupported and never generated".into(),
  ];
  let quick = ctx.quick();
  let n = ctx.n(300, 60_000);
  ctx.run_cases("aggs", n, |rng: &mut Rng, l: &mut Local, scratch| {
    let n_docs = rng.urange(8, 40);
    let corpus = paging::gen_corpus_with(rng, n_docs, 4, false);
    let dir = scratch.join("i");
    let index = match paging::build_index(&dir, &corpus) {
      Ok(i) => i,
      Err(e) => {
        l.inconclusive(format!("index build failed: {e:#}"));
        return;
      }
    };
    let reader = match index.reader() {
      Ok(r) => r,
      Err(e) => {
        l.inconclusive(format!("reader failed: {e:#}"));
        return;
      }
    };
    let live = corpus.live();
    let big = live.len() + 10;
    let corpus_fp = vcore::ctx::fp(&corpus.to_json().to_string());
    l.count("indexes", 1);
    if reader.manifest.segments.len() > 1 {
      l.count("indexes_multi_segment", 1);
    }
    let n_bases = if quick { 6 } else { 10 };
    for _ in 0..n_bases {
      let q: Q = if rng.chance(0.7) { paging::gen_query(rng) } else { paging::gen_opaque_query(rng) };
      let filter: Option<F> = if rng.chance(0.4) { Some(paging::gen_filter(rng)) } else { None };
      let aggs = paging::gen_aggs(rng);
      let suggest = if rng.chance(0.5) { Some(paging::gen_suggest(rng)) } else { None };
      let mut base = json!({"query": q.to_json(), "aggs": aggs, "limit": 10, "return_stored": false});
      if let Some(f) = filter.as_ref() {
        base["filter"] = f.to_json();
      }
      if let Some(s) = suggest.as_ref() {
        base["suggest"] = s.clone();
      }
      let r0 = match paging::call(&reader, &base) {
        Call::Ok(r) => r,
        Call::Err(e) => {
          l.count("bases_rejected", 1);
          if l.inconclusive.len() < 3 {
            l.inconclusive(format!("base request rejected: {e} :: {}", paging::short(&base)));
          }
          continue;
        }
        Call::Panic(p) => {
          l.fail(format!("panic-base:{}", vcore::ctx::panic_site(&p)), format!("base request panicked: {p}"), json!({"corpus": corpus.to_json(), "request": base}));
          continue;
        }
      };
      let a0 = paging::aggs_json(&r0);
      let s0 = paging::suggest_json(&r0);
      l.count("bases", 1);
      fn any_pos(v: &Value) -> bool {
        match v {
          Value::Object(m) => m.iter().any(|(k, x)| ((k == "doc_count" || k == "count" || k == "value") && x.as_f64().map(|f| f > 0.0).unwrap_or(false)) || any_pos(x)),
          Value::Array(a) => a.iter().any(any_pos),
          _ => false,
        }
      }
      let nonzero = any_pos(&a0);
      if r0.total_hits_estimate >= 2 && nonzero {
        l.nontrivial(&(corpus_fp, base.to_string()));
        l.count("bases_nontrivial", 1);
      }
      if suggest.is_some() && s0.to_string().contains("\"text\"") {
        l.count("bases_with_nonempty_suggest", 1);
      }
      // ---------------- variants: (kind, request, ids ranked after the cursor for cursor pages)
      let mut variants: Vec<(String, Value, Option<Vec<String>>)> = Vec::new();
      let rescore = |rng: &mut Rng| {
        json!({"window_size": rng.urange(1, 8), "query": {"type": "term", "field": "body", "value": *rng.pick(paging::WORDS)},
          "score_mode": *rng.pick(&["total", "multiply", "max", "min"])})
      };
      for lim in [1usize, 3, big] {
        let mut v = base.clone();
        v["limit"] = json!(lim);
        variants.push(("limit".into(), v, None));
      }
      for _ in 0..2 {
        let mut v = base.clone();
        v["sort"] = json!(paging::gen_sort(rng));
        variants.push(("sort".into(), v, None));
      }
      {
        let mut v = base.clone();
        v["return_hits"] = json!(false);
        variants.push(("return_hits".into(), v, None));
      }
      for ex in [("bm25".to_string(), None), ("bmw".to_string(), None), ("bmw".to_string(), Some(rng.urange(1, 4)))] {
        let mut v = base.clone();
        paging::apply_exec(&mut v, &ex);
        variants.push(("execution".into(), v, None));
      }
      for (e, p) in [(true, false), (false, true), (true, true)] {
        let mut v = base.clone();
        v["explain"] = json!(e);
        v["profile"] = json!(p);
        variants.push((if e && p { "explain+profile" } else if e { "explain" } else { "profile" }.into(), v, None));
      }
      {
        let mut v = base.clone();
        v["rescore"] = rescore(rng);
        variants.push(("rescore".into(), v, None));
      }
      for _ in 0..3 {
        let mut v = base.clone();
        v["limit"] = json!(rng.urange(1, 12));
        if rng.chance(0.6) {
          v["sort"] = json!(paging::gen_sort(rng));
        }
        paging::apply_exec(&mut v, &paging::gen_exec(rng));
        if rng.chance(0.3) {
          v["explain"] = json!(true);
        }
        if rng.chance(0.3) {
          v["profile"] = json!(true);
        }
        if rng.chance(0.3) {
          v["rescore"] = rescore(rng);
        }
        if rng.chance(0.2) {
          v["return_hits"] = json!(false);
        }
        variants.push(("combination".into(), v, None));
      }
      // cursor walk: every page is a variant
      {
        let mut wb = base.clone();
        if rng.chance(0.5) {
          wb["sort"] = json!(paging::gen_sort(rng));
        }
        if rng.chance(0.3) {
          paging::apply_exec(&mut wb, &paging::gen_exec(rng));
        }
        let page = rng.urange(1, 5);
        // the order the walk follows (for the classifier): one unpaged request under the same sort
        let mut fr = wb.clone();
        fr["limit"] = json!(big);
        fr.as_object_mut().unwrap().remove("aggs");
        fr.as_object_mut().unwrap().remove("suggest");
        let order: Option<Vec<String>> = match paging::call(&reader, &fr) {
          Call::Ok(r) => Some(r.hits.iter().map(|h| h.doc_id.clone()).collect()),
          _ => None,
        };
        let w = paging::walk(&reader, &wb, page, 8);
        let mut cursor: Option<(String, String)> = None; // (cursor, last id before it)
        for (i, p) in w.pages.iter().enumerate() {
          let mut v = wb.clone();
          v["limit"] = json!(page);
          let mut after: Option<Vec<String>> = None;
          if let Some((c, last)) = cursor.as_ref() {
            v["cursor"] = json!(c);
            after = order.as_ref().and_then(|o| o.iter().position(|x| x == last).map(|pos| o[pos + 1..].to_vec()));
          }
          // the page response is already at hand: judge it directly (no second request)
          l.eval();
          l.count(if i == 0 { "variants[cursor-walk-first-page]" } else { "variants[cursor-page>=2]" }, 1);
          judge(l, &reader, &corpus, &base, &a0, &s0, "cursor-page", &v, p, after, filter.as_ref());
          cursor = p.next_cursor.clone().map(|c| (c, p.hits.last().map(|h| h.doc_id.clone()).unwrap_or_default()));
        }
        if let Some(stop) = w.stopped.as_ref() {
          if stop != "page-cap" {
            l.count("walks_stopped_early(C11 territory)", 1);
          }
        }
      }
      for (kind, v, after) in variants {
        match paging::call(&reader, &v) {
          Call::Ok(r) => {
            l.eval();
            l.count(&format!("variants[{kind}]"), 1);
            judge(l, &reader, &corpus, &base, &a0, &s0, &kind, &v, &r, after, filter.as_ref());
          }
          Call::Err(e) => {
            l.count("variants_rejected", 1);
            if l.inconclusive.len() < 6 {
              l.inconclusive(format!("variant ({kind}) rejected while the base was accepted: {e} :: {}", paging::short(&v)));
            } else {
              l.count("inconclusive", 1);
            }
          }
          Call::Panic(p) => l.fail(format!("panic-variant:{kind}:{}", vcore::ctx::panic_site(&p)), format!("variant panicked: {p}"), json!({"corpus": corpus.to_json(), "request": v})),
        }
      }
      if l.samples.is_empty() {
        l.sample(json!({"base": base, "aggregations": a0, "suggest": s0, "docs": live.len()}));
      }
    }
    let _ = std::fs::remove_dir_all(&dir);
  });
  std::process::exit(ctx.finish());
}

#[allow(clippy::too_many_arguments)]
fn judge(
  l: &mut Local,
  reader: &searchlite_core::api::IndexReader,
  corpus: &paging::Corpus,
  base: &Value,
  a0: &Value,
  s0: &Value,
  kind: &str,
  v: &Value,
  r: &searchlite_core::api::SearchResult,
  after: Option<Vec<String>>,
  filter: Option<&F>,
) {
  let a = paging::aggs_json(r);
  let s = paging::suggest_json(r);
  if let Some(d) = paging::json_diff(s0, &s, TOL, "$") {
    l.fail(
      format!("suggest-differs:{kind}:{}", path_stem(&d)),
      format!("suggest differs between the base request and a {kind} variant: {d}"),
      json!({"corpus": corpus.to_json(), "base": base, "variant": v, "base_suggest": s0, "variant_suggest": s}),
    );
  }
  let Some(d) = paging::json_diff(a0, &a, TOL, "$") else { return };
  let has_cursor = v.get("cursor").map(|c| c.is_string()).unwrap_or(false);
  let mut sig = format!("aggs-differ:{kind}:{}:{}", agg_type_at(&base["aggs"], &d), path_stem(&d).split('.').last().unwrap_or(""));
  if has_cursor {
    // anticipated root cause: the cursor filter runs before the aggregation collector, so a cursor
    // page aggregates only the documents ranked after the cursor. Reference: the base request
    // restricted (by unique id) to exactly those documents.
    sig = "unclassified:aggs-differ-on-cursor-page".into();
    if let Some(ids) = after {
      let idf = json!({"KeywordIn": {"field": "uid", "values": ids}});
      let mut rr = base.clone();
      rr["filter"] = match filter {
        Some(f) => json!({"And": [f.to_json(), idf]}),
        None => idf,
      };
      rr["limit"] = json!(1);
      if let Call::Ok(ref_r) = paging::call(reader, &rr) {
        if paging::json_diff(&paging::aggs_json(&ref_r), &a, TOL, "$").is_none() {
          sig = "aggs-on-cursor-page-cover-only-documents-after-the-cursor".into();
        }
      }
    }
  }
  l.fail(
    sig,
    format!("aggregations differ between the base request and a {kind} variant: {d}"),
    json!({"corpus": corpus.to_json(), "base": base, "variant": v, "first_difference": d, "base_aggregations": a0, "variant_aggregations": a}),
  );
}
