//! C14 — Compaction preserves observable contents.
//! Metamorphic oracle: everything observable through `IndexReader::search` (match_all stored
//! contents, ~40 generated scored / filter / sorted requests) is recorded before and after
//! `Index::compact()` on the same index and must not change; structure (single segment, no
//! deleted document still counted, old segment files gone) is read from `Index::manifest()`;
//! a refusal (`Err`) must leave manifest, directory bytes and all results unchanged.
use searchlite_core::api::Index;
use searchlite_core::storage::{FsStorage, InMemoryStorage, Storage};
use serde_json::{json, Value};
use std::collections::{BTreeMap, BTreeSet};
use std::path::{Path, PathBuf};
use std::sync::Arc;
use vcore::gen::{self, FieldInfo, Kind, NestedInfo, SchemaInfo};
use vcore::model::{self, Contents, Op};
use vcore::{idx, Ctx, Local, Rng};

#[path = "../shared/c14gen.rs"]
mod c14gen;
use c14gen::{DocOpts, SchemaOpts};

#[derive(Clone, Copy, PartialEq, Eq, Debug)]
enum Mode {
  /// everything stored, every live document rebuildable: compaction must succeed
  Normal,
  /// one indexed/fast field is not stored: compaction must refuse (ensure_compact_safe)
  UnstoredIndexed,
  /// a required nested property that is neither stored nor indexed nor fast: not rebuildable
  UnrebuildableProp,
  /// a required child object whose stored projection is empty in some live document
  UnrebuildableChild,
}

impl Mode {
  fn name(&self) -> &'static str {
    match self {
      Mode::Normal => "normal",
      Mode::UnstoredIndexed => "unstored-indexed-field",
      Mode::UnrebuildableProp => "required-unstored-nested-prop",
      Mode::UnrebuildableChild => "required-child-empty-projection",
    }
  }
}

#[derive(Clone)]
struct Req {
  json: Value,
  kind: &'static str,
  /// (top-level field, descending) for requests sorted by field
  sort: Vec<(String, bool)>,
  small_limit: bool,
  /// for a small-limit request: index of the same request with an unbounded limit
  twin: Option<usize>,
}

struct Case {
  mode: Mode,
  in_memory: bool,
  positions: bool,
  schema: SchemaInfo,
  commits: Vec<Vec<Op>>,
  post_ops: Vec<Op>,
  requests: Vec<Req>,
}

// ---------------------------------------------------------------- generators

fn gen_schema_for(rng: &mut Rng, mode: Mode) -> SchemaInfo {
  let o = SchemaOpts { all_stored: true, p_fast: 0.85, p_nullable: 0.6, want_nested: true };
  let mut s = c14gen::gen_schema(rng, &o);
  match mode {
    Mode::Normal => {}
    Mode::UnstoredIndexed => {
      // One field (never `body`) loses `stored` while staying indexed and/or fast. The class is drawn
      // first so that every way of being "indexed/fast but not stored" is exercised:
      // 0 text (indexed), 1 keyword indexed only, 2 keyword fast only, 3 keyword both, 4 numeric fast, 5 numeric not fast
      let class = rng.below(6);
      let want = |f: &FieldInfo| -> bool {
        f.name != "body"
          && match class {
            0 => f.kind == Kind::Text && f.indexed,
            1..=3 => f.kind == Kind::Keyword,
            _ => matches!(f.kind, Kind::I64 | Kind::F64),
          }
      };
      let mut paths: Vec<String> = s.all_fields().iter().filter(|f| want(f)).map(|f| f.path.clone()).collect();
      if paths.is_empty() {
        paths = s.all_fields().iter().filter(|f| (f.indexed || f.fast) && f.name != "body").map(|f| f.path.clone()).collect();
      }
      paths.sort();
      let p = rng.pick(&paths).clone();
      let apply = |f: &mut FieldInfo| {
        if f.path != p {
          return;
        }
        f.stored = false;
        match (class, f.kind) {
          (1, Kind::Keyword) => {
            f.indexed = true;
            f.fast = false;
          }
          (2, Kind::Keyword) => {
            f.indexed = false;
            f.fast = true;
          }
          (3, Kind::Keyword) => {
            f.indexed = true;
            f.fast = true;
          }
          (4, Kind::I64 | Kind::F64) => f.fast = true,
          (5, Kind::I64 | Kind::F64) => f.fast = false,
          _ => {}
        }
      };
      fn walk(n: &mut NestedInfo, apply: &dyn Fn(&mut FieldInfo)) {
        for f in n.fields.iter_mut() {
          apply(f);
        }
        for c in n.children.iter_mut() {
          walk(c, apply);
        }
      }
      for f in s.fields.iter_mut() {
        apply(f);
      }
      for n in s.nested.iter_mut() {
        walk(n, &apply);
      }
    }
    Mode::UnrebuildableProp => {
      let n = &mut s.nested[0];
      let path = format!("{}.req", n.path);
      n.fields.push(FieldInfo {
        name: "req".into(),
        path,
        kind: Kind::Keyword,
        stored: false,
        indexed: false,
        fast: false,
        nullable: false,
        analyzer: "default".into(),
        search_analyzer: None,
      });
    }
    Mode::UnrebuildableChild => {
      let n = &mut s.nested[0];
      if n.children.is_empty() {
        let p = format!("{}.sub", n.path);
        n.children.push(NestedInfo {
          name: "sub".into(),
          path: p.clone(),
          nullable: false,
          fields: vec![FieldInfo {
            name: "w".into(),
            path: format!("{p}.w"),
            kind: Kind::Keyword,
            stored: true,
            indexed: true,
            fast: true,
            nullable: true,
            analyzer: "default".into(),
            search_analyzer: None,
          }],
          children: vec![],
        });
      }
      n.children[0].nullable = false;
    }
  }
  s
}

fn tag_value(rng: &mut Rng) -> String {
  let t = rng.pick(gen::TAGS).to_string();
  match rng.below(6) {
    0 => t.to_uppercase(),
    1 => t.to_lowercase(),
    _ => t,
  }
}

fn leaf_filter(rng: &mut Rng, f: &FieldInfo) -> Value {
  match f.kind {
    Kind::Keyword | Kind::Text => {
      if rng.chance(0.7) {
        json!({"KeywordEq": {"field": f.name, "value": tag_value(rng)}})
      } else {
        json!({"KeywordIn": {"field": f.name, "values": [tag_value(rng), tag_value(rng)]}})
      }
    }
    Kind::I64 => {
      let a = rng.range(-6, 18);
      let b = a + rng.range(0, 12);
      json!({"I64Range": {"field": f.name, "min": a, "max": b}})
    }
    Kind::F64 => {
      let a = rng.range(-90, 150) as f64 / 8.0;
      let b = a + rng.range(0, 120) as f64 / 8.0;
      json!({"F64Range": {"field": f.name, "min": a, "max": b}})
    }
  }
}

fn pick_filterable<'a>(rng: &mut Rng, fs: &'a [FieldInfo]) -> Option<&'a FieldInfo> {
  let c: Vec<&FieldInfo> = fs.iter().filter(|f| f.fast && f.kind != Kind::Text).collect();
  if c.is_empty() {
    let d: Vec<&FieldInfo> = fs.iter().filter(|f| f.kind != Kind::Text).collect();
    if d.is_empty() {
      return None;
    }
    return Some(*rng.pick(&d));
  }
  Some(*rng.pick(&c))
}

fn nested_inner(rng: &mut Rng, n: &NestedInfo, depth: usize) -> Value {
  let r = if depth >= 3 { rng.below(45) } else { rng.below(100) };
  let leaf = |rng: &mut Rng| match pick_filterable(rng, &n.fields) {
    Some(f) => leaf_filter(rng, f),
    None => json!({"KeywordEq": {"field": "who", "value": "x"}}),
  };
  if r < 45 {
    leaf(rng)
  } else if r < 65 {
    json!({"Not": nested_inner(rng, n, depth + 1)})
  } else if r < 76 {
    json!({"And": [nested_inner(rng, n, depth + 1), nested_inner(rng, n, depth + 1)]})
  } else if r < 86 {
    json!({"Or": [nested_inner(rng, n, depth + 1), nested_inner(rng, n, depth + 1)]})
  } else if let Some(c) = n.children.first() {
    json!({"Nested": {"path": c.name, "filter": nested_inner(rng, c, depth + 1)}})
  } else {
    leaf(rng)
  }
}

fn top_filter(rng: &mut Rng, s: &SchemaInfo, depth: usize) -> Value {
  let r = if depth >= 2 { rng.below(70) } else { rng.below(100) };
  if r < 40 || s.nested.is_empty() && r < 70 {
    match pick_filterable(rng, &s.fields) {
      Some(f) => leaf_filter(rng, f),
      None => json!({"KeywordEq": {"field": "tag", "value": "red"}}),
    }
  } else if r < 70 {
    let n = rng.pick(&s.nested);
    json!({"Nested": {"path": n.name, "filter": nested_inner(rng, n, 0)}})
  } else if r < 80 {
    json!({"Not": top_filter(rng, s, depth + 1)})
  } else if r < 90 {
    json!({"And": [top_filter(rng, s, depth + 1), top_filter(rng, s, depth + 1)]})
  } else {
    json!({"Or": [top_filter(rng, s, depth + 1), top_filter(rng, s, depth + 1)]})
  }
}

fn nested_focused_filter(rng: &mut Rng, s: &SchemaInfo) -> Value {
  let n = rng.pick(&s.nested);
  let f = json!({"Nested": {"path": n.name, "filter": nested_inner(rng, n, 0)}});
  if rng.chance(0.2) {
    json!({"Not": f})
  } else {
    f
  }
}

fn ascii_words(text: &str) -> Vec<String> {
  text
    .split(|c: char| !c.is_ascii_alphanumeric())
    .filter(|w| !w.is_empty() && w.chars().all(|c| c.is_ascii_alphabetic()))
    .map(|w| w.to_ascii_lowercase())
    .collect()
}

fn query_node(rng: &mut Rng, s: &SchemaInfo, bodies: &[String], depth: usize) -> Value {
  let text_fields: Vec<&FieldInfo> = s.all_fields().into_iter().filter(|f| f.kind == Kind::Text && f.indexed).collect();
  let kw_fields: Vec<&FieldInfo> = s.all_fields().into_iter().filter(|f| f.kind == Kind::Keyword && f.indexed).collect();
  let word = |rng: &mut Rng| gen::WORDS[rng.zipf(gen::WORDS.len())].to_string();
  let r = if depth >= 2 { rng.below(70) } else { rng.below(100) };
  if r < 22 {
    let f = rng.pick(&text_fields);
    json!({"type": "term", "field": f.path, "value": word(rng)})
  } else if r < 32 && !kw_fields.is_empty() {
    let f = rng.pick(&kw_fields);
    json!({"type": "term", "field": f.path, "value": tag_value(rng)})
  } else if r < 44 {
    let fields: Vec<String> = text_fields.iter().filter(|f| !f.path.contains('.')).map(|f| f.path.clone()).collect();
    json!({"type": "query_string", "query": format!("{} {}", word(rng), word(rng)), "fields": fields})
  } else if r < 54 {
    // phrase of two adjacent words of a real body
    let mut terms = vec![word(rng), word(rng)];
    if !bodies.is_empty() {
      let w = ascii_words(&bodies[rng.usize(bodies.len())]);
      if w.len() >= 2 {
        let i = rng.usize(w.len() - 1);
        terms = vec![w[i].clone(), w[i + 1].clone()];
      }
    }
    json!({"type": "phrase", "field": "body", "terms": terms})
  } else if r < 62 {
    let w = word(rng);
    let k = rng.urange(1, 2).min(w.len());
    let f = rng.pick(&text_fields);
    json!({"type": "prefix", "field": f.path, "value": &w[..k]})
  } else if r < 70 {
    let w = word(rng);
    json!({"type": "wildcard", "field": "body", "value": format!("{}*{}", &w[..1], &w[w.len() - 1..])})
  } else if r < 78 {
    json!({"type": "constant_score", "filter": top_filter(rng, s, 1)})
  } else {
    let mut b = serde_json::Map::new();
    b.insert("type".into(), json!("bool"));
    let mut any = false;
    if rng.chance(0.6) {
      b.insert("must".into(), json!([query_node(rng, s, bodies, depth + 1)]));
      any = true;
    }
    if rng.chance(0.5) || !any {
      b.insert("should".into(), json!([query_node(rng, s, bodies, depth + 1), query_node(rng, s, bodies, depth + 1)]));
    }
    if rng.chance(0.35) {
      b.insert("must_not".into(), json!([query_node(rng, s, bodies, depth + 1)]));
    }
    if rng.chance(0.4) {
      b.insert("filter".into(), json!([top_filter(rng, s, 1)]));
    }
    Value::Object(b)
  }
}

/// Requests aimed at one field (the one whose data a wrong compaction would drop): term queries when
/// it is indexed, filters (wrapped in Nested for nested paths) when it is fast.
fn focus_requests(rng: &mut Rng, f: &FieldInfo) -> Vec<Req> {
  let mut out = Vec::new();
  let parts: Vec<&str> = f.path.split('.').collect();
  let wrap = |leaf: Value| -> Value {
    let mut v = leaf;
    for p in parts[..parts.len() - 1].iter().rev() {
      v = json!({"Nested": {"path": p, "filter": v}});
    }
    v
  };
  for _ in 0..4 {
    if f.indexed && matches!(f.kind, Kind::Text | Kind::Keyword) {
      let value = if f.kind == Kind::Text { gen::WORDS[rng.zipf(gen::WORDS.len())].to_string() } else { rng.pick(gen::TAGS).to_string() };
      out.push(Req {
        json: json!({"query": {"type": "term", "field": f.path, "value": value}, "limit": idx::BIG_LIMIT, "execution": "bm25"}),
        kind: "scored",
        sort: vec![],
        small_limit: false,
        twin: None,
      });
    }
    if f.fast {
      out.push(Req {
        json: json!({"query": {"type": "match_all"}, "filter": wrap(leaf_filter(rng, f)), "limit": idx::BIG_LIMIT, "execution": "bm25"}),
        kind: "filter",
        sort: vec![],
        small_limit: false,
        twin: None,
      });
    }
  }
  out
}

fn gen_requests(rng: &mut Rng, s: &SchemaInfo, bodies: &[String]) -> Vec<Req> {
  let mut out = Vec::new();
  let exec = |rng: &mut Rng| *rng.pick(&["bm25", "wand", "bmw"]);
  for _ in 0..13 {
    let mut j = json!({"query": query_node(rng, s, bodies, 0), "limit": idx::BIG_LIMIT, "execution": exec(rng)});
    if rng.chance(0.25) {
      j["filter"] = top_filter(rng, s, 1);
    }
    out.push(Req { json: j, kind: "scored", sort: vec![], small_limit: false, twin: None });
  }
  for i in 0..17 {
    let f = if i < 10 && !s.nested.is_empty() { nested_focused_filter(rng, s) } else { top_filter(rng, s, 0) };
    let j = json!({"query": {"type": "match_all"}, "filter": f, "limit": idx::BIG_LIMIT, "execution": exec(rng)});
    out.push(Req { json: j, kind: "filter", sort: vec![], small_limit: false, twin: None });
  }
  let sortable: Vec<&FieldInfo> = s.fields.iter().filter(|f| f.fast && f.kind != Kind::Text).collect();
  if !sortable.is_empty() {
    for i in 0..10 {
      let nkeys = rng.urange(1, 2);
      let mut sort = Vec::new();
      let mut sj = Vec::new();
      for _ in 0..nkeys {
        let f = rng.pick(&sortable);
        if sort.iter().any(|(n, _): &(String, bool)| *n == f.name) {
          continue;
        }
        let desc = rng.chance(0.5);
        sort.push((f.name.clone(), desc));
        sj.push(json!({"field": f.name, "order": if desc { "desc" } else { "asc" }}));
      }
      let small = i >= 7;
      let mut j = json!({"query": {"type": "match_all"}, "sort": sj, "limit": if small { 3 } else { idx::BIG_LIMIT }, "execution": exec(rng)});
      if rng.chance(0.4) {
        j["filter"] = top_filter(rng, s, 1);
      }
      if rng.chance(0.25) {
        j["query"] = query_node(rng, s, bodies, 1);
      }
      if small {
        let mut big = j.clone();
        big["limit"] = json!(idx::BIG_LIMIT);
        out.push(Req { json: big, kind: "sorted", sort: sort.clone(), small_limit: false, twin: None });
        let t = out.len() - 1;
        out.push(Req { json: j, kind: "sorted", sort, small_limit: true, twin: Some(t) });
      } else {
        out.push(Req { json: j, kind: "sorted", sort, small_limit: false, twin: None });
      }
    }
  }
  out
}

fn gen_case(rng: &mut Rng, quick: bool) -> Case {
  let mode = match rng.below(100) {
    0..=67 => Mode::Normal,
    68..=79 => Mode::UnstoredIndexed,
    80..=89 => Mode::UnrebuildableProp,
    _ => Mode::UnrebuildableChild,
  };
  let in_memory = if mode == Mode::Normal { rng.chance(0.7) } else { false };
  let schema = gen_schema_for(rng, mode);
  let dopts = DocOpts { required_children_nonempty: mode != Mode::UnrebuildableChild };
  let n_ids = rng.urange(3, if quick { 10 } else { 16 });
  let single_seg_deletes = rng.chance(0.07);
  let n_commits = if single_seg_deletes { 2 } else { rng.urange(2, 5) };
  let mut commits = Vec::new();
  let mut bodies = Vec::new();
  let mut live: BTreeSet<String> = BTreeSet::new();
  let mk_doc = |rng: &mut Rng, id: &str, bodies: &mut Vec<String>| -> Value {
    let mut d = c14gen::gen_doc(rng, &schema, id, &dopts);
    if mode == Mode::UnrebuildableProp {
      // give every nested object of the first nested field its required (unstored) property
      let n = &schema.nested[0];
      fn fill(v: &mut Value) {
        match v {
          Value::Array(a) => a.iter_mut().for_each(fill),
          Value::Object(m) => {
            m.insert("req".into(), json!("r"));
          }
          _ => {}
        }
      }
      if let Some(v) = d.get_mut(&n.name) {
        fill(v);
      }
    }
    if let Some(b) = d.get("body").and_then(|b| b.as_str()) {
      bodies.push(b.to_string());
    }
    d
  };
  for c in 0..n_commits {
    let mut ops = Vec::new();
    if single_seg_deletes && c == 1 {
      let ids: Vec<String> = live.iter().cloned().collect();
      let k = rng.urange(1, ids.len().max(1));
      for i in rng.subset(ids.len(), k) {
        ops.push(Op::Delete { id: ids[i].clone() });
        live.remove(&ids[i]);
      }
    } else {
      let n_ops = if c == 0 { rng.urange(2, n_ids + 2) } else { rng.urange(1, 8) };
      for _ in 0..n_ops {
        let id = format!("d{}", rng.usize(n_ids));
        if c > 0 && rng.chance(0.25) {
          ops.push(Op::Delete { id: id.clone() });
          live.remove(&id);
        } else {
          let d = mk_doc(rng, &id, &mut bodies);
          ops.push(Op::Add { id: id.clone(), doc: d });
          live.insert(id);
        }
      }
      if !ops.iter().any(|o| matches!(o, Op::Add { .. })) {
        let id = format!("d{}", rng.usize(n_ids));
        let d = mk_doc(rng, &id, &mut bodies);
        ops.push(Op::Add { id: id.clone(), doc: d });
        live.insert(id);
      }
    }
    commits.push(ops);
  }
  // operations committed after the compaction: one new id, one upsert, one delete
  let mut post_ops = Vec::new();
  {
    let d = mk_doc(rng, "new-after-compact", &mut bodies);
    post_ops.push(Op::Add { id: "new-after-compact".into(), doc: d });
    let id = format!("d{}", rng.usize(n_ids));
    let d = mk_doc(rng, &id, &mut bodies);
    post_ops.push(Op::Add { id, doc: d });
    post_ops.push(Op::Delete { id: format!("d{}", rng.usize(n_ids)) });
  }
  let mut requests = gen_requests(rng, &schema, &bodies);
  if mode == Mode::UnstoredIndexed {
    let unstored: Vec<FieldInfo> = schema.all_fields().into_iter().filter(|f| !f.stored).cloned().collect();
    for f in unstored.iter() {
      requests.extend(focus_requests(rng, f));
    }
  }
  Case { mode, in_memory, positions: rng.chance(0.8), schema, commits, post_ops, requests }
}

// ---------------------------------------------------------------- observation

#[derive(Clone, PartialEq, Debug)]
struct Obs {
  contents: BTreeMap<String, Value>,
  dups: Vec<String>,
  results: Vec<Result<Vec<String>, String>>,
}

fn observe(index: &Index, reqs: &[Req]) -> Result<Obs, String> {
  let r = vcore::ctx::catch(|| -> anyhow::Result<Obs> {
    let reader = index.reader()?;
    let hits = idx::all_docs(&reader)?;
    let (contents, dups) = model::observed_view(&hits);
    let mut results = Vec::new();
    for q in reqs {
      let res = vcore::ctx::catch(|| idx::search(&reader, q.json.clone()));
      results.push(match res {
        Err(p) => Err(format!("panic:{}", vcore::ctx::panic_site(&p))),
        Ok(Err(e)) => Err(format!("{e:#}").chars().take(120).collect()),
        Ok(Ok(r)) => Ok(idx::ids(&r)),
      });
    }
    Ok(Obs { contents, dups, results })
  });
  match r {
    Err(p) => Err(format!("panic:reader:{}", vcore::ctx::panic_site(&p))),
    Ok(Err(e)) => Err(format!("reader-error:{e:#}")),
    Ok(Ok(o)) => Ok(o),
  }
}

/// Sort key of a document under the documented rule: minimum value for ascending, maximum for
/// descending, documents without a value last (Null). Only used to recognise ties.
fn sort_key(s: &SchemaInfo, doc: &Value, field: &str, desc: bool) -> Value {
  let vals = c14gen::values_of(doc, field);
  let kind = s.field(field).map(|f| f.kind).unwrap_or(Kind::Keyword);
  match kind {
    Kind::I64 | Kind::F64 => {
      let mut xs: Vec<f64> = vals.iter().filter_map(|v| v.as_f64()).collect();
      xs.sort_by(|a, b| a.total_cmp(b));
      match if desc { xs.last() } else { xs.first() } {
        Some(x) => json!(x),
        None => Value::Null,
      }
    }
    _ => {
      let mut xs: Vec<String> = vals.iter().filter_map(|v| v.as_str().map(|s| s.to_string())).collect();
      xs.sort();
      match if desc { xs.last() } else { xs.first() } {
        Some(x) => json!(x),
        None => Value::Null,
      }
    }
  }
}

#[derive(Debug, Clone)]
struct Diff {
  kind: String,
  req: Option<usize>,
  detail: Value,
}

/// Compare two observations of the same logical contents. `docs` = the model's live documents.
fn compare(s: &SchemaInfo, reqs: &[Req], docs: &Contents, a: &Obs, b: &Obs, l: &mut Local) -> Vec<Diff> {
  let mut out = Vec::new();
  l.eval();
  if !b.dups.is_empty() {
    out.push(Diff { kind: "duplicate-id".into(), req: None, detail: json!(b.dups) });
  }
  if let Some(d) = model::diff_views(&a.contents, &b.contents) {
    let k = if !d["missing"].as_array().unwrap().is_empty() {
      "live-document-lost"
    } else if !d["extra"].as_array().unwrap().is_empty() {
      "document-resurrected"
    } else {
      "stored-fields-changed"
    };
    out.push(Diff { kind: format!("contents:{k}"), req: None, detail: d });
  }
  for (i, q) in reqs.iter().enumerate() {
    match (&a.results[i], &b.results[i]) {
      (Err(_), Err(_)) => {
        l.count("requests_rejected_both_sides", 1);
      }
      (Ok(x), Ok(y)) => {
        l.eval();
        if let Some(t) = q.twin {
          if let (Ok(tx), Ok(ty)) = (&a.results[t], &b.results[t]) {
            let sx: BTreeSet<&String> = tx.iter().collect();
            let sy: BTreeSet<&String> = ty.iter().collect();
            if sx != sy {
              // the match set itself changed: reported on the unbounded twin
              continue;
            }
          }
        }
        if !q.sort.is_empty() && !q.small_limit {
          let sx: BTreeSet<&String> = x.iter().collect();
          let sy: BTreeSet<&String> = y.iter().collect();
          if sx != sy || x.len() != y.len() {
            let lost: Vec<&&String> = sx.difference(&sy).collect();
            let gained: Vec<&&String> = sy.difference(&sx).collect();
            out.push(Diff {
              kind: format!("{}-request:match-set-changed", q.kind),
              req: Some(i),
              detail: json!({"lost": lost, "gained": gained, "before_len": x.len(), "after_len": y.len()}),
            });
            continue;
          }
        }
        if !q.sort.is_empty() {
          let keys = |ids: &Vec<String>| -> Vec<Value> {
            ids
              .iter()
              .map(|id| match docs.get(id) {
                Some(d) => Value::Array(q.sort.iter().map(|(f, desc)| sort_key(s, d, f, *desc)).collect()),
                None => json!("unknown-id"),
              })
              .collect()
          };
          let (kx, ky) = (keys(x), keys(y));
          if kx != ky {
            out.push(Diff {
              kind: "sorted-request:key-sequence-changed".into(),
              req: Some(i),
              detail: json!({"before": x, "after": y, "keys_before": kx, "keys_after": ky}),
            });
            continue;
          }
          if x != y {
            l.count("tie_order_changed_not_judged", 1);
          }
          if q.small_limit {
            continue;
          }
        }
        let sx: BTreeSet<&String> = x.iter().collect();
        let sy: BTreeSet<&String> = y.iter().collect();
        if sx != sy || x.len() != y.len() {
          let lost: Vec<&&String> = sx.difference(&sy).collect();
          let gained: Vec<&&String> = sy.difference(&sx).collect();
          out.push(Diff {
            kind: format!("{}-request:match-set-changed", q.kind),
            req: Some(i),
            detail: json!({"lost": lost, "gained": gained, "before_len": x.len(), "after_len": y.len()}),
          });
        }
      }
      (x, y) => {
        l.eval();
        out.push(Diff {
          kind: format!("{}-request:error-status-changed", q.kind),
          req: Some(i),
          detail: json!({"before": format!("{x:?}"), "after": format!("{y:?}")}),
        });
      }
    }
  }
  out
}

fn snapshot_dir(root: &Path) -> BTreeMap<String, (u64, u64)> {
  fn walk(root: &Path, dir: &Path, out: &mut BTreeMap<String, (u64, u64)>) {
    let Ok(rd) = std::fs::read_dir(dir) else { return };
    for e in rd.flatten() {
      let p = e.path();
      if p.is_dir() {
        walk(root, &p, out);
      } else {
        let data = std::fs::read(&p).unwrap_or_default();
        let rel = p.strip_prefix(root).unwrap_or(&p).to_string_lossy().to_string();
        out.insert(rel, (data.len() as u64, vcore::rng::hash_bytes(&data)));
      }
    }
  }
  let mut out = BTreeMap::new();
  walk(root, root, &mut out);
  out
}

struct Structure {
  segments: usize,
  doc_count: u64,
  deleted: u64,
  paths: Vec<String>,
}

fn structure(index: &Index) -> Structure {
  let m = index.manifest();
  Structure {
    segments: m.segments.len(),
    doc_count: m.segments.iter().map(|s| s.doc_count as u64).sum(),
    deleted: m.segments.iter().map(|s| s.deleted_docs.len() as u64).sum(),
    paths: m
      .segments
      .iter()
      .flat_map(|s| vec![s.paths.terms.clone(), s.paths.postings.clone(), s.paths.docstore.clone(), s.paths.fast.clone(), s.paths.meta.clone()])
      .collect(),
  }
}

fn manifest_json(index: &Index) -> Value {
  serde_json::to_value(index.manifest()).unwrap_or(Value::Null)
}

// ---------------------------------------------------------------- classification helpers

/// Does the document carry, in some nested array, a `null` element or an object whose stored
/// projection is empty (or a single such object)? Those carry no stored data.
fn nested_shrinks(s: &SchemaInfo, doc: &Value) -> bool {
  fn walk(n: &NestedInfo, v: &Value) -> bool {
    match v {
      Value::Array(a) => a.iter().any(|x| x.is_null() || !c14gen::projection_nonempty(n, x) || walk(n, x)),
      Value::Object(m) => {
        if !c14gen::projection_nonempty(n, v) {
          return true;
        }
        n.children.iter().any(|c| match m.get(&c.name) {
          Some(x) if !x.is_null() => match x {
            Value::Array(a) if a.is_empty() => true,
            _ => walk(c, x),
          },
          _ => false,
        })
      }
      _ => false,
    }
  }
  s.nested.iter().any(|n| match doc.get(&n.name) {
    Some(v) if !v.is_null() => walk(n, v),
    _ => false,
  })
}

fn not_inside_nested(v: &Value, in_nested: bool) -> bool {
  match v {
    Value::Object(m) => m.iter().any(|(k, x)| {
      if k == "Nested" {
        not_inside_nested(x, true)
      } else if k == "Not" && in_nested {
        true
      } else {
        not_inside_nested(x, in_nested)
      }
    }),
    Value::Array(a) => a.iter().any(|x| not_inside_nested(x, in_nested)),
    _ => false,
  }
}

/// Rebuild the smallest index that can show the difference: a filler document in one segment,
/// the suspect document in a second one; returns the suspect's membership before/after compaction.
fn repro_single(dir: &Path, s: &SchemaInfo, doc: &Value, req: &Req, positions: bool) -> Option<(bool, bool)> {
  let _ = std::fs::remove_dir_all(dir);
  let storage: Arc<dyn Storage> = Arc::new(InMemoryStorage::new(dir.to_path_buf()));
  let opts = idx::opts_full(dir, true, positions, idx::FRONTEND_K1, idx::FRONTEND_B);
  let sch = idx::schema(&s.to_json()).ok()?;
  let r = vcore::ctx::catch(|| -> anyhow::Result<(bool, bool)> {
    let index = Index::create_with_storage(dir, sch, opts, storage)?;
    let filler = json!({s.doc_id_field.clone(): "zz-filler", "body": "filler"});
    let id = doc.get(&s.doc_id_field).and_then(|v| v.as_str()).unwrap_or("").to_string();
    {
      let mut w = index.writer()?;
      w.add_document(&idx::doc(&filler))?;
      w.commit()?;
      w.add_document(&idx::doc(doc))?;
      w.commit()?;
    }
    let before = idx::ids(&idx::search(&index.reader()?, req.json.clone())?).contains(&id);
    index.compact()?;
    let after = idx::ids(&idx::search(&index.reader()?, req.json.clone())?).contains(&id);
    Ok((before, after))
  });
  match r {
    Ok(Ok(x)) => Some(x),
    _ => None,
  }
}

/// Does request `q` return a different id set before and after compacting this history?
/// (in-memory, fresh index; used only to minimise a failing case)
fn set_change(dir: &Path, s: &SchemaInfo, commits: &[Vec<Op>], q: &Req, positions: bool) -> Option<(Vec<String>, Vec<String>)> {
  let _ = std::fs::remove_dir_all(dir);
  let storage: Arc<dyn Storage> = Arc::new(InMemoryStorage::new(dir.to_path_buf()));
  let opts = idx::opts_full(dir, true, positions, idx::FRONTEND_K1, idx::FRONTEND_B);
  let sch = idx::schema(&s.to_json()).ok()?;
  let mut big = q.json.clone();
  big["limit"] = json!(idx::BIG_LIMIT);
  let r = vcore::ctx::catch(|| -> anyhow::Result<(Vec<String>, Vec<String>)> {
    let index = Index::create_with_storage(dir, sch, opts, storage)?;
    for ops in commits {
      if !ops.is_empty() {
        apply_ops(&index, ops)?;
      }
    }
    let mut before = idx::ids(&idx::search(&index.reader()?, big.clone())?);
    index.compact()?;
    let mut after = idx::ids(&idx::search(&index.reader()?, big.clone())?);
    before.sort();
    after.sort();
    Ok((before, after))
  });
  match r {
    Ok(Ok((b, a))) if a != b => Some((b, a)),
    _ => None,
  }
}

/// Greedy minimisation of a history w.r.t. "request q changes its match set across compaction":
/// drop operations, then drop top-level keys of the remaining documents.
fn shrink_history(dir: &Path, s: &SchemaInfo, commits: &[Vec<Op>], q: &Req, positions: bool) -> Vec<Vec<Op>> {
  let mut cur: Vec<Vec<Op>> = commits.to_vec();
  if set_change(dir, s, &cur, q, positions).is_none() {
    return cur;
  }
  let mut budget = 400;
  let mut changed = true;
  while changed && budget > 0 {
    changed = false;
    for ci in 0..cur.len() {
      let mut oi = 0;
      while oi < cur[ci].len() && budget > 0 {
        let mut cand = cur.clone();
        cand[ci].remove(oi);
        budget -= 1;
        if set_change(dir, s, &cand, q, positions).is_some() {
          cur = cand;
          changed = true;
        } else {
          oi += 1;
        }
      }
    }
  }
  // simplify documents
  for ci in 0..cur.len() {
    for oi in 0..cur[ci].len() {
      let Op::Add { id, doc } = cur[ci][oi].clone() else { continue };
      let keys: Vec<String> = doc.as_object().map(|m| m.keys().cloned().collect()).unwrap_or_default();
      let mut d = doc.clone();
      for k in keys {
        if k == s.doc_id_field || budget == 0 {
          continue;
        }
        let mut cand_doc = d.clone();
        cand_doc.as_object_mut().unwrap().remove(&k);
        let mut cand = cur.clone();
        cand[ci][oi] = Op::Add { id: id.clone(), doc: cand_doc.clone() };
        budget -= 1;
        if set_change(dir, s, &cand, q, positions).is_some() {
          d = cand_doc;
          cur = cand;
        }
      }
    }
  }
  cur.retain(|c| !c.is_empty());
  cur
}

// ---------------------------------------------------------------- one case

struct Outcome {
  fails: Vec<(String, String, Value)>,
  segments_before: usize,
  nontrivial_reqs: usize,
  compared: bool,
}

fn stem(e: &str) -> String {
  // stable part of an error message: letters only, first words, nothing after a path or quoted name
  let e = e.split(|c| c == '/' || c == '"').next().unwrap_or(e);
  let s: String = e.chars().map(|c| if c.is_ascii_alphanumeric() { c.to_ascii_lowercase() } else { '-' }).collect();
  // generated field names are not part of the root cause
  const NAMES: &[&str] = &["body", "title", "note", "tag", "cat", "n", "x", "c", "d", "who", "k", "s", "t", "sub", "w", "z", "req", "pk", "id"];
  let parts: Vec<&str> =
    s.split('-').filter(|p| !p.is_empty() && !p.chars().all(|c| c.is_ascii_digit()) && !NAMES.contains(p)).take(6).collect();
  parts.join("-")
}

fn refusal_class(msg: &str) -> String {
  if msg.contains("missing required nested field") {
    "missing-required-nested-field".into()
  } else if msg.contains("indexed/fast but not stored") {
    "unstored-indexed-field".into()
  } else {
    stem(msg).split('-').take(4).collect::<Vec<_>>().join("-")
  }
}

fn apply_ops(index: &Index, ops: &[Op]) -> anyhow::Result<()> {
  let mut w = index.writer()?;
  for op in ops {
    match op {
      Op::Add { doc, .. } => {
        w.add_document(&idx::doc(doc))?;
      }
      Op::Delete { id } => w.delete_document(id)?,
    }
  }
  w.commit()?;
  Ok(())
}

/// The document as compaction re-ingests it according to the documented stored projection:
/// nested arrays lose `null` elements and objects whose stored projection is empty.
fn clean_doc(s: &SchemaInfo, doc: &Value) -> Value {
  fn clean(n: &NestedInfo, v: &Value) -> Option<Value> {
    match v {
      Value::Array(a) => {
        let kept: Vec<Value> = a.iter().filter(|x| c14gen::projection_nonempty(n, x)).filter_map(|x| clean(n, x)).collect();
        if kept.is_empty() {
          None
        } else {
          Some(Value::Array(kept))
        }
      }
      Value::Object(m) => {
        if !c14gen::projection_nonempty(n, v) {
          return None;
        }
        let mut out = serde_json::Map::new();
        for (k, x) in m.iter() {
          if let Some(c) = n.children.iter().find(|c| c.name == *k) {
            if let Some(y) = clean(c, x) {
              out.insert(k.clone(), y);
            }
          } else if !x.is_null() {
            out.insert(k.clone(), x.clone());
          }
        }
        Some(Value::Object(out))
      }
      _ => None,
    }
  }
  let mut d = doc.clone();
  if let Some(m) = d.as_object_mut() {
    for n in s.nested.iter() {
      if let Some(v) = m.get(&n.name).cloned() {
        match clean(n, &v) {
          Some(y) => {
            m.insert(n.name.clone(), y);
          }
          None => {
            m.remove(&n.name);
          }
        }
      }
    }
  }
  d
}

fn has_node_type(v: &Value, types: &[&str]) -> bool {
  match v {
    Value::Object(m) => {
      m.get("type").and_then(|t| t.as_str()).map(|t| types.contains(&t)).unwrap_or(false) || m.values().any(|x| has_node_type(x, types))
    }
    Value::Array(a) => a.iter().any(|x| has_node_type(x, types)),
    _ => false,
  }
}

fn nested_inside_nested(v: &Value, in_nested: bool) -> bool {
  match v {
    Value::Object(m) => m.iter().any(|(k, x)| {
      if k == "Nested" {
        in_nested || nested_inside_nested(x, true)
      } else {
        nested_inside_nested(x, in_nested)
      }
    }),
    Value::Array(a) => a.iter().any(|x| nested_inside_nested(x, in_nested)),
    _ => false,
  }
}

/// History with every dead document version (overwritten or deleted later) and every delete removed;
/// the surviving adds stay in their original commits.
fn purge_dead(commits: &[Vec<Op>]) -> Vec<Vec<Op>> {
  let mut last: BTreeMap<String, (usize, usize, bool)> = BTreeMap::new();
  for (ci, ops) in commits.iter().enumerate() {
    for (oi, op) in ops.iter().enumerate() {
      match op {
        Op::Add { id, .. } => {
          last.insert(id.clone(), (ci, oi, true));
        }
        Op::Delete { id } => {
          last.insert(id.clone(), (ci, oi, false));
        }
      }
    }
  }
  commits
    .iter()
    .enumerate()
    .map(|(ci, ops)| {
      ops
        .iter()
        .enumerate()
        .filter(|(oi, op)| match op {
          Op::Add { id, .. } => last.get(id) == Some(&(ci, *oi, true)),
          Op::Delete { .. } => false,
        })
        .map(|(_, op)| op.clone())
        .collect()
    })
    .collect()
}

/// before/after id sets (sorted) of request q for a history built in memory; None if it cannot be built.
fn before_after(dir: &Path, s: &SchemaInfo, commits: &[Vec<Op>], q: &Req, positions: bool) -> Option<(Vec<String>, Vec<String>)> {
  let _ = std::fs::remove_dir_all(dir);
  let storage: Arc<dyn Storage> = Arc::new(InMemoryStorage::new(dir.to_path_buf()));
  let opts = idx::opts_full(dir, true, positions, idx::FRONTEND_K1, idx::FRONTEND_B);
  let sch = idx::schema(&s.to_json()).ok()?;
  let mut big = q.json.clone();
  big["limit"] = json!(idx::BIG_LIMIT);
  let r = vcore::ctx::catch(|| -> anyhow::Result<(Vec<String>, Vec<String>)> {
    let index = Index::create_with_storage(dir, sch, opts, storage)?;
    for ops in commits {
      if !ops.is_empty() {
        apply_ops(&index, ops)?;
      }
    }
    let mut before = idx::ids(&idx::search(&index.reader()?, big.clone())?);
    index.compact()?;
    let mut after = idx::ids(&idx::search(&index.reader()?, big.clone())?);
    before.sort();
    after.sort();
    Ok((before, after))
  });
  match r {
    Ok(Ok(x)) => Some(x),
    _ => None,
  }
}

/// Root-cause classification of "request q matches a different set after compaction" by intervention.
/// `hist` = a history that leads to the state before this compaction (empty when unknown).
fn classify_set_change(case: &Case, docs: &Contents, hist: &[Vec<Op>], q: &Req, d: &Diff, phase: &str, scratch: &Path) -> (String, String, Value) {
  let rdir = scratch.join("repro");
  let mut ids: Vec<String> = Vec::new();
  for k in ["lost", "gained"] {
    if let Some(a) = d.detail[k].as_array() {
      ids.extend(a.iter().filter_map(|x| x.as_str().map(|s| s.to_string())));
    }
  }
  // (1) every differing document flips on its own, a version of it with the null / empty-projection
  //     nested elements removed by hand does not flip and behaves like the compacted original
  let mut all_nested_drop = !ids.is_empty();
  let mut witness = Value::Null;
  for id in ids.iter().take(6) {
    let Some(doc) = docs.get(id) else {
      all_nested_drop = false;
      break;
    };
    let rep = repro_single(&rdir, &case.schema, doc, q, case.positions);
    let flips = matches!(rep, Some((a, b)) if a != b);
    let mut ok = false;
    if flips && nested_shrinks(&case.schema, doc) {
      let cleaned = clean_doc(&case.schema, doc);
      let rc = repro_single(&rdir, &case.schema, &cleaned, q, case.positions);
      if let (Some((_, b)), Some((c, e))) = (rep, rc) {
        ok = c == e && e == b;
      }
      if ok && witness.is_null() {
        witness = json!({"doc": doc, "doc_without_null_and_empty_nested_elements": cleaned, "request": q.json,
          "matches_before_compaction": rep.map(|x| x.0), "matches_after_compaction": rep.map(|x| x.1)});
      }
    }
    if !ok {
      all_nested_drop = false;
    }
  }
  if all_nested_drop {
    let shape = if not_inside_nested(&q.json, false) {
      "not-inside-nested"
    } else if nested_inside_nested(&q.json, false) {
      "child-nested-filter"
    } else {
      "other-filter-shape"
    };
    return (
      format!("match-set-changed:null-or-empty-nested-object-dropped:{shape}"),
      format!("{phase}: a nested filter matches a different document set after compaction; every differing document has a nested array element that is null or whose stored projection is empty; compaction re-ingests the stored projection, which drops those elements, so the object count / object positions seen by per-object filters change (the same document with those elements removed by hand gives the post-compaction answer both before and after)"),
      json!({"witness": witness, "schema": case.schema.to_json(), "detail": d.detail}),
    );
  }
  // (2) the difference disappears when the dead document versions never existed
  if !hist.is_empty() {
    if let Some((b, a)) = before_after(&rdir, &case.schema, hist, q, case.positions) {
      if a != b {
        let purged = purge_dead(hist);
        if let Some((pb, pa)) = before_after(&rdir, &case.schema, &purged, q, case.positions) {
          if pb == pa && pa == a {
            let min = shrink_history(&rdir, &case.schema, hist, q, case.positions);
            let min_ba = before_after(&rdir, &case.schema, &min, q, case.positions);
            let example = json!({"request": q.json, "schema": case.schema.to_json(),
              "minimised_commits": min.iter().map(|c| c.iter().map(|o| o.to_json()).collect::<Vec<_>>()).collect::<Vec<_>>(),
              "minimised_before_after": min_ba.map(|(b, a)| json!({"before": b, "after": a})),
              "full_before": b, "full_after": a});
            if has_node_type(&q.json, &["prefix", "wildcard", "regex"]) {
              return (
                "match-set-changed:multi-term-expansion-sees-deleted-docs".into(),
                format!("{phase}: a request containing a prefix/wildcard/regex clause matches a different set after compaction; the same history without the dead (deleted / overwritten) document versions gives the post-compaction answer both before and after, i.e. before compaction the clause still expands over terms that occur only in deleted documents (a clause with an empty expansion is planned differently from one whose expansion matches nothing live)"),
                example,
              );
            }
            return (format!("unclassified:deleted-docs-residue:{}", q.kind), format!("{phase}: result depends on dead document versions"), example);
          }
        }
      }
    }
  }
  let min = if !hist.is_empty() { shrink_history(&rdir, &case.schema, hist, q, case.positions) } else { vec![] };
  let min_change = if min.is_empty() { None } else { set_change(&rdir, &case.schema, &min, q, case.positions) };
  (
    format!("unclassified:{phase}:{}", d.kind),
    format!("{phase}: {} request returns a different document set", q.kind),
    json!({"request": q.json, "schema": case.schema.to_json(), "detail": d.detail,
           "minimised_commits": min.iter().map(|c| c.iter().map(|o| o.to_json()).collect::<Vec<_>>()).collect::<Vec<_>>(),
           "minimised_before_after": min_change.map(|(b, a)| json!({"before": b, "after": a})),
           "docs": ids.iter().take(4).map(|i| docs.get(i).cloned().unwrap_or(Value::Null)).collect::<Vec<_>>()}),
  )
}

fn classify_request_diffs(case: &Case, docs: &Contents, hist: &[Vec<Op>], diffs: &[Diff], phase: &str, scratch: &Path, out: &mut Outcome) {
  let case_brief = |q: &Req| json!({"request": q.json, "schema": case.schema.to_json()});
  for d in diffs {
    let Some(qi) = d.req else {
      out.fails.push((format!("{phase}:{}", d.kind), format!("{} after {phase}", d.kind), json!({"detail": d.detail, "schema": case.schema.to_json()})));
      continue;
    };
    let q = &case.requests[qi];
    if d.kind.ends_with("match-set-changed") {
      // one witness per signature is enough: skip the expensive interventions when this case already has it
      out.fails.push(classify_set_change(case, docs, hist, q, d, phase, scratch));
    } else {
      out.fails.push((format!("{phase}:{}", d.kind), format!("{phase}: {}", d.kind), json!({"case": case_brief(q), "detail": d.detail})));
    }
  }
}

fn run_case(case: &Case, dir: &Path, scratch: &Path, l: &mut Local) -> Outcome {
  let mut out = Outcome { fails: Vec::new(), segments_before: 0, nontrivial_reqs: 0, compared: false };
  let _ = std::fs::remove_dir_all(dir);
  std::fs::create_dir_all(dir).unwrap();
  let storage: Arc<dyn Storage> =
    if case.in_memory { Arc::new(InMemoryStorage::new(dir.to_path_buf())) } else { Arc::new(FsStorage::new(dir.to_path_buf())) };
  let opts = idx::opts_full(dir, case.in_memory, case.positions, idx::FRONTEND_K1, idx::FRONTEND_B);
  let sch = match idx::schema(&case.schema.to_json()) {
    Ok(s) => s,
    Err(e) => {
      l.inconclusive(format!("schema rejected: {e}"));
      return out;
    }
  };
  // ---- build the history
  let mut m: Contents = Contents::new();
  let built = vcore::ctx::catch(|| -> anyhow::Result<Index> {
    let index = Index::create_with_storage(dir, sch, opts.clone(), storage.clone())?;
    for ops in case.commits.iter() {
      apply_ops(&index, ops)?;
    }
    Ok(index)
  });
  for ops in case.commits.iter() {
    model::apply(&mut m, ops);
  }
  let index = match built {
    Ok(Ok(i)) => i,
    Ok(Err(e)) => {
      // building a valid history failed: another property's business (C04/C15), not judged here
      l.inconclusive(format!("history could not be built: {}", stem(&format!("{e:#}"))));
      return out;
    }
    Err(p) => {
      l.inconclusive(format!("panic while building history: {}", vcore::ctx::panic_site(&p)));
      return out;
    }
  };
  let before = match observe(&index, &case.requests) {
    Ok(o) => o,
    Err(e) => {
      l.inconclusive(format!("cannot observe before compaction: {e}"));
      return out;
    }
  };
  let expected = model::expected_view(&case.schema, &m);
  // The metamorphic comparison does not need the model; when the committed contents already differ
  // from it (C04's domain) only the model-based sub-checks (commit after compaction) are skipped.
  let model_ok = model::diff_views(&expected, &before.contents).is_none() && before.dups.is_empty();
  if !model_ok {
    l.count("cases_contents_differ_from_model_before_compaction", 1);
  }
  let live_before = before.contents.len() as u64;
  let st0 = structure(&index);
  let man0 = manifest_json(&index);
  let files0 = if case.in_memory { None } else { Some(snapshot_dir(dir)) };
  l.count(&format!("segments_before[{}]", st0.segments.min(5)), 1);
  if st0.deleted > 0 {
    l.count("cases_with_tombstones_before", 1);
  }
  // non-trivial requests: non-empty and not everything
  let live = before.contents.len();
  let nontrivial_reqs =
    before.results.iter().filter(|r| matches!(r, Ok(ids) if !ids.is_empty() && ids.len() < live)).count();
  l.count("requests", case.requests.len() as u64);
  l.count("requests_nontrivial_result", nontrivial_reqs as u64);
  out.segments_before = st0.segments;
  out.nontrivial_reqs = nontrivial_reqs;

  // ---- compaction
  let r = vcore::ctx::catch(|| index.compact());
  let r = match r {
    Err(p) => {
      out.fails.push((format!("panic:compact:{}", vcore::ctx::panic_site(&p)), format!("compact panicked: {p}"), json!({"schema": case.schema.to_json()})));
      return out;
    }
    Ok(r) => r,
  };
  match r {
    Err(e) => {
      let msg = format!("{e:#}");
      l.count("compaction_refused", 1);
      l.count(&format!("refusal[{}]", refusal_class(&msg)), 1);
      // nothing may have changed
      l.eval();
      let man1 = manifest_json(&index);
      if man1 != man0 {
        out.fails.push(("refusal:manifest-changed".into(), format!("compact returned Err ({msg}) but the manifest changed"), json!({"before": man0, "after": man1})));
      }
      if let Some(f0) = files0.as_ref() {
        l.eval();
        let f1 = snapshot_dir(dir);
        if *f0 != f1 {
          let added: Vec<&String> = f1.keys().filter(|k| !f0.contains_key(*k)).collect();
          let removed: Vec<&String> = f0.keys().filter(|k| !f1.contains_key(*k)).collect();
          let changed: Vec<&String> = f0.iter().filter(|(k, v)| f1.get(*k).map(|w| w != *v).unwrap_or(false)).map(|(k, _)| k).collect();
          let kinds = |v: &Vec<&String>| -> Vec<String> {
            let mut s: BTreeSet<String> = BTreeSet::new();
            for p in v {
              s.insert(p.rsplit('.').next().unwrap_or("").to_string());
            }
            s.into_iter().collect()
          };
          let sig = if removed.is_empty() && changed.is_empty() {
            format!("refusal:orphan-files-left:{}:{}", kinds(&added).join("+"), refusal_class(&msg))
          } else {
            "refusal:existing-files-changed".to_string()
          };
          out.fails.push((
            sig,
            format!("compact returned Err ({msg}) but the index directory changed"),
            json!({"added": added, "removed": removed, "changed": changed, "mode": case.mode.name(), "schema": case.schema.to_json(),
                   "commits": case.commits.iter().map(|c| c.iter().map(|o| o.to_json()).collect::<Vec<_>>()).collect::<Vec<_>>()}),
          ));
        }
      }
      match observe(&index, &case.requests) {
        Ok(after) => {
          out.compared = true;
          let diffs = compare(&case.schema, &case.requests, &m, &before, &after, l);
          classify_request_diffs(case, &m, &[], &diffs, "refusal", scratch, &mut out);
        }
        Err(e) => out.fails.push((format!("refusal:unreadable:{}", stem(&e)), format!("index unreadable after refused compaction: {e}"), Value::Null)),
      }
      if case.mode == Mode::Normal && st0.segments >= 2 {
        out.fails.push((
          format!("unexpected-refusal:{}", stem(&msg)),
          format!("every field is stored and every live document is rebuildable from its stored projection, yet compact refused: {msg}"),
          json!({"schema": case.schema.to_json(), "live_docs": m.values().take(6).collect::<Vec<_>>()}),
        ));
      }
      // the refused index must still accept a commit
      let post = vcore::ctx::catch(|| apply_ops(&index, &case.post_ops));
      let mut m2 = m.clone();
      model::apply(&mut m2, &case.post_ops);
      match post {
        Ok(Ok(())) => {
          l.eval();
          match observe(&index, &[]) {
            Ok(o) => {
              if !model_ok {
                l.count("commit_after_refusal_not_judged_model_mismatch", 1);
              } else if let Some(d) = model::diff_views(&model::expected_view(&case.schema, &m2), &o.contents) {
                out.fails.push(("refusal:later-commit-diverges".into(), "commit after a refused compaction diverges from the content model".into(), d));
              }
            }
            Err(e) => out.fails.push((format!("refusal:unreadable-after-commit:{}", stem(&e)), e, Value::Null)),
          }
        }
        Ok(Err(e)) => out.fails.push((format!("refusal:later-commit-fails:{}", stem(&format!("{e:#}"))), format!("commit after refused compaction failed: {e:#}"), Value::Null)),
        Err(p) => out.fails.push((format!("panic:commit-after-refusal:{}", vcore::ctx::panic_site(&p)), p, Value::Null)),
      }
    }
    Ok(()) => {
      l.count("compaction_ok", 1);
      if st0.segments >= 2 {
        l.count("compaction_ok_multi_segment", 1);
      }
      if case.mode != Mode::Normal && st0.segments >= 2 {
        l.count(&format!("accepted_in_mode[{}]", case.mode.name()), 1);
      }
      // ---- structure
      let st1 = structure(&index);
      l.eval();
      let want_segments = if st0.segments == 0 { 0 } else { 1 };
      if st1.segments != want_segments {
        out.fails.push((format!("structure:segment-count:{}-to-{}", st0.segments.min(3), st1.segments.min(3)), format!("{} segments before, {} after a successful compaction", st0.segments, st1.segments), json!({"before": st0.segments, "after": st1.segments})));
      }
      if st1.deleted > 0 || st1.doc_count != live_before {
        let sig = if st0.segments <= 1 {
          "structure:single-segment-deletes-not-dropped".to_string()
        } else {
          "structure:deleted-documents-still-counted".to_string()
        };
        out.fails.push((
          sig,
          format!("after a successful compaction the manifest still counts {} documents of which {} deleted; {} are live", st1.doc_count, st1.deleted, live_before),
          json!({"segments_before": st0.segments, "doc_count_after": st1.doc_count, "deleted_after": st1.deleted, "live": live_before,
                 "commits": case.commits.iter().map(|c| c.iter().map(|o| match o { Op::Add{id,..} => json!({"add": id}), Op::Delete{id} => json!({"delete": id}) }).collect::<Vec<_>>()).collect::<Vec<_>>()}),
        ));
      }
      if st0.segments >= 2 {
        let left: Vec<&String> = st0.paths.iter().filter(|p| storage.exists(Path::new(p))).collect();
        if !left.is_empty() {
          out.fails.push(("structure:old-segment-files-remain".into(), "files of merged segments still exist after compaction".into(), json!({"left": left})));
        }
      }
      // ---- observable contents
      let after = match observe(&index, &case.requests) {
        Ok(o) => o,
        Err(e) => {
          out.fails.push((format!("unreadable-after-compact:{}", stem(&e)), format!("index unreadable after compaction: {e}"), json!({"schema": case.schema.to_json()})));
          return out;
        }
      };
      out.compared = true;
      let diffs = compare(&case.schema, &case.requests, &m, &before, &after, l);
      classify_request_diffs(case, &m, &case.commits, &diffs, "compact", scratch, &mut out);
      // ---- reopen from storage
      let reopened = vcore::ctx::catch(|| Index::open_with_storage(opts.clone(), storage.clone()));
      match reopened {
        Ok(Ok(ix2)) => match observe(&ix2, &case.requests) {
          Ok(o2) => {
            if o2 != after {
              l.eval();
              let diffs = compare(&case.schema, &case.requests, &m, &after, &o2, l);
              classify_request_diffs(case, &m, &[], &diffs, "reopen-after-compact", scratch, &mut out);
            } else {
              l.eval();
            }
          }
          Err(e) => out.fails.push((format!("reopen-after-compact:unreadable:{}", stem(&e)), e, Value::Null)),
        },
        Ok(Err(e)) => out.fails.push((format!("reopen-after-compact:open-fails:{}", stem(&format!("{e:#}"))), format!("{e:#}"), Value::Null)),
        Err(p) => out.fails.push((format!("panic:reopen-after-compact:{}", vcore::ctx::panic_site(&p)), p, Value::Null)),
      }
      // ---- second compaction
      match vcore::ctx::catch(|| index.compact()) {
        Ok(Ok(())) => {
          let st2 = structure(&index);
          l.eval();
          if st2.segments != want_segments {
            out.fails.push(("second-compact:segment-count".into(), format!("{} segments after a second compaction", st2.segments), Value::Null));
          }
          match observe(&index, &case.requests) {
            Ok(o) => {
              let diffs = compare(&case.schema, &case.requests, &m, &after, &o, l);
              classify_request_diffs(case, &m, &[], &diffs, "second-compact", scratch, &mut out);
            }
            Err(e) => out.fails.push((format!("second-compact:unreadable:{}", stem(&e)), e, Value::Null)),
          }
        }
        Ok(Err(e)) => out.fails.push((format!("second-compact:refused:{}", stem(&format!("{e:#}"))), format!("second compaction failed: {e:#}"), json!({"schema": case.schema.to_json()}))),
        Err(p) => out.fails.push((format!("panic:second-compact:{}", vcore::ctx::panic_site(&p)), p, Value::Null)),
      }
      // ---- commit after compaction, then compact the (compacted + new) pair again
      let post = vcore::ctx::catch(|| apply_ops(&index, &case.post_ops));
      let mut m2 = m.clone();
      model::apply(&mut m2, &case.post_ops);
      match post {
        Ok(Ok(())) => match observe(&index, &case.requests) {
          Ok(o) => {
            l.eval();
            if !model_ok {
              l.count("commit_after_compact_not_judged_model_mismatch", 1);
            } else if let Some(d) = model::diff_views(&model::expected_view(&case.schema, &m2), &o.contents) {
              out.fails.push(("commit-after-compact:contents-diverge".into(), "commit after compaction diverges from the content model".into(), json!({"diff": d, "post_ops": case.post_ops.iter().map(|o| o.to_json()).collect::<Vec<_>>()})));
            } else {
              let st3 = structure(&index);
              match vcore::ctx::catch(|| index.compact()) {
                Ok(Ok(())) => {
                  l.count("third_compaction_ok", 1);
                  let st4 = structure(&index);
                  l.eval();
                  if st3.segments >= 1 && st4.segments != 1 {
                    out.fails.push(("third-compact:segment-count".into(), format!("{} segments after compacting a compacted index plus one commit", st4.segments), Value::Null));
                  }
                  if st3.segments >= 2 && (st4.deleted > 0 || st4.doc_count != m2.len() as u64) {
                    out.fails.push(("third-compact:deleted-documents-still-counted".into(), format!("doc_count {} deleted {} live {}", st4.doc_count, st4.deleted, m2.len()), Value::Null));
                  }
                  match observe(&index, &case.requests) {
                    Ok(o2) => {
                      let diffs = compare(&case.schema, &case.requests, &m2, &o, &o2, l);
                      // a history equivalent to the state before this compaction: the first compaction either
                      // rewrote the live documents into one segment or (<= 1 segment) did nothing at all
                      let h3: Vec<Vec<Op>> = if st0.segments <= 1 {
                        let mut h = case.commits.clone();
                        h.push(case.post_ops.clone());
                        h
                      } else {
                        vec![m.iter().map(|(id, doc)| Op::Add { id: id.clone(), doc: doc.clone() }).collect(), case.post_ops.clone()]
                      };
                      classify_request_diffs(case, &m2, &h3, &diffs, "third-compact", scratch, &mut out);
                    }
                    Err(e) => out.fails.push((format!("third-compact:unreadable:{}", stem(&e)), e, Value::Null)),
                  }
                }
                Ok(Err(e)) => {
                  if case.mode == Mode::Normal {
                    out.fails.push((format!("third-compact:refused:{}", stem(&format!("{e:#}"))), format!("compaction of a compacted index plus one commit failed: {e:#}"), json!({"schema": case.schema.to_json()})));
                  }
                }
                Err(p) => out.fails.push((format!("panic:third-compact:{}", vcore::ctx::panic_site(&p)), p, Value::Null)),
              }
            }
          }
          Err(e) => out.fails.push((format!("commit-after-compact:unreadable:{}", stem(&e)), e, Value::Null)),
        },
        Ok(Err(e)) => out.fails.push((format!("commit-after-compact:fails:{}", stem(&format!("{e:#}"))), format!("commit after compaction failed: {e:#}"), json!({"schema": case.schema.to_json()}))),
        Err(p) => out.fails.push((format!("panic:commit-after-compact:{}", vcore::ctx::panic_site(&p)), p, Value::Null)),
      }
    }
  }
  out
}

fn main() {
  let args: Vec<String> = std::env::args().skip(1).collect();
  let mut ctx = Ctx::from_args("C14", "exploration", &args);
  ctx.rule = "each case = random schema (text/keyword/numeric + nested objects with child objects, random nullable/fast flags) + a history of 2-5 commits of upserts/deletes over 3-16 ids with documents using every value shape (absent, null, scalar, 1-element array, multi-valued, [], nested arrays with null and {} elements). Observed before and after Index::compact(): match_all stored contents (modulo null/[]/absent, 1-element array, numeric trivia), the id SET of ~40 generated requests (scored: term/query_string/phrase/prefix/wildcard/bool/constant_score; filters incl. Nested/Not/And/Or; execution bm25/wand/bmw) and, for requests sorted by a field, the SEQUENCE of sort keys (ties are not judged); manifest structure (one segment, no deleted document counted, merged segments' files gone); then reopen, a second compaction, a commit after compaction checked against the content model and a third compaction of compacted+new segment. In refusal modes (one text / keyword indexed-only / keyword fast-only / keyword indexed+fast / numeric field not stored, with 4 extra term queries or filters aimed at that field; a required nested property neither stored nor indexed; a required child object with empty stored projection) on Filesystem storage: manifest, directory listing + content hashes and every result must be unchanged and a later commit must work. evaluations = individual before/after comparisons (one per request, contents, structure, directory); a case is non-trivial (counted once by hash of schema+history+mode) when it had >= 2 segments before compaction and >= 5 requests whose result was neither empty nor all live documents.".into();
  ctx.assumptions = vec![
    "storage is healthy; a single process; no concurrent writers".into(),
    "scores and the relative order of equal-score / equal-sort-key documents may change (statistics and internal ids change); only sets and sort-key sequences are compared".into(),
    "stored fields are compared modulo representation trivia (null/[]/{}/absent equal, one-element array equals its element, numbers numerically)".into(),
    "total_hits_estimate, aggregations, highlights and explanations are not compared".into(),
    "a request rejected with an error both before and after is not judged".into(),
    "README: 'deletes ... are dropped on the next compaction' is read as: after a successful compact() the manifest counts no deleted document".into(),
  ];
  let n = ctx.n(140, 24_000);
  let quick = ctx.quick();
  ctx.run_cases("compact", n, |rng: &mut Rng, l: &mut Local, scratch: &PathBuf| {
    let case = gen_case(rng, quick);
    let dir = scratch.join("idx");
    if let Ok(p) = std::env::var("C14_DUMP") {
      // debugging aid for `--case N`: the complete generated case
      let _ = std::fs::write(p, serde_json::to_string_pretty(&json!({"mode": case.mode.name(), "in_memory": case.in_memory, "positions": case.positions,
        "schema": case.schema.to_json(),
        "commits": case.commits.iter().map(|c| c.iter().map(|o| o.to_json()).collect::<Vec<_>>()).collect::<Vec<_>>(),
        "post_ops": case.post_ops.iter().map(|o| o.to_json()).collect::<Vec<_>>(),
        "requests": case.requests.iter().map(|q| q.json.clone()).collect::<Vec<_>>()})).unwrap());
    }
    l.count(&format!("mode[{}]", case.mode.name()), 1);
    l.count(if case.in_memory { "storage_inmemory" } else { "storage_filesystem" }, 1);
    // population counters
    let mut docs_null_elem = 0u64;
    let mut docs_multi = 0u64;
    let mut adds = 0u64;
    let mut dels = 0u64;
    for ops in case.commits.iter() {
      for o in ops {
        match o {
          Op::Add { doc, .. } => {
            adds += 1;
            if nested_shrinks(&case.schema, doc) {
              docs_null_elem += 1;
            }
            if case.schema.fields.iter().any(|f| doc.get(&f.name).and_then(|v| v.as_array()).map(|a| a.len() >= 2).unwrap_or(false)) {
              docs_multi += 1;
            }
          }
          Op::Delete { .. } => dels += 1,
        }
      }
    }
    l.count("documents_added", adds);
    l.count("deletes", dels);
    l.count("documents_with_null_or_empty_nested_elements", docs_null_elem);
    l.count("documents_with_multi_valued_fields", docs_multi);
    let out = run_case(&case, &dir, scratch, l);
    let _ = std::fs::remove_dir_all(&dir);
    if out.compared && out.segments_before >= 2 && out.nontrivial_reqs >= 5 {
      let text = serde_json::to_string(&json!({"s": case.schema.to_json(), "m": case.mode.name(),
        "c": case.commits.iter().map(|c| c.iter().map(|o| o.to_json()).collect::<Vec<_>>()).collect::<Vec<_>>()}))
      .unwrap();
      l.nontrivial(&text);
    }
    if l.samples.is_empty() {
      l.sample(json!({"mode": case.mode.name(), "storage": if case.in_memory {"InMemory"} else {"Filesystem"},
        "schema": case.schema.to_json(),
        "commits": case.commits.iter().map(|c| c.iter().map(|o| o.to_json()).collect::<Vec<_>>()).collect::<Vec<_>>(),
        "requests": case.requests.iter().take(6).map(|q| q.json.clone()).collect::<Vec<_>>()}));
    }
    for (sig, what, detail) in out.fails {
      l.fail(sig, what, json!({"mode": case.mode.name(), "storage": if case.in_memory {"InMemory"} else {"Filesystem"}, "positions": case.positions, "detail": detail}));
    }
  });
  std::process::exit(ctx.finish());
}
