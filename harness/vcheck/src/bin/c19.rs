//! C19 — Rescoring only affects the rescore window.
//! Oracle: base ranking R = the same request without `rescore` (limit >= matches); rescore
//! scores r(d) = the rescore query run alone as a search; the expected response is computed
//! from R, r and the documented combination / sort rules (own comparator), see `model`.
#[path = "../shared/rk.rs"]
mod rk;
use rk::{cmp_keys, key_of, keys_close, Ranking, D};
use searchlite_core::api::{IndexReader, SearchResult};
use serde_json::{json, Value};
use std::collections::{HashMap, HashSet};
use vcore::{idx, Ctx, Local, Rng};

const BIG: usize = 1000;

struct Fail {
  sig: String,
  what: String,
  detail: Value,
}

#[derive(Default)]
struct Obs {
  matches: usize,
  window: usize,
  window_matched: usize,
  dropped: usize,
  changed: bool,
  order_changed: bool,
  window_beyond_pool: bool,
  tie_accepted: u64,
  inconclusive: Option<String>,
  which_pool: usize,
}

fn score_eq(a: f32, b: f32) -> bool {
  if a == b {
    return true;
  }
  let d = (a - b).abs();
  d <= 1e-5 || d <= 1e-4 * a.abs().max(b.abs())
}

fn combine(mode: &str, o: f32, r: f32) -> f32 {
  match mode {
    "multiply" => o * r,
    "max" => o.max(r),
    "min" => o.min(r),
    _ => o + r, // total (default) and its alias sum
  }
}

fn res_json(r: &SearchResult) -> Value {
  json!(r.hits.iter().map(|h| json!([h.doc_id, h.score])).collect::<Vec<_>>())
}

fn strip_min_score(q: &Value) -> (Value, Option<f32>) {
  if q.get("type").and_then(|t| t.as_str()) == Some("function_score") {
    if let Some(m) = q.get("min_score").and_then(|m| m.as_f64()) {
      let mut c = q.clone();
      c.as_object_mut().unwrap().remove("min_score");
      return (c, Some(m as f32));
    }
  }
  (q.clone(), None)
}

type Entry = (String, f32);

/// The documented behaviour applied to a candidate list `h` (ids with original scores).
/// `slide` = reproduce the engine quirk where the re-sorted prefix keeps its length after drops.
#[allow(clippy::too_many_arguments)]
fn model(
  h: &[Entry],
  by_id: &HashMap<&str, &D>,
  sort: &[Value],
  window_size: usize,
  limit: usize,
  mode: &str,
  r: &HashMap<String, f32>,
  rejected: &HashSet<String>,
  slide: bool,
) -> Vec<Entry> {
  let w = window_size.min(h.len());
  let mut win: Vec<Entry> = Vec::new();
  for (id, o) in h[..w].iter() {
    if rejected.contains(id) {
      continue;
    }
    match r.get(id) {
      Some(rs) => win.push((id.clone(), combine(mode, *o, *rs))),
      None => win.push((id.clone(), *o)),
    }
  }
  let mut rest: Vec<Entry> = h[w..].to_vec();
  if slide && w > 0 {
    let take = (w - win.len()).min(rest.len());
    win.extend(rest.drain(..take));
  }
  // stable sort: equal keys keep the base ranking's relative order
  win.sort_by(|a, b| cmp_keys(sort, &key_of(by_id[a.0.as_str()], sort, a.1), &key_of(by_id[b.0.as_str()], sort, b.1)));
  win.extend(rest);
  win.truncate(limit);
  win
}

fn same(actual: &[Entry], exp: &[Entry], by_id: &HashMap<&str, &D>, sort: &[Value], ties: &mut u64) -> Option<usize> {
  let n = actual.len().max(exp.len());
  for i in 0..n {
    let (Some(a), Some(e)) = (actual.get(i), exp.get(i)) else { return Some(i) };
    if !score_eq(a.1, e.1) {
      return Some(i);
    }
    if a.0 != e.0 {
      let (Some(da), Some(de)) = (by_id.get(a.0.as_str()), by_id.get(e.0.as_str())) else { return Some(i) };
      if keys_close(&key_of(da, sort, a.1), &key_of(de, sort, e.1)) {
        *ties += 1;
      } else {
        return Some(i);
      }
    }
  }
  // a tie-swapped list must still be a permutation without repeats
  let set: HashSet<&str> = actual.iter().map(|a| a.0.as_str()).collect();
  if set.len() != actual.len() {
    return Some(0);
  }
  None
}

fn run(reader: &IndexReader, req: Value) -> Result<SearchResult, Fail> {
  match vcore::ctx::catch(|| idx::search(reader, req)) {
    Ok(Ok(r)) => Ok(r),
    Ok(Err(e)) => {
      let s = format!("{e:#}");
      Err(Fail { sig: format!("unexpected-error:{}", rk::err_stem(&s)), what: s, detail: json!(null) })
    }
    Err(p) => Err(Fail { sig: format!("panic:{}", vcore::ctx::panic_site(&p)), what: p, detail: json!(null) }),
  }
}

fn check_req(reader: &IndexReader, docs: &[D], req: &Value, obs: &mut Obs) -> Result<(), Fail> {
  let by_id: HashMap<&str, &D> = docs.iter().map(|d| (d.id.as_str(), d)).collect();
  let sort: Vec<Value> = req.get("sort").and_then(|s| s.as_array()).cloned().unwrap_or_default();
  let limit = req["limit"].as_u64().unwrap_or(10) as usize;
  let k = req.get("candidate_size").and_then(|c| c.as_u64()).map(|c| c as usize).unwrap_or(limit).max(limit);
  let resc = &req["rescore"];
  let window_size = resc["window_size"].as_u64().unwrap_or(0) as usize;
  let mode = resc.get("score_mode").and_then(|m| m.as_str()).unwrap_or("total").to_string();
  let (rq_nomin, min_score) = strip_min_score(&resc["query"]);

  // base ranking
  let mut base_req = req.clone();
  {
    let o = base_req.as_object_mut().unwrap();
    o.remove("rescore");
    o.remove("candidate_size");
    o.insert("limit".into(), json!(BIG));
  }
  let base = run(reader, base_req).map_err(|mut f| {
    f.sig = format!("base:{}", f.sig);
    f
  })?;
  let rbase = Ranking::from(&base);
  obs.matches = rbase.ids.len();
  // rescore query alone
  let alone = run(reader, json!({"query": rq_nomin, "limit": BIG, "execution": "bm25"})).map_err(|mut f| {
    f.sig = format!("rescore-query-alone:{}", f.sig);
    f
  })?;
  let r: HashMap<String, f32> = alone.hits.iter().map(|h| (h.doc_id.clone(), h.score)).collect();
  let mut rejected: HashSet<String> = HashSet::new();
  if let Some(m) = min_score {
    for (id, s) in r.iter() {
      if (s - m).abs() <= 1e-4 * m.abs().max(1.0) {
        obs.inconclusive = Some("a rescore score lies within rounding distance of min_score".into());
        return Ok(());
      }
      if *s < m {
        rejected.insert(id.clone());
      }
    }
    // cross-check with the thresholded query run alone
    let alone_min = run(reader, json!({"query": resc["query"], "limit": BIG, "execution": "bm25"}))?;
    let kept: HashSet<String> = alone_min.hits.iter().map(|h| h.doc_id.clone()).collect();
    let want: HashSet<String> = r.keys().filter(|id| !rejected.contains(*id)).cloned().collect();
    if kept != want {
      obs.inconclusive = Some("function_score min_score run alone disagrees with its unthresholded scores (not a rescore question)".into());
      return Ok(());
    }
  }

  let actual_res = run(reader, req.clone())?;
  let actual: Vec<Entry> = actual_res.hits.iter().map(|h| (h.doc_id.clone(), h.score)).collect();

  // candidate pools: (0) global first K+1; (1) union of every segment's first K+1 (what a
  // per-segment top-k collector hands over); (2) the whole ranking
  let full: Vec<Entry> = rbase.ids.iter().map(|i| (i.clone(), rbase.score[i])).collect();
  let prefix: Vec<Entry> = full.iter().take(k + 1).cloned().collect();
  let mut per_seg: HashMap<usize, usize> = HashMap::new();
  let union: Vec<Entry> = full
    .iter()
    .filter(|(id, _)| {
      let c = per_seg.entry(by_id[id.as_str()].seg).or_insert(0);
      *c += 1;
      *c <= k + 1
    })
    .cloned()
    .collect();
  let pools: Vec<&Vec<Entry>> = vec![&prefix, &union, &full];
  obs.window = window_size.min(prefix.len());
  obs.window_beyond_pool = window_size > prefix.len() && full.len() > prefix.len();
  obs.window_matched = prefix[..obs.window].iter().filter(|(id, _)| r.contains_key(id) && !rejected.contains(id)).count();
  obs.dropped = prefix[..obs.window].iter().filter(|(id, _)| rejected.contains(id)).count();

  let mut ties = 0u64;
  let mut first_diff = None;
  let mut exp0: Vec<Entry> = Vec::new();
  for (pi, pool) in pools.iter().enumerate() {
    let exp = model(pool, &by_id, &sort, window_size, limit, &mode, &r, &rejected, false);
    let mut t = 0u64;
    let d = same(&actual, &exp, &by_id, &sort, &mut t);
    if pi == 0 {
      let untouched: Vec<Entry> = prefix.iter().take(limit).cloned().collect();
      obs.changed = exp != untouched;
      obs.order_changed = exp.iter().map(|e| &e.0).ne(untouched.iter().map(|e| &e.0));
      exp0 = exp;
      first_diff = d;
      ties = t;
    }
    if d.is_none() {
      obs.tie_accepted += t;
      obs.which_pool = pi;
      return Ok(());
    }
  }
  let _ = ties;
  // ---- mismatch: classify against pool 0 / the engine's own pool
  let p = first_diff.unwrap_or(0);
  let engine_pool: &Vec<Entry> = if rk::is_score_desc(&sort) { &union } else { &prefix };
  let mut t = 0;
  // known quirk: the re-sorted prefix keeps its length after drops (whatever pool the engine used)
  let slid_matches = [&prefix, &union].iter().any(|pool| {
    let slid = model(pool, &by_id, &sort, window_size, limit, &mode, &r, &rejected, true);
    same(&actual, &slid, &by_id, &sort, &mut t).is_none()
  });
  let sig = if !rejected.is_empty() && slid_matches {
    "resorted-prefix-not-shrunk-after-min-score-drop:unrescored-hits-sorted-into-window".to_string()
  } else {
    let exp = model(engine_pool, &by_id, &sort, window_size, limit, &mode, &r, &rejected, false);
    let p2 = same(&actual, &exp, &by_id, &sort, &mut t).unwrap_or(p);
    let w_surv = window_size.min(engine_pool.len()) - engine_pool[..window_size.min(engine_pool.len())].iter().filter(|(id, _)| rejected.contains(id)).count();
    let region = if p2 < w_surv { "window" } else { "after-window" };
    let kind = match (actual.get(p2), exp.get(p2)) {
      (Some(a), Some(e)) if a.0 == e.0 => {
        let o = rbase.score.get(&a.0).copied().unwrap_or(f32::NAN);
        if score_eq(a.1, o) {
          "score-left-unchanged".to_string()
        } else if region == "window" {
          format!("score-not-{mode}-combination")
        } else {
          "score-changed".to_string()
        }
      }
      (Some(a), Some(_)) => {
        if rejected.contains(&a.0) && engine_pool[..window_size.min(engine_pool.len())].iter().any(|(id, _)| *id == a.0) {
          "min-score-rejected-hit-kept".to_string()
        } else if !actual.iter().any(|x| exp.get(p2).map(|e| e.0 == x.0).unwrap_or(false)) {
          "expected-hit-missing".to_string()
        } else {
          "order-differs".to_string()
        }
      }
      (Some(_), None) => "extra-hit".to_string(),
      (None, Some(_)) => "hit-missing".to_string(),
      (None, None) => "?".to_string(),
    };
    format!("{region}:{kind}")
  };
  Err(Fail {
    sig,
    what: format!("response differs from the documented rescoring of the base ranking at position {p}"),
    detail: json!({
      "base_ranking": full.iter().map(|(i, s)| json!([i, s, by_id[i.as_str()].seg])).collect::<Vec<_>>(),
      "rescore_scores": full.iter().map(|(i, _)| json!([i, r.get(i), rejected.contains(i)])).collect::<Vec<_>>(),
      "expected(pool = first candidates+1)": exp0.iter().map(|(i, s)| json!([i, s])).collect::<Vec<_>>(),
      "actual": res_json(&actual_res),
      "candidates": k, "window_size": window_size, "mode": mode,
    }),
  })
}

fn gen_rescore_query(rng: &mut Rng, vocab: &[String], reader: &IndexReader) -> (Value, &'static str) {
  let w = |rng: &mut Rng| vocab[rng.zipf(vocab.len())].clone();
  match rng.below(10) {
    0 | 1 => (rk::term_q(&w(rng)), "term"),
    2 | 3 | 4 => {
      let a = w(rng);
      let mut b = w(rng);
      if b == a {
        b = vocab[(vocab.iter().position(|x| *x == a).unwrap() + 1) % vocab.len()].clone();
      }
      (json!({"type":"phrase","field":"body","terms":[a, b],"slop": rng.urange(0, 2)}), "phrase")
    }
    5 | 6 => {
      let mut q = json!({"type":"constant_score","filter":{"KeywordEq":{"field":"lang","value": *rng.pick(rk::LANGS)}}});
      if rng.chance(0.7) {
        q["boost"] = json!(rng.urange(1, 8) as f64 * 0.5);
      }
      (q, "constant_score")
    }
    _ => {
      let inner = if rng.chance(0.5) { rk::term_q(&w(rng)) } else { json!({"type":"match_all"}) };
      let mut fns = vec![];
      if rng.chance(0.7) {
        fns.push(json!({"type":"weight","weight": rng.urange(1, 6) as f64 * 0.5, "filter": {"KeywordEq":{"field":"lang","value": *rng.pick(rk::LANGS)}}}));
      }
      if fns.is_empty() || rng.chance(0.5) {
        fns.push(json!({"type":"field_value_factor","field":"n","factor": rng.urange(1, 4) as f64 * 0.5, "modifier": *rng.pick(&["none", "log1p", "sqrt"]), "missing": 0.0}));
      }
      let mut q = json!({"type":"function_score","query": inner, "functions": fns,
        "score_mode": *rng.pick(&["sum", "multiply", "max"]), "boost_mode": *rng.pick(&["sum", "multiply", "replace", "max"])});
      if rng.chance(0.75) {
        // pick min_score between two distinct scores the query actually produces
        if let Ok(res) = idx::search(reader, json!({"query": q, "limit": BIG, "execution": "bm25"})) {
          let mut s: Vec<f32> = res.hits.iter().map(|h| h.score).collect();
          s.sort_by(|a, b| a.total_cmp(b));
          s.dedup_by(|a, b| (*a - *b).abs() <= 1e-3 * a.abs().max(1.0));
          if s.len() >= 2 {
            let i = rng.usize(s.len() - 1);
            q["min_score"] = json!(((s[i] + s[i + 1]) / 2.0) as f64);
          } else if let Some(x) = s.first() {
            q["min_score"] = json!((*x + if rng.chance(0.5) { 0.5 } else { -0.5 }) as f64);
          }
        }
      }
      (q, "function_score")
    }
  }
}

fn gen_request(rng: &mut Rng, vocab: &[String], reader: &IndexReader) -> (Value, &'static str) {
  let w = |rng: &mut Rng| vocab[rng.zipf(vocab.len())].clone();
  let query = match rng.below(10) {
    0..=3 => rk::term_q(&w(rng)),
    4 | 5 => json!({"type":"match_all"}),
    6 | 7 => json!({"type":"bool","should":[rk::term_q(&w(rng)), rk::term_q(&w(rng))]}),
    _ => json!({"type":"query_string","query": format!("{} {}", w(rng), w(rng))}),
  };
  let sort: Vec<Value> = match rng.below(9) {
    0 | 1 => vec![],
    2 | 3 => vec![json!({"field":"_score","order":"desc"})],
    4 => vec![json!({"field":"n","order": *rng.pick(&["asc", "desc"])}), json!({"field":"_score","order":"desc"})],
    5 => vec![json!({"field":"tag"}), json!({"field":"_score"})],
    6 => vec![json!({"field":"x","order":"desc"}), json!({"field":"_score","order": *rng.pick(&["asc", "desc"])})],
    7 => vec![json!({"field": *rng.pick(&["n", "tag"])})],
    _ => vec![json!({"field":"_score","order":"asc"})],
  };
  let limit = rng.urange(1, 12);
  let (rq, kind) = gen_rescore_query(rng, vocab, reader);
  let mut resc = json!({"window_size": rng.urange(0, limit + 5), "query": rq});
  match rng.below(6) {
    0 => {}
    1 => resc["score_mode"] = json!("total"),
    2 => resc["score_mode"] = json!("multiply"),
    3 => resc["score_mode"] = json!("sum"),
    4 => resc["score_mode"] = json!("max"),
    _ => resc["score_mode"] = json!("min"),
  }
  let mut req = json!({"query": query, "limit": limit, "rescore": resc, "return_stored": false});
  if !sort.is_empty() {
    req["sort"] = json!(sort);
  }
  if rng.chance(0.3) {
    req["candidate_size"] = json!(rng.urange(1, limit + 10));
  }
  req["execution"] = json!(*rng.pick(&["bm25", "bm25", "wand", "bmw"]));
  (req, kind)
}

fn shrink(dir: &std::path::Path, docs: &[D], req: &Value, sig: &str) -> Vec<D> {
  let mut cur: Vec<D> = docs.to_vec();
  let mut budget = 250;
  let mut changed = true;
  while changed && budget > 0 {
    changed = false;
    let mut i = 0;
    while i < cur.len() && budget > 0 {
      let mut cand = cur.clone();
      cand.remove(i);
      budget -= 1;
      let same = match rk::build_index(dir, &cand) {
        Ok((_ix, reader)) => {
          let mut o = Obs::default();
          matches!(check_req(&reader, &cand, req, &mut o), Err(f) if f.sig == sig)
        }
        Err(_) => false,
      };
      if same {
        cur = cand;
        changed = true;
      } else {
        i += 1;
      }
    }
  }
  cur
}

fn docs_json(docs: &[D]) -> Vec<Value> {
  docs
    .iter()
    .map(|d| {
      let mut j = d.to_json();
      j["_seg"] = json!(d.seg);
      j
    })
    .collect()
}

fn probe(path: &str) {
  let v: Value = serde_json::from_str(&std::fs::read_to_string(path).expect("read probe file")).expect("json");
  let docs: Vec<D> = v["docs"]
    .as_array()
    .unwrap()
    .iter()
    .map(|d| D {
      id: d["_id"].as_str().unwrap().to_string(),
      grp: vec![],
      n: d["n"].as_i64(),
      x: d["x"].as_f64(),
      tag: d["tag"].as_str().map(|s| s.to_string()),
      lang: d["lang"].as_str().map(|s| s.to_string()),
      body: d["body"].as_str().unwrap_or("").to_string(),
      seg: d["_seg"].as_u64().unwrap_or(0) as usize,
    })
    .collect();
  let dir = std::env::temp_dir().join(format!("c19-probe-{}", std::process::id()));
  let (_ix, reader) = rk::build_index(&dir, &docs).expect("build");
  let req = v["request"].clone();
  match idx::search(&reader, req.clone()) {
    Ok(r) => println!("response: {}", res_json(&r)),
    Err(e) => println!("error: {e:#}"),
  }
  let mut o = Obs::default();
  match check_req(&reader, &docs, &req, &mut o) {
    Ok(()) => println!("oracle: OK (matches={}, window={}, matched={}, dropped={}, inconclusive={:?})", o.matches, o.window, o.window_matched, o.dropped, o.inconclusive),
    Err(f) => println!("oracle: FAIL {} — {}\n{}", f.sig, f.what, serde_json::to_string_pretty(&f.detail).unwrap()),
  }
  let _ = std::fs::remove_dir_all(&dir);
}

fn main() {
  let args: Vec<String> = std::env::args().skip(1).collect();
  if args.first().map(|s| s.as_str()) == Some("probe") {
    probe(&args[1]);
    return;
  }
  let mut ctx = Ctx::from_args("C19", "exploration", &args);
  ctx.rule = "random corpora (10-80 docs, 1-4 segments); quick 300 corpora x 20, thorough 6000 x 40 rescore requests: initial query term / match_all / bool should / query_string, sort absent / _score desc / _score asc / (n|tag|x, _score) / field only, limit 1-12, candidate_size absent or 1..limit+10, window_size 0..limit+5, all five score modes (and absent), rescore query term / phrase with slop 0-2 / constant_score over a keyword filter / function_score (weight with filter, field_value_factor; min_score placed between two scores the query really produces), execution bm25/wand/bmw. Expected = documented rescoring applied to the base ranking (same request without rescore, limit 1000) with rescore scores taken from the rescore query run alone; window re-sorted with an own comparator. evaluations = responses compared; non-trivial (distinct by corpus+request hash) = window >= 2, at least one window hit matched by the rescore query, and the expected response differs from the un-rescored top hits.".into();
  ctx.assumptions = vec![
    "the un-rescored ranking of the same request (limit >= matches) and the scores of the rescore query run alone are correct (C07/C08/C10 judge them)".into(),
    "the window is taken from the candidate pool: `candidate_size` is documented as the global candidate pool before the final top-N; a response is accepted if it equals the documented rescoring of (a) the first max(candidate_size,limit)+1 hits, (b) the union of every segment's first max(candidate_size,limit)+1 hits, or (c) the whole ranking. When window_size exceeds the pool this means the README example (limit 10, window 50, no candidate_size) only rescores 11 hits - not judged, reported as a limitation".into(),
    "hits in the window that the rescore query does not match keep their score (nothing documents otherwise; Elasticsearch convention) and take part in the window re-sort".into(),
    "scores compared at 1e-4 relative; positions whose sort keys are equal within 1e-5 relative may be swapped".into(),
    "requests whose min_score lies within 1e-4 of a produced score are skipped (inconclusive); a difference that disappears under execution=bm25 is attributed to pruning (C12) and recorded as inconclusive".into(),
  ];
  let n = ctx.n(300, 60_000);
  let per = if ctx.quick() { 20 } else { 40 };
  ctx.run_cases("corpus", n, |rng: &mut Rng, l: &mut Local, scratch| {
    let cfg = rk::CorpusCfg { min_docs: 10, max_docs: 80, max_groups: 4, allow_missing_grp: false, allow_multi_grp: false, max_commits: 4 };
    let (docs, vocab) = rk::gen_corpus(rng, &cfg);
    let dir = scratch.join("idx");
    let (_ix, reader) = match rk::build_index(&dir, &docs) {
      Ok(x) => x,
      Err(e) => {
        l.fail("index-build-error", format!("{e:#}"), json!({"docs": docs_json(&docs)}));
        return;
      }
    };
    let segs = rk::layout_of(&docs).len();
    l.count(if segs > 1 { "corpora_multi_segment" } else { "corpora_single_segment" }, 1);
    let corpus_fp = vcore::ctx::fp(&serde_json::to_string(&docs_json(&docs)).unwrap());
    for _ in 0..per {
      let (req, kind) = gen_request(rng, &vocab, &reader);
      let mut o = Obs::default();
      let r = check_req(&reader, &docs, &req, &mut o);
      if let Some(why) = o.inconclusive.as_ref() {
        l.inconclusive(why.clone());
        continue;
      }
      if r.is_err() && req["execution"] != json!("bm25") {
        let mut r2 = req.clone();
        r2["execution"] = json!("bm25");
        let mut o2 = Obs::default();
        if check_req(&reader, &docs, &r2, &mut o2).is_ok() {
          l.inconclusive(format!("differs only under execution={} (pruning, C12): {}", req["execution"], req));
          continue;
        }
      }
      l.eval();
      let mode = req["rescore"].get("score_mode").and_then(|m| m.as_str()).unwrap_or("absent");
      l.count(&format!("mode[{mode}]"), 1);
      l.count(&format!("rescore_query[{kind}]"), 1);
      if o.window == 0 {
        l.count("window_empty", 1);
      }
      if o.dropped > 0 {
        l.count("requests_with_min_score_drops_in_window", 1);
      }
      if o.window_beyond_pool {
        l.count("requests_window_larger_than_candidate_pool", 1);
      }
      if o.changed {
        l.count("requests_expected_to_change_top_hits", 1);
      }
      if o.order_changed {
        l.count("requests_expected_to_reorder", 1);
      }
      if o.tie_accepted > 0 {
        l.count("positions_accepted_as_sort_key_ties", o.tie_accepted);
      }
      if r.is_ok() {
        l.count(&format!("accepted_with_pool[{}]", ["first candidates+1", "per-segment union", "whole ranking"][o.which_pool]), 1);
      }
      let nontrivial = o.window >= 2 && o.window_matched >= 1 && o.changed;
      if nontrivial {
        l.nontrivial(&(corpus_fp, req.to_string()));
      }
      if l.samples.is_empty() && nontrivial && o.order_changed && r.is_ok() {
        if let Ok(a) = idx::search(&reader, req.clone()) {
          l.sample(json!({"docs": docs.len(), "segments": segs, "request": req, "matches": o.matches, "window": o.window,
            "window_hits_matched_by_rescore_query": o.window_matched, "dropped": o.dropped, "response": res_json(&a)}));
        }
      }
      if let Err(f) = r {
        if l.fails.iter().any(|x| x.signature == f.sig) {
          l.count(&format!("fail[{}]", f.sig), 1);
          continue;
        }
        let sdir = scratch.join("shrink");
        let min = shrink(&sdir, &docs, &req, &f.sig);
        let mut detail = f.detail.clone();
        let mut what = f.what.clone();
        if let Ok((_i2, r2)) = rk::build_index(&sdir, &min) {
          let mut o2 = Obs::default();
          if let Err(f2) = check_req(&r2, &min, &req, &mut o2) {
            detail = f2.detail;
            what = f2.what;
          }
        }
        let _ = std::fs::remove_dir_all(&sdir);
        l.fail(f.sig.clone(), what, json!({"request": req, "docs": docs_json(&min), "original_docs": docs.len(), "observed": detail}));
      }
    }
    drop(reader);
    let _ = std::fs::remove_dir_all(&dir);
  });
  std::process::exit(ctx.finish());
}
