//! C18 — Collapse returns the best hit of each group.
//! Oracle: the same request WITHOUT `collapse` and with limit >= matches gives the base
//! ranking; the expected collapsed response is derived from it with the ORIGINAL documents'
//! group values (walk, group, first member = representative, rest = inner hits re-ordered by
//! the position in a second base ranking run under the inner sort, then windowed).
#[path = "../shared/rk.rs"]
mod rk;
use rk::{key_of, keys_close, score_close, Ranking, D};
use searchlite_core::api::{Hit, IndexReader, SearchResult};
use serde_json::{json, Value};
use std::collections::{HashMap, HashSet};
use vcore::{idx, Ctx, Local, Rng};

const BIG: usize = 1000;

struct Fail {
  sig: String,
  what: String,
  detail: Value,
}

#[derive(Default)]
struct Obs {
  matches: usize,
  groups: usize,
  max_group: usize,
  full: bool,
  tie_accepted: u64,
  inner_order_judged: bool,
  inner_two_readings: bool,
  inner_nonempty: bool,
  expected_error: bool,
  skipped: Option<&'static str>,
}

fn hit_json(h: &Hit) -> Value {
  json!({"id": h.doc_id, "score": h.score,
    "inner": h.inner_hits.as_ref().map(|v| v.iter().map(|i| json!({"id": i.doc_id, "score": i.score})).collect::<Vec<_>>())})
}

fn res_json(r: &SearchResult) -> Value {
  json!({"total_groups": r.total_groups, "total_hits_estimate": r.total_hits_estimate,
    "hits": r.hits.iter().map(hit_json).collect::<Vec<_>>()})
}

fn strip(req: &Value, sort: Option<&Vec<Value>>) -> Value {
  let mut b = req.clone();
  let o = b.as_object_mut().unwrap();
  o.remove("collapse");
  o.remove("candidate_size");
  o.insert("limit".into(), json!(BIG));
  if let Some(s) = sort {
    o.insert("sort".into(), json!(s));
  }
  b
}

/// Compare one collapse request with the oracle. `Err` = property violated.
fn check_req(reader: &IndexReader, docs: &[D], req: &Value, obs: &mut Obs) -> Result<(), Fail> {
  let by_id: HashMap<&str, &D> = docs.iter().map(|d| (d.id.as_str(), d)).collect();
  let main_sort: Vec<Value> = req.get("sort").and_then(|s| s.as_array()).cloned().unwrap_or_default();
  let collapse = req.get("collapse").cloned().unwrap_or(Value::Null);
  let inner_cfg = collapse.get("inner_hits").filter(|v| !v.is_null()).cloned();
  let inner_sort: Vec<Value> = inner_cfg.as_ref().and_then(|c| c.get("sort")).and_then(|s| s.as_array()).cloned().unwrap_or_default();
  let limit = req.get("limit").and_then(|l| l.as_u64()).unwrap_or(10) as usize;
  let cand = req.get("candidate_size").and_then(|l| l.as_u64()).map(|c| c as usize).unwrap_or(limit).max(limit);
  let mk = |sig: &str, what: String, extra: Value| Fail { sig: sig.to_string(), what, detail: extra };

  // base ranking under the request sort
  let base = match vcore::ctx::catch(|| idx::search(reader, strip(req, None))) {
    Ok(Ok(r)) => r,
    Ok(Err(e)) => return Err(mk("base-search-error", format!("request without collapse fails: {e:#}"), json!(null))),
    Err(p) => return Err(mk(&format!("base-search-panic:{}", vcore::ctx::panic_site(&p)), p, json!(null))),
  };
  let rmain = Ranking::from(&base);
  obs.matches = rmain.ids.len();
  // groups in base order
  let mut order: Vec<String> = Vec::new();
  let mut members: HashMap<String, Vec<String>> = HashMap::new();
  let mut multi_matching = false;
  for id in rmain.ids.iter() {
    let d = by_id[id.as_str()];
    match d.grp.len() {
      0 => {}
      1 => {
        let v = d.grp[0].clone();
        if !members.contains_key(&v) {
          order.push(v.clone());
        }
        members.entry(v).or_default().push(id.clone());
      }
      _ => multi_matching = true,
    }
  }
  obs.groups = order.len();
  obs.max_group = members.values().map(|m| m.len()).max().unwrap_or(0);
  obs.full = cand >= obs.matches;

  let actual = match vcore::ctx::catch(|| idx::search(reader, req.clone())) {
    Err(p) => return Err(mk(&format!("panic:{}", vcore::ctx::panic_site(&p)), format!("collapse request panics: {p}"), json!(null))),
    Ok(r) => r,
  };
  if multi_matching {
    // a multi-valued document among the matches: must be rejected when it is certainly a candidate
    match actual {
      Err(e) => {
        let s = format!("{e:#}");
        if s.contains("single-valued") {
          obs.expected_error = true;
          return Ok(());
        }
        return Err(mk(&format!("unexpected-error:{}", rk::err_stem(&s)), s, json!(null)));
      }
      Ok(r) => {
        if obs.full {
          return Err(mk(
            "multi-valued-collapse-field-accepted",
            "a matching document has two values in the collapse field and all matches are candidates, but the request succeeded".into(),
            json!({"actual": res_json(&r)}),
          ));
        }
        obs.skipped = Some("multi-valued match outside a truncated candidate set");
        return Ok(());
      }
    }
  }
  let actual = match actual {
    Ok(r) => r,
    Err(e) => {
      let s = format!("{e:#}");
      return Err(mk(&format!("unexpected-error:{}", rk::err_stem(&s)), s, json!(null)));
    }
  };

  // Readings of the inner order that are judged. With an inner sort: that sort. Without one the
  // README only says inner hits are "sorted independently if you supply sort": when the request
  // sort is descending score every reading coincides; when the request sort merely CONTAINS
  // `_score` two readings exist (follow the request sort / default sort = descending score) and
  // either is accepted; when it has no `_score` key nothing is judged about the order.
  let score_desc: Vec<Value> = vec![json!({"field":"_score","order":"desc"})];
  let mut readings: Vec<(Vec<Value>, Option<Ranking>)> = Vec::new();
  if inner_cfg.is_some() {
    if !inner_sort.is_empty() {
      readings.push((inner_sort.clone(), None));
    } else if rk::is_score_desc(&main_sort) {
      readings.push((main_sort.clone(), None));
    } else if rk::uses_score(&main_sort) {
      readings.push((main_sort.clone(), None));
      readings.push((score_desc.clone(), None));
    }
  }
  for (srt, rk_) in readings.iter_mut() {
    if *srt != main_sort {
      match vcore::ctx::catch(|| idx::search(reader, strip(req, Some(srt)))) {
        Ok(Ok(r)) => *rk_ = Some(Ranking::from(&r)),
        Ok(Err(e)) => return Err(mk("base-search-error", format!("request without collapse under the inner sort fails: {e:#}"), json!(null))),
        Err(p) => return Err(mk(&format!("base-search-panic:{}", vcore::ctx::panic_site(&p)), p, json!(null))),
      }
      if rk_.as_ref().unwrap().ids.len() != rmain.ids.len() {
        return Err(mk("base-rankings-differ-in-size", "the same query matches a different number of documents under another sort".into(), json!(null)));
      }
    }
  }
  let inner_judged = !readings.is_empty();
  obs.inner_order_judged = inner_judged;
  obs.inner_two_readings = readings.len() > 1;
  let kmain = |id: &str| key_of(by_id[id], &main_sort, rmain.score.get(id).copied().unwrap_or(f32::NAN));
  let ctx_json = |extra: Value| json!({"base_ranking": rmain.ids.iter().map(|i| json!([i, rmain.score[i], by_id[i.as_str()].grp])).collect::<Vec<_>>(),
     "inner_base_ranking": readings.first().and_then(|r| r.1.as_ref()).map(|r| r.ids.iter().map(|i| json!([i, r.score[i]])).collect::<Vec<_>>()),
     "actual": res_json(&actual), "more": extra});

  // -------- hits: one per value, known documents, values present
  let mut seen: HashSet<String> = HashSet::new();
  let mut reps: Vec<(&Hit, String)> = Vec::new();
  for h in actual.hits.iter() {
    let Some(d) = by_id.get(h.doc_id.as_str()) else {
      return Err(mk("unknown-document-returned", format!("hit {} is not in the corpus", h.doc_id), ctx_json(json!(null))));
    };
    if !rmain.pos.contains_key(&h.doc_id) {
      return Err(mk("non-matching-document-returned", format!("hit {} does not match the query", h.doc_id), ctx_json(json!(null))));
    }
    if d.grp.is_empty() {
      // documents without a value: not covered by the property statement -> ignored
      continue;
    }
    let v = d.grp[0].clone();
    if !seen.insert(v.clone()) {
      return Err(mk("two-hits-for-one-group", format!("group {v} is returned twice"), ctx_json(json!(null))));
    }
    reps.push((h, v));
  }
  if actual.hits.len() > limit {
    return Err(mk("more-hits-than-limit", format!("{} hits for limit {limit}", actual.hits.len()), ctx_json(json!(null))));
  }
  // scores reported for representatives and inner hits equal the base ranking's scores. When the
  // request sort has no `_score` key the uncollapsed run reports match-only scores (0.0); what a
  // collapse response reports then is not documented: the match-only value or the real score
  // (same query sorted by score) are both accepted.
  let mut real: Option<Ranking> = None;
  for (h, _) in reps.iter() {
    let mut all = vec![*h];
    if let Some(i) = h.inner_hits.as_ref() {
      all.extend(i.iter());
    }
    for x in all {
      if let Some(s) = rmain.score.get(&x.doc_id) {
        if !score_close(*s, x.score) {
          let mut ok = false;
          if !rk::uses_score(&main_sort) {
            if real.is_none() {
              if let Ok(Ok(r)) = vcore::ctx::catch(|| idx::search(reader, strip(req, Some(&score_desc)))) {
                real = Some(Ranking::from(&r));
              }
            }
            ok = real.as_ref().and_then(|r| r.score.get(&x.doc_id)).map(|r| score_close(*r, x.score)).unwrap_or(false);
          }
          if !ok {
            return Err(mk("score-differs-from-uncollapsed-request", format!("{}: {} vs {}", x.doc_id, x.score, s), ctx_json(json!(null))));
          }
        }
      }
    }
  }

  if obs.full {
    // -------- exact expectation
    if actual.total_groups != Some(order.len() as u64) {
      return Err(mk("total-groups-wrong", format!("total_groups {:?}, expected {}", actual.total_groups, order.len()), ctx_json(json!(null))));
    }
    let want = order.len().min(limit);
    if reps.len() != want {
      let sig = if reps.len() < want { "group-missing" } else { "group-extra" };
      return Err(mk(sig, format!("{} groups returned, expected {want}", reps.len()), ctx_json(json!(null))));
    }
  } else if let Some(tg) = actual.total_groups {
    if (tg as usize) < reps.len() {
      return Err(mk("total-groups-below-returned-groups", format!("total_groups {tg} < {} returned", reps.len()), ctx_json(json!(null))));
    }
  } else {
    return Err(mk("total-groups-absent", "collapse response has no total_groups".into(), ctx_json(json!(null))));
  }

  for (i, (h, v)) in reps.iter().enumerate() {
    let mem = &members[v];
    let best = &mem[0];
    // representative = best of its group under the request sort
    if &h.doc_id != best {
      if keys_close(&kmain(&h.doc_id), &kmain(best)) {
        obs.tie_accepted += 1;
      } else {
        // classifier: with a pure descending-score sort every segment contributes its own top
        // (candidates+1) hits and the merged list is not cut back to the global top, so a member
        // from another segment that lies beyond the global candidate prefix can represent a group
        // whose better member was cut off in its own segment.
        let per_segment_candidates = !obs.full
          && rk::is_score_desc(&main_sort)
          && rmain.pos[&h.doc_id] > cand
          && rmain.pos[best] > cand
          && by_id[h.doc_id.as_str()].seg != by_id[best.as_str()].seg;
        let sig = if obs.full {
          "representative-not-group-best"
        } else if per_segment_candidates {
          "score-sort-per-segment-candidates:representative-beyond-candidate-prefix-not-group-best"
        } else {
          "truncated:representative-not-group-best"
        };
        return Err(mk(sig, format!("group {v}: representative {} but {} ranks better under the request sort", h.doc_id, best),
          ctx_json(json!({"group": v, "members_in_base_order": mem}))));
      }
    }
    // group order = order of best hits
    if obs.full {
      let want = &members[&order[i]][0];
      if &h.doc_id != want {
        if keys_close(&kmain(&h.doc_id), &kmain(want)) {
          obs.tie_accepted += 1;
        } else {
          return Err(mk("groups-not-in-best-hit-order", format!("position {i}: {} (group {v}), expected {} (group {})", h.doc_id, want, order[i]), ctx_json(json!(null))));
        }
      }
    } else if i > 0 {
      let prev = &reps[i - 1].0.doc_id;
      if rmain.pos[prev] > rmain.pos[&h.doc_id] && !keys_close(&kmain(prev), &kmain(&h.doc_id)) {
        return Err(mk("truncated:groups-not-in-best-hit-order", format!("{} is listed before {} but ranks after it", prev, h.doc_id), ctx_json(json!(null))));
      }
    }
    // -------- inner hits
    let inner: Vec<&Hit> = h.inner_hits.as_ref().map(|v| v.iter().collect()).unwrap_or_default();
    let Some(cfg) = inner_cfg.as_ref() else {
      if !inner.is_empty() {
        return Err(mk("inner-hits-without-request", format!("group {v} has inner hits although none were requested"), ctx_json(json!(null))));
      }
      continue;
    };
    if !inner.is_empty() {
      obs.inner_nonempty = true;
    }
    let from = cfg.get("from").and_then(|f| f.as_u64()).unwrap_or(0) as usize;
    let size = cfg.get("size").and_then(|f| f.as_u64()).map(|s| s as usize);
    let mut iseen: HashSet<&str> = HashSet::new();
    for ih in inner.iter() {
      if ih.doc_id == h.doc_id {
        return Err(mk("inner-hits-contain-representative", format!("group {v}: {} is both representative and inner hit", h.doc_id), ctx_json(json!(null))));
      }
      if !mem.contains(&ih.doc_id) {
        return Err(mk("inner-hit-from-other-group", format!("group {v}: inner hit {} is not a member", ih.doc_id), ctx_json(json!({"members": mem}))));
      }
      if !iseen.insert(ih.doc_id.as_str()) {
        return Err(mk("inner-hit-duplicated", format!("group {v}: inner hit {} twice", ih.doc_id), ctx_json(json!(null))));
      }
    }
    if let Some(s) = size {
      if inner.len() > s {
        return Err(mk("inner-hits-exceed-size", format!("group {v}: {} inner hits for size {s}", inner.len()), ctx_json(json!(null))));
      }
    }
    let rest0: Vec<&String> = mem.iter().filter(|m| **m != h.doc_id).collect();
    let lo = from.min(rest0.len());
    let hi = match size {
      Some(s) => (lo + s).min(rest0.len()),
      None => rest0.len(),
    };
    if obs.full && hi - lo != inner.len() {
      return Err(mk("inner-hits-window-wrong-length", format!("group {v}: {} inner hits, expected {} (members {}, from {from}, size {:?})", inner.len(), hi - lo, mem.len(), size),
        ctx_json(json!({"members": mem}))));
    }
    // order (and, with all matches as candidates, the exact window) under each judged reading
    let mut first_err: Option<Fail> = None;
    let mut ok = readings.is_empty();
    for (eff_inner_sort, rk_) in readings.iter() {
      let rin: &Ranking = rk_.as_ref().unwrap_or(&rmain);
      let kinner = |id: &str| key_of(by_id[id], eff_inner_sort, rin.score.get(id).copied().unwrap_or(f32::NAN));
      let mut ties = 0u64;
      let mut err: Option<Fail> = None;
      if obs.full {
        let mut rest = rest0.clone();
        rest.sort_by_key(|m| rin.pos[*m]);
        let exp: Vec<&String> = rest[lo..hi].to_vec();
        for (j, ih) in inner.iter().enumerate() {
          if &ih.doc_id != exp[j] {
            if keys_close(&kinner(&ih.doc_id), &kinner(exp[j])) {
              ties += 1;
            } else {
              let same_set = inner.iter().map(|x| x.doc_id.as_str()).collect::<HashSet<_>>() == exp.iter().map(|x| x.as_str()).collect::<HashSet<_>>();
              // classifier: scores are not computed when the request sort has no `_score` key
              // (all reported scores equal although the real scores differ), so an inner `_score`
              // key degenerates to a constant and the inner hits are sorted as if all scores tied.
              let score_only_inner = rk::uses_score(eff_inner_sort) && !rk::uses_score(&main_sort) && {
                let const_key = |id: &str| key_of(by_id[id], eff_inner_sort, 0.0);
                let sorted_with_constant_score = inner
                  .windows(2)
                  .all(|w| rk::cmp_keys(eff_inner_sort, &const_key(&w[0].doc_id), &const_key(&w[1].doc_id)) != std::cmp::Ordering::Greater);
                let reported_scores_all_equal =
                  actual.hits.iter().all(|x| x.score == actual.hits[0].score) && inner.iter().all(|x| x.score == actual.hits[0].score);
                let real_scores_differ = mem.iter().any(|m| !score_close(rin.score[m], rin.score[&mem[0]]));
                sorted_with_constant_score && reported_scores_all_equal && real_scores_differ
              };
              let sig = match (same_set, score_only_inner) {
                (_, true) => "inner-sort-by-score-ignored-when-request-sort-has-no-score",
                (true, false) => "inner-hits-not-in-inner-sort-order",
                (false, false) => "inner-hits-window-wrong-members",
              };
              err = Some(mk(sig, format!("group {v}: inner hit #{j} is {}, expected {}", ih.doc_id, exp[j]),
                ctx_json(json!({"members": mem, "expected_inner": exp, "inner_sort": eff_inner_sort}))));
              break;
            }
          }
        }
      } else {
        for w in inner.windows(2) {
          let (a, b) = (&w[0].doc_id, &w[1].doc_id);
          if rin.pos[a] > rin.pos[b] && !keys_close(&kinner(a), &kinner(b)) {
            let score_only_inner = rk::uses_score(eff_inner_sort)
              && !rk::uses_score(&main_sort)
              && actual.hits.iter().all(|x| x.score == actual.hits[0].score)
              && inner.iter().all(|x| x.score == actual.hits[0].score);
            let sig = if score_only_inner { "inner-sort-by-score-ignored-when-request-sort-has-no-score" } else { "truncated:inner-hits-not-in-inner-sort-order" };
            err = Some(mk(sig, format!("group {v}: inner hit {a} listed before {b}"), ctx_json(json!({"inner_sort": eff_inner_sort}))));
            break;
          }
        }
      }
      match err {
        None => {
          obs.tie_accepted += ties;
          ok = true;
          break;
        }
        Some(e) => {
          if first_err.is_none() {
            first_err = Some(e);
          }
        }
      }
    }
    if !ok {
      let mut e = first_err.unwrap();
      if readings.len() > 1 {
        e.sig = format!("no-inner-sort:{}", e.sig);
        e.what = format!("{} (neither the request sort nor descending score explains the inner order)", e.what);
      }
      return Err(e);
    }
  }
  Ok(())
}

fn gen_request(rng: &mut Rng, vocab: &[String]) -> Value {
  let w = |rng: &mut Rng| vocab[rng.zipf(vocab.len())].clone();
  let query = match rng.below(10) {
    0..=4 => rk::term_q(&w(rng)),
    5 | 6 => json!({"type":"match_all"}),
    7 | 8 => json!({"type":"bool","should":[rk::term_q(&w(rng)), rk::term_q(&w(rng))]}),
    _ => json!({"type":"query_string","query": format!("{} {}", w(rng), w(rng))}),
  };
  let sort = rk::gen_sort(rng, 0.3);
  let mut collapse = json!({"field":"grp"});
  if rng.chance(0.8) {
    let mut ih = serde_json::Map::new();
    match rng.below(4) {
      0 => {}
      _ => {
        ih.insert("size".into(), json!(rng.urange(0, 5)));
      }
    }
    if rng.chance(0.7) {
      ih.insert("from".into(), json!(rng.urange(0, 4).min(rng.urange(0, 4))));
    }
    if rng.chance(0.75) {
      let s = rk::gen_sort(rng, 0.0);
      ih.insert("sort".into(), json!(s));
    } else if rng.chance(0.5) {
      ih.insert("sort".into(), json!([]));
    }
    collapse["inner_hits"] = Value::Object(ih);
  }
  let mut req = json!({"query": query, "collapse": collapse, "return_stored": false});
  if !sort.is_empty() || rng.chance(0.3) {
    req["sort"] = json!(sort);
  }
  if rng.chance(0.65) {
    req["limit"] = json!(BIG);
  } else {
    req["limit"] = json!(rng.urange(1, 8));
    if rng.chance(0.3) {
      req["candidate_size"] = json!(rng.urange(1, 100));
    }
  }
  req["execution"] = json!(*rng.pick(&["bm25", "wand", "bmw"]));
  req
}

/// Greedy document removal keeping the failure signature.
fn shrink(dir: &std::path::Path, docs: &[D], req: &Value, sig: &str) -> Vec<D> {
  let mut cur: Vec<D> = docs.to_vec();
  let mut budget = 250;
  let mut changed = true;
  while changed && budget > 0 {
    changed = false;
    let mut i = 0;
    while i < cur.len() && budget > 0 {
      let mut cand = cur.clone();
      cand.remove(i);
      budget -= 1;
      let same = match rk::build_index(dir, &cand) {
        Ok((_ix, reader)) => {
          let mut o = Obs::default();
          matches!(check_req(&reader, &cand, req, &mut o), Err(f) if f.sig == sig)
        }
        Err(_) => false,
      };
      if same {
        cur = cand;
        changed = true;
      } else {
        i += 1;
      }
    }
  }
  cur
}

fn probe(path: &str) {
  let v: Value = serde_json::from_str(&std::fs::read_to_string(path).expect("read probe file")).expect("json");
  let docs: Vec<D> = v["docs"]
    .as_array()
    .unwrap()
    .iter()
    .map(|d| D {
      id: d["_id"].as_str().unwrap().to_string(),
      grp: match &d["grp"] {
        Value::String(s) => vec![s.clone()],
        Value::Array(a) => a.iter().map(|x| x.as_str().unwrap().to_string()).collect(),
        _ => vec![],
      },
      n: d["n"].as_i64(),
      x: d["x"].as_f64(),
      tag: d["tag"].as_str().map(|s| s.to_string()),
      lang: d["lang"].as_str().map(|s| s.to_string()),
      body: d["body"].as_str().unwrap_or("").to_string(),
      seg: d["_seg"].as_u64().unwrap_or(0) as usize,
    })
    .collect();
  let dir = std::env::temp_dir().join(format!("c18-probe-{}", std::process::id()));
  let (_ix, reader) = rk::build_index(&dir, &docs).expect("build");
  let req = v["request"].clone();
  match idx::search(&reader, req.clone()) {
    Ok(r) => println!("response: {}", serde_json::to_string_pretty(&res_json(&r)).unwrap()),
    Err(e) => println!("error: {e:#}"),
  }
  let mut o = Obs::default();
  match check_req(&reader, &docs, &req, &mut o) {
    Ok(()) => println!("oracle: OK (full={}, matches={}, groups={})", o.full, o.matches, o.groups),
    Err(f) => println!("oracle: FAIL {} — {}\n{}", f.sig, f.what, serde_json::to_string_pretty(&f.detail).unwrap()),
  }
  let _ = std::fs::remove_dir_all(&dir);
}

fn docs_json(docs: &[D]) -> Vec<Value> {
  docs
    .iter()
    .map(|d| {
      let mut j = d.to_json();
      j["_seg"] = json!(d.seg);
      j
    })
    .collect()
}

fn main() {
  let args: Vec<String> = std::env::args().skip(1).collect();
  if args.first().map(|s| s.as_str()) == Some("probe") {
    probe(&args[1]);
    return;
  }
  let mut ctx = Ctx::from_args("C18", "exploration", &args);
  ctx.rule = "random corpora (10-80 docs, 1-12 groups: uniform / one dominant / zipf sizes, 1-4 segments, some docs without a group value, a few corpora with a multi-valued doc); quick 300 corpora x 20, thorough 8000 x 40 collapse requests with random query (term / match_all / bool should / query_string), request sort and inner sort of 0-2 keys out of _score,n,x,tag, inner from 0-4, size 0-5 or absent, limit >= matches (exact oracle) or 1-8 (weaker invariants), execution bm25/wand/bmw. Expected response derived from the SAME request without collapse (limit 1000) and the original documents' group values; inner order from a second uncollapsed run under the inner sort. evaluations = collapse responses compared; non-trivial (distinct by corpus+request hash) = at least 3 matches in at least 2 groups with one group of >= 2 matching members.".into();
  ctx.assumptions = vec![
    "the uncollapsed ranking of the same request (limit >= matches) is correct (judged by C10); ties between documents whose sort keys are equal (scores within 1e-5 relative) may be broken either way".into(),
    "documents without a value in the collapse field are not covered by the statement: hits for such documents are ignored, total_groups counts distinct values".into(),
    "when inner_hits carries no sort the README does not say how inner hits are ordered: with a request sort of descending score all readings coincide (judged); with a request sort that contains `_score` the order must follow either the request sort or descending score; with a request sort without `_score` only membership, from/size length and scores are judged".into(),
    "with limit (and candidate_size) < matches the engine groups a truncated candidate list: only the weaker invariants are judged (one hit per value, representative = best member, groups in best-hit order, inner hits are other members in inner-sort order, size respected)".into(),
    "scores of hits/inner hits are compared with the uncollapsed request's scores at 1e-5 relative".into(),
  ];
  let n = ctx.n(300, 80_000);
  let per = if ctx.quick() { 20 } else { 40 };
  ctx.run_cases("corpus", n, |rng: &mut Rng, l: &mut Local, scratch| {
    let cfg = rk::CorpusCfg { min_docs: 10, max_docs: 80, max_groups: 12, allow_missing_grp: true, allow_multi_grp: true, max_commits: 4 };
    let (docs, vocab) = rk::gen_corpus(rng, &cfg);
    let dir = scratch.join("idx");
    let (_ix, reader) = match rk::build_index(&dir, &docs) {
      Ok(x) => x,
      Err(e) => {
        l.fail("index-build-error", format!("{e:#}"), json!({"docs": docs_json(&docs)}));
        return;
      }
    };
    let segs = rk::layout_of(&docs).len();
    l.count(if segs > 1 { "corpora_multi_segment" } else { "corpora_single_segment" }, 1);
    let corpus_fp = vcore::ctx::fp(&serde_json::to_string(&docs_json(&docs)).unwrap());
    for _ in 0..per {
      let req = gen_request(rng, &vocab);
      let mut o = Obs::default();
      let r = check_req(&reader, &docs, &req, &mut o);
      l.eval();
      if o.matches >= 3 && o.groups >= 2 && o.max_group >= 2 {
        l.nontrivial(&(corpus_fp, req.to_string()));
      }
      l.count(if o.full { "requests_all_matches_are_candidates(exact)" } else { "requests_truncated_candidates(weak)" }, 1);
      if o.expected_error {
        l.count("multi_valued_rejected_as_expected", 1);
      }
      if o.skipped.is_some() {
        l.count("skipped_multi_valued_outside_candidates", 1);
      }
      if o.inner_order_judged {
        l.count("requests_inner_order_judged", 1);
      }
      if o.inner_two_readings {
        l.count("requests_inner_order_judged_under_two_readings(no inner sort)", 1);
      }
      if o.inner_nonempty {
        l.count("responses_with_inner_hits", 1);
      }
      if o.tie_accepted > 0 {
        l.count("positions_accepted_as_sort_key_ties", o.tie_accepted);
      }
      if req.get("collapse").and_then(|c| c.get("inner_hits")).is_some() && !o.inner_order_judged {
        l.count("requests_inner_order_not_judged(no inner sort, request sort without _score)", 1);
      }
      if l.samples.is_empty() && o.matches >= 3 && o.groups >= 2 && o.max_group >= 2 && r.is_ok() {
        if let Ok(a) = idx::search(&reader, req.clone()) {
          l.sample(json!({"docs": docs.len(), "segments": segs, "request": req, "matches": o.matches, "groups": o.groups, "exact": o.full, "response": res_json(&a)}));
        }
      }
      if let Err(f) = r {
        if l.fails.iter().any(|x| x.signature == f.sig) {
          l.count(&format!("fail[{}]", f.sig), 1);
          continue;
        }
        let sdir = scratch.join("shrink");
        let min = shrink(&sdir, &docs, &req, &f.sig);
        let mut detail = f.detail.clone();
        let mut what = f.what.clone();
        if let Ok((_i2, r2)) = rk::build_index(&sdir, &min) {
          let mut o2 = Obs::default();
          if let Err(f2) = check_req(&r2, &min, &req, &mut o2) {
            detail = f2.detail;
            what = f2.what;
          }
        }
        let _ = std::fs::remove_dir_all(&sdir);
        l.fail(f.sig.clone(), what, json!({"request": req, "docs": docs_json(&min), "original_docs": docs.len(), "observed": detail}));
      }
    }
    drop(reader);
    let _ = std::fs::remove_dir_all(&dir);
  });
  std::process::exit(ctx.finish());
}
