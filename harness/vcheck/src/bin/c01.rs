//! C01 — Commits are atomic and durable across crashes.
//! A worker process executes a generated history on a real directory under `strace`;
//! the recorded syscalls are replayed into a volatile/durable file-system model and every
//! durable image reachable at every syscall boundary is materialised at the original path,
//! reopened with the real `Index::open` and compared with the content model.
use searchlite_core::api::{Index, IndexWriter};
use serde_json::{json, Value};
use std::collections::{BTreeMap, HashMap};
use std::path::{Path, PathBuf};
use std::process::Command;
use std::time::Duration;
use vcheck::crashsim::{self, Ev, FsModel};
use vcheck::hist::{self, Call, HistCfg};
use vcore::model::{self, Contents, Handle, Model};
use vcore::{idx, sandbox, Ctx, Local, Rng};

fn marker(s: &str) {
  let b = s.as_bytes();
  unsafe {
    libc::write(2, b.as_ptr() as *const libc::c_void, b.len());
  }
}

/// `c01 worker <root> <history.json>`: run the history for real; markers delimit API calls.
fn worker(root: &Path, hist_path: &Path) -> i32 {
  let calls: Vec<Call> = serde_json::from_str::<Vec<Value>>(&std::fs::read_to_string(hist_path).unwrap())
    .unwrap()
    .iter()
    .map(|v| Call::from_json(v).expect("call json"))
    .collect();
  let schema = hist::schema();
  let opts = idx::opts(root, false);
  let mut index = Index::create(root, idx::schema(&schema.to_json()).unwrap(), opts.clone()).expect("create");
  marker("@@M 0 C\n");
  let mut wh: Vec<Option<IndexWriter>> = (0..3).map(|_| None).collect();
  for (i, c) in calls.iter().enumerate() {
    marker(&format!("@@M {i} B\n"));
    let r = if let Call::Reopen = c {
      for w in wh.iter_mut() {
        *w = None;
      }
      drop(index);
      match Index::open(opts.clone()) {
        Ok(ix) => {
          index = ix;
          Ok(())
        }
        Err(e) => {
          eprintln!("reopen failed: {e:#}");
          return 3;
        }
      }
    } else {
      hist::engine_step(&index, &mut wh, c)
    };
    match r {
      Ok(()) => marker(&format!("@@M {i} OK\n")),
      Err(e) => {
        marker(&format!("@@M {i} ERR\n"));
        eprintln!("call {i} failed: {e:#}");
      }
    }
  }
  // leave writers un-dropped state to the OS: exit without running destructors of `wh`
  marker("@@M 999999 END\n");
  std::mem::forget(wh);
  0
}

fn view(root: &Path) -> Result<BTreeMap<String, Value>, String> {
  let r = vcore::ctx::catch(|| -> anyhow::Result<_> {
    let index = Index::open(idx::opts(root, false))?;
    let reader = index.reader()?;
    let docs = idx::all_docs(&reader)?;
    // manifest sanity: a writer can be opened on the recovered directory too
    let _w = index.writer()?;
    Ok(docs)
  });
  match r {
    Err(p) => Err(format!("panic:{}", vcore::ctx::panic_site(&p))),
    Ok(Err(e)) => Err(format!("error:{e:#}")),
    Ok(Ok(h)) => {
      let (v, d) = model::observed_view(&h);
      if !d.is_empty() {
        return Err(format!("duplicate-ids:{d:?}"));
      }
      Ok(v)
    }
  }
}

/// `c01 explore <trace> <history.json> <root> <out.json> <torn_all_below> <torn_samples> <max_images>`
fn explore(a: &[String]) -> i32 {
  vcore::ctx::install_panic_hook();
  let trace = std::fs::read_to_string(&a[0]).expect("trace");
  let calls: Vec<Call> = serde_json::from_str::<Vec<Value>>(&std::fs::read_to_string(&a[1]).unwrap())
    .unwrap()
    .iter()
    .map(|v| Call::from_json(v).unwrap())
    .collect();
  let root = PathBuf::from(&a[2]);
  let out = PathBuf::from(&a[3]);
  let torn_all_below: usize = a[4].parse().unwrap();
  let torn_samples: usize = a[5].parse().unwrap();
  let max_images: usize = a[6].parse().unwrap();
  let cur = out.with_extension("current");
  let schema = hist::schema();
  let (evs, bad) = crashsim::parse_strace(&trace);
  if !bad.is_empty() {
    let _ = std::fs::write(&out, json!({"error": "unparsed strace lines", "lines": bad.iter().take(5).collect::<Vec<_>>()}).to_string());
    return 0;
  }
  let mut fsm = FsModel::new(root.to_str().unwrap());
  let mut m = Model::default();
  let mut mh: Vec<Option<Handle>> = vec![None; 3];
  let mut started = false;
  let mut inflight: Option<usize> = None;
  let mut s_last: Contents = Contents::new();
  // cache: image hash -> observed view (or error)
  let mut cache: HashMap<u64, Result<BTreeMap<String, Value>, String>> = HashMap::new();
  let mut judged: std::collections::HashSet<(u64, usize, bool)> = Default::default();
  let mut n_images = 0u64;
  let mut n_distinct = 0u64;
  let mut n_judged = 0u64;
  let mut hit_last = 0u64;
  let mut hit_inflight = 0u64;
  let mut crash_points = 0u64;
  let mut trace_events = 0u64;
  let mut per_kind: BTreeMap<String, u64> = BTreeMap::new();
  let mut per_window: BTreeMap<String, u64> = BTreeMap::new();
  let mut violations: Vec<Value> = Vec::new();
  let mut samples: Vec<Value> = Vec::new();
  let mut truncated = false;
  let mut completed_calls = 0usize;
  'outer: for (k, ev) in evs.iter().enumerate() {
    let label = match ev {
      Ev::Marker(i, ph) => {
        match ph.as_str() {
          "C" => started = true,
          "B" => inflight = Some(*i),
          "OK" => {
            hist::model_step(&mut m, &mut mh, &calls[*i]);
            s_last = m.committed.clone();
            inflight = None;
            completed_calls = *i + 1;
          }
          "ERR" => {
            let _ = std::fs::write(&out, json!({"error": format!("call {i} returned Err on healthy storage")}).to_string());
            return 0;
          }
          _ => {}
        }
        None
      }
      _ => fsm.apply(ev),
    };
    let Some(label) = label else { continue };
    trace_events += 1;
    if !started {
      continue;
    }
    // crash right after this event
    crash_points += 1;
    let inflight_kind = inflight.map(|i| calls[i].kind()).unwrap_or("none");
    *per_kind.entry(inflight_kind.to_string()).or_insert(0) += 1;
    *per_window.entry(label.clone()).or_insert(0) += 1;
    let s_inflight: Option<Contents> = inflight.and_then(|i| {
      if let Call::Commit(_) = calls[i] {
        let mut m2 = m.clone();
        let mut mh2 = mh.clone();
        hist::model_step(&mut m2, &mut mh2, &calls[i]);
        Some(m2.committed)
      } else {
        None
      }
    });
    let exp_last = model::expected_view(&schema, &s_last);
    let exp_inf = s_inflight.as_ref().map(|c| model::expected_view(&schema, c));
    let state_id = completed_calls * 2 + inflight.map(|_| 1).unwrap_or(0);
    let mut pending: Vec<(crashsim::Image, crashsim::ImageDesc)> = Vec::new();
    fsm.images(torn_all_below, torn_samples, |img, d| pending.push((img, d)));
    for (img, d) in pending {
      n_images += 1;
      let h = crashsim::image_hash(&img);
      if !judged.insert((h, state_id, false)) {
        continue;
      }
      n_judged += 1;
      let obs = match cache.get(&h) {
        Some(o) => o.clone(),
        None => {
          if n_distinct as usize >= max_images {
            truncated = true;
            break 'outer;
          }
          n_distinct += 1;
          let _ = std::fs::write(&cur, json!({"event": k, "label": label, "desc": format!("{d:?}")}).to_string());
          if let Err(e) = crashsim::materialise(&root, &img) {
            let _ = std::fs::write(&out, json!({"error": format!("materialise: {e}")}).to_string());
            return 0;
          }
          let o = view(&root);
          cache.insert(h, o.clone());
          o
        }
      };
      let files: Vec<(String, usize)> = img.iter().map(|(k, v)| (k.clone(), v.len())).collect();
      let mut bad: Option<(String, Value)> = None;
      match &obs {
        Err(e) => {
          let kind = if e.starts_with("panic") { e.clone() } else { "reopen-fails".to_string() };
          bad = Some((kind, json!(e)));
        }
        Ok(v) => {
          if model::diff_views(&exp_last, v).is_none() {
            hit_last += 1;
          } else if exp_inf.as_ref().map(|x| model::diff_views(x, v).is_none()).unwrap_or(false) {
            hit_inflight += 1;
          } else {
            let lost = exp_last.keys().any(|k| !v.contains_key(k)) || v.len() < exp_last.len();
            bad = Some((
              if lost { "contents-lost-or-mixed".into() } else { "contents-mixed".into() },
              json!({"observed_ids": v.keys().collect::<Vec<_>>(), "expected_last": exp_last.keys().collect::<Vec<_>>(),
                "expected_inflight": exp_inf.as_ref().map(|x| x.keys().cloned().collect::<Vec<_>>()),
                "diff_vs_last": model::diff_views(&exp_last, v)}),
            ));
          }
        }
      }
      if samples.len() < 2 && d.dir_prefix > 0 && !d.data_variant.starts_with("all") {
        samples.push(json!({"event_index": k, "after_event": label, "inflight_call": inflight_kind, "dir_ops_persisted": format!("{}/{}", d.dir_prefix, d.dir_pending),
          "data_variant": d.data_variant, "files": files, "verdict": if bad.is_none() {"ok"} else {"violation"}}));
      }
      if let Some((kind, detail)) = bad {
        if violations.len() < 40 {
          violations.push(json!({
            "kind": kind, "event_index": k, "after_event": label, "inflight_call": inflight_kind, "inflight_index": inflight,
            "dir_ops_persisted": d.dir_prefix, "dir_ops_pending": d.dir_pending, "data_variant": d.data_variant,
            "pending_dir_ops": fsm.pending_dir.iter().map(|o| format!("{o:?}")).collect::<Vec<_>>(),
            "files": files, "detail": detail,
          }));
        }
      }
    }
  }
  let _ = std::fs::remove_file(&cur);
  let res = json!({
    "trace_events": trace_events, "crash_points": crash_points, "images": n_images, "distinct_images_reopened": n_distinct,
    "judged": n_judged, "hit_last": hit_last, "hit_inflight": hit_inflight, "per_inflight_kind": per_kind, "per_window": per_window,
    "violations": violations, "samples": samples, "truncated": truncated,
  });
  std::fs::write(&out, res.to_string()).unwrap();
  0
}

fn sig_of(v: &Value) -> String {
  let s = |k: &str| v.get(k).and_then(|x| x.as_str()).unwrap_or("?").to_string();
  let dv = s("data_variant");
  // strip numbers from the data variant so the signature names the class, not the byte
  let dv_class: String = {
    let base = dv.split('+').map(|p| p.split('@').next().unwrap_or(p).trim_end_matches(|c: char| c.is_ascii_digit() || c == '/').to_string()).collect::<Vec<_>>().join("+");
    base
  };
  let full = v.get("dir_ops_persisted") == v.get("dir_ops_pending");
  format!(
    "{}:inflight={}:after={}:dirops={}:{}",
    s("kind"),
    s("inflight_call"),
    s("after_event"),
    if full { "all" } else { "partial" },
    dv_class
  )
}

fn main() {
  let args: Vec<String> = std::env::args().skip(1).collect();
  if args.first().map(|s| s.as_str()) == Some("worker") {
    std::process::exit(worker(Path::new(&args[1]), Path::new(&args[2])));
  }
  if args.first().map(|s| s.as_str()) == Some("explore") {
    std::process::exit(explore(&args[1..]));
  }
  let mut ctx = Ctx::from_args("C01", "fault_enumeration", &args);
  let quick = ctx.quick();
  ctx.rule = "each generated history (add/delete/commit/rollback/compact/reopen, <= 3 handles) runs in a worker process on a real directory under strace; EVERY syscall boundary that touched the index directory is a crash point; at each, the crash model yields durable images (every prefix of the un-fsynced directory operations x {all unsynced data dropped, all kept, per-file write-sequence prefixes, torn last write at every byte for small writes / sampled offsets for large}); images are de-duplicated by content hash, materialised at the original path and reopened with Index::open + reader + match_all + writer(). evaluations = (image, model state) judgements; distinct_nontrivial = distinct images actually reopened.".into();
  ctx.assumptions = vec![
    "crash model: fsync(file) persists data not the directory entry; directory operations since the last fsync(dir) persist as a prefix in program order; fsync(dir) persists them all; unsynced data may be dropped, kept, kept as a prefix of the write sequence, or torn".into(),
    "the index root directory itself is durable once Index::create returned".into(),
    "strace faithfully records the syscalls of the single-threaded worker; a trace with unparsed relevant lines is rejected as inconclusive".into(),
    "orphan segment files are not a violation".into(),
  ];
  let n = ctx.n(8, 120);
  let exe = sandbox::self_exe();
  let (torn_all_below, torn_samples, max_images) = if quick { (48usize, 4usize, 1500usize) } else { (96usize, 12usize, 12000usize) };
  ctx.run_cases("hist", n, |rng: &mut Rng, l: &mut Local, scratch| {
    let cfg = HistCfg {
      len: rng.urange(6, if quick { 14 } else { 25 }),
      ids: rng.urange(2, 6),
      max_handles: rng.urange(1, 2),
      p_commit: 0.22,
      p_rollback: 0.05,
      p_compact: 0.07,
      p_reopen: 0.05,
    };
    let mut calls = hist::gen_history(rng, &cfg);
    // make sure most histories contain a compaction that has work to do (>= 2 committed
    // segments): otherwise the compaction windows are never crash points
    if l.case_idx % 4 != 3 {
      let mut commits_with_adds = 0;
      let mut pending_add = false;
      let mut insert_at = None;
      for (i, c) in calls.iter().enumerate() {
        match c {
          Call::Add(..) => pending_add = true,
          Call::Commit(_) if pending_add => {
            commits_with_adds += 1;
            pending_add = false;
            if commits_with_adds == 2 {
              insert_at = Some(i + 1);
              break;
            }
          }
          Call::Reopen | Call::Rollback(_) => pending_add = false,
          _ => {}
        }
      }
      match insert_at {
        Some(i) => calls.insert(i + rng.usize(calls.len() - i + 1).min(2), Call::Compact),
        None => {
          // append: add, commit, add, commit, compact on a fresh handle slot 0
          let mut v = 1000u64;
          let mut tail = vec![Call::Reopen, Call::Open(0)];
          for _ in 0..2 {
            v += 1;
            let id = format!("d{}", rng.usize(cfg.ids));
            tail.push(Call::Add(0, id.clone(), vcore::gen::simple_doc(rng, &id, &format!("v{v}"))));
            tail.push(Call::Commit(0));
          }
          tail.push(Call::Compact);
          calls.extend(tail);
        }
      }
    }
    let hist_json: Vec<Value> = calls.iter().map(|c| c.to_json()).collect();
    let root = scratch.join("idx");
    let _ = std::fs::remove_dir_all(&root);
    let hp = scratch.join("history.json");
    let tp = scratch.join("trace.txt");
    let op = scratch.join("explore.json");
    let _ = std::fs::remove_file(&op);
    std::fs::write(&hp, serde_json::to_string(&hist_json).unwrap()).unwrap();
    // 1. record
    let mut cmd = Command::new("strace");
    cmd
      .arg("-xx")
      .arg("-s")
      .arg("16000000")
      .arg("-e")
      .arg("trace=open,openat,creat,close,write,pwrite64,writev,pwritev,pwritev2,lseek,ftruncate,truncate,fsync,fdatasync,rename,renameat,renameat2,unlink,unlinkat,rmdir,mkdir,mkdirat,link,linkat,symlink,symlinkat,sendfile,copy_file_range,fallocate")
      .arg("-o")
      .arg(&tp)
      .arg(&exe)
      .arg("worker")
      .arg(&root)
      .arg(&hp);
    let o = match sandbox::run(cmd, None, Duration::from_secs(120)) {
      Ok(o) => o,
      Err(e) => {
        l.inconclusive(format!("cannot run strace: {e}"));
        return;
      }
    };
    if !o.ok() {
      l.inconclusive(format!("worker failed: code={:?} sig={:?} timed_out={} stderr={}", o.code, o.signal, o.timed_out, o.stderr_str().chars().take(300).collect::<String>()));
      return;
    }
    // 2. explore in a sandboxed subprocess
    let mut cmd = Command::new(&exe);
    cmd.arg("explore").arg(&tp).arg(&hp).arg(&root).arg(&op).arg(torn_all_below.to_string()).arg(torn_samples.to_string()).arg(max_images.to_string());
    sandbox::limit_memory(&mut cmd, 6 << 30);
    let o = match sandbox::run(cmd, None, Duration::from_secs(if quick { 300 } else { 1500 })) {
      Ok(o) => o,
      Err(e) => {
        l.inconclusive(format!("cannot run explorer: {e}"));
        return;
      }
    };
    if !o.ok() || !op.exists() {
      let cur = std::fs::read_to_string(op.with_extension("current")).unwrap_or_default();
      if o.timed_out {
        l.inconclusive(format!("explorer watchdog fired at {cur}"));
      } else {
        l.fail(
          "explorer-died-on-crash-image",
          format!("reopening a crash image killed the process (code={:?} signal={:?}) at {cur}; stderr: {}", o.code, o.signal, o.stderr_str().chars().take(400).collect::<String>()),
          json!({"calls": hist_json, "current": cur}),
        );
      }
      return;
    }
    let res: Value = serde_json::from_str(&std::fs::read_to_string(&op).unwrap_or_default()).unwrap_or(json!({"error":"unreadable explorer output"}));
    if let Some(e) = res.get("error") {
      l.inconclusive(format!("explorer: {e} {}", res.get("lines").map(|x| x.to_string()).unwrap_or_default()));
      return;
    }
    let g = |k: &str| res.get(k).and_then(|x| x.as_u64()).unwrap_or(0);
    l.evals_add(g("judged"));
    l.count("histories", 1);
    l.count("trace_events", g("trace_events"));
    l.count("crash_points", g("crash_points"));
    l.count("images_generated", g("images"));
    l.count("images_distinct_reopened", g("distinct_images_reopened"));
    l.count("images_matching_last_commit", g("hit_last"));
    l.count("images_matching_inflight_commit", g("hit_inflight"));
    if res.get("truncated").and_then(|x| x.as_bool()).unwrap_or(false) {
      l.count("histories_truncated_by_image_cap", 1);
    }
    for key in ["per_inflight_kind", "per_window"] {
      if let Some(m) = res.get(key).and_then(|x| x.as_object()) {
        for (k, v) in m {
          l.count(&format!("{key}[{k}]"), v.as_u64().unwrap_or(0));
        }
      }
    }
    // distinct images: fingerprint by (case, ordinal) is meaningless; use the explorer's own distinct count
    for i in 0..g("distinct_images_reopened") {
      l.nontrivial(&(l.case_idx, i));
    }
    if let Some(s) = res.get("samples").and_then(|x| x.as_array()) {
      for x in s.iter().take(1) {
        l.sample(json!({"history": hist_json, "image": x}));
      }
    }
    if let Some(vs) = res.get("violations").and_then(|x| x.as_array()) {
      for v in vs {
        l.fail(sig_of(v), format!("crash image violates atomicity/durability: {}", v), json!({"calls": hist_json, "image": v}));
      }
    }
    let _ = std::fs::remove_dir_all(&root);
  });
  std::process::exit(ctx.finish());
}
