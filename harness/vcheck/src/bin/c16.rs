//! C16 — Search never panics on any request.
//! Worker processes own small indexes; the parent streams generated request JSON to them
//! (structure-aware generators with hostile scalars, cursor/regex/script/interval strings,
//! byte- and char-level mutations of valid requests). The worker deserialises each line into
//! `SearchRequest` and runs `IndexReader::search` under `catch_unwind`; the parent observes
//! panics (reported by the worker), aborts and memory kills (worker death) and hangs
//! (watchdog; re-run alone with a 10x bound before it counts).
use searchlite_core::api::types::SearchRequest;
use searchlite_core::api::{Index, IndexReader};
use serde_json::{json, Map, Value};
use std::io::{BufRead, BufReader, Write};
use std::path::Path;
use std::process::{Child, ChildStdin, Command, Stdio};
use std::sync::mpsc::{channel, Receiver};
use std::time::Duration;
use vcore::{idx, sandbox, Ctx, Local, Rng};

fn schema() -> Value {
  json!({
    "doc_id_field": "_id",
    "analyzers": [
      {"name": "eng", "tokenizer": "unicode", "filters": [{"stopwords": "en"}, {"stemmer": "english"}]},
      {"name": "syn", "tokenizer": "whitespace", "filters": ["lowercase", {"synonyms": [{"from": ["fast"], "to": ["quick", "rapid"]}]}]},
      {"name": "ng", "tokenizer": "default", "filters": [{"edge_ngram": {"min": 1, "max": 4}}]}
    ],
    "text_fields": [
      {"name": "body", "analyzer": "default", "stored": true, "indexed": true},
      {"name": "title", "analyzer": "eng", "stored": true, "indexed": true, "nullable": true},
      {"name": "alt", "analyzer": "syn", "stored": true, "indexed": true, "nullable": true},
      {"name": "pre", "analyzer": "ng", "search_analyzer": "default", "stored": false, "indexed": true, "nullable": true}
    ],
    "keyword_fields": [
      {"name": "tag", "stored": true, "indexed": true, "fast": true, "nullable": true},
      {"name": "cat", "stored": true, "indexed": true, "fast": true, "nullable": true},
      {"name": "slow", "stored": true, "indexed": true, "fast": false, "nullable": true}
    ],
    "numeric_fields": [
      {"name": "n", "i64": true, "fast": true, "stored": true, "nullable": true},
      {"name": "x", "i64": false, "fast": true, "stored": true, "nullable": true},
      {"name": "ts", "i64": true, "fast": true, "stored": true, "nullable": true},
      {"name": "nf", "i64": true, "fast": false, "stored": true, "nullable": true}
    ],
    "nested_fields": [
      {"name": "c", "nullable": true, "fields": [
        {"type": "keyword", "name": "who", "stored": true, "indexed": true, "fast": true, "nullable": true},
        {"type": "numeric", "name": "k", "i64": true, "fast": true, "stored": true, "nullable": true}
      ]}
    ]
  })
}

const TEXTS: &[&str] = &[
  "rust search engine", "fast index of the query", "café naïve über straße", "日本語 東京 テキスト", "emoji 😀 👨‍👩‍👧 text rust", "a", "", "the the the",
  "running runs searches indexed", "rust-rust_rust.rust", "ÀÉÎÕÜ ﬁ ＦＵＬＬ", "x\u{0301}y\u{0308} combining", "Rust RUST rUsT",
];

fn build(dir: &Path, seed: u64) -> anyhow::Result<Index> {
  let mut rng = Rng::derive(seed, "c16-index", 0);
  let index = Index::create(dir, idx::schema(&schema())?, idx::opts(dir, true))?;
  let mut w = index.writer()?;
  let segs = rng.urange(1, 3);
  let mut k = 0;
  for s in 0..segs {
    for _ in 0..rng.urange(3, 30) {
      let mut m = Map::new();
      m.insert("_id".into(), json!(format!("d{k}")));
      m.insert("body".into(), json!(format!("{} {}", rng.pick(TEXTS), vcore::gen::sentence(&mut rng, 0, 8))));
      if rng.chance(0.7) {
        m.insert("title".into(), json!(rng.pick(TEXTS)));
      }
      if rng.chance(0.5) {
        m.insert("alt".into(), json!([rng.pick(TEXTS), "fast quick"]));
      }
      if rng.chance(0.5) {
        m.insert("pre".into(), json!(vcore::gen::sentence(&mut rng, 1, 3)));
      }
      if rng.chance(0.8) {
        m.insert("tag".into(), if rng.chance(0.3) { json!([rng.pick(vcore::gen::TAGS), rng.pick(vcore::gen::TAGS)]) } else { json!(rng.pick(vcore::gen::TAGS)) });
      }
      if rng.chance(0.8) {
        m.insert("cat".into(), json!(format!("g{}", rng.below(4))));
      }
      if rng.chance(0.5) {
        m.insert("slow".into(), json!("s"));
      }
      if rng.chance(0.8) {
        m.insert("n".into(), json!(rng.range(-10, 50)));
      }
      if rng.chance(0.7) {
        m.insert("x".into(), json!((rng.range(-1000, 1000) as f64) / 7.0));
      }
      if rng.chance(0.7) {
        m.insert("ts".into(), json!(1_700_000_000_000i64 + rng.range(0, 90) * 86_400_000));
      }
      if rng.chance(0.3) {
        m.insert("nf".into(), json!(rng.range(0, 5)));
      }
      if rng.chance(0.4) {
        let objs: Vec<Value> = (0..rng.urange(0, 3)).map(|_| json!({"who": rng.pick(vcore::gen::TAGS), "k": rng.range(0, 9)})).collect();
        m.insert("c".into(), Value::Array(objs));
      }
      w.add_document(&idx::doc(&Value::Object(m)))?;
      k += 1;
    }
    w.commit()?;
    if s == 0 && rng.chance(0.5) {
      w.delete_document("d1")?;
      w.commit()?;
    }
  }
  Ok(index)
}

// ------------------------------------------------------------------ generators

const FIELDS: &[&str] = &["body", "title", "alt", "pre", "tag", "cat", "slow", "n", "x", "ts", "nf", "c.who", "c.k", "c", "_id", "nope", "", "_score", "body.x"];
const WORDS: &[&str] = &["rust", "search", "engine", "fast", "quick", "the", "index", "café", "日本語", "😀", "ru", "", "a", "RUST", "running", "x\u{0301}", "rust*", "r?st", "\"rust search\"", "-rust", "body:rust", "tag:red", "nope:x", ":", "\"", "(", "AND", "rust~2", "^2"];

fn hostile_usize(rng: &mut Rng) -> Value {
  let opts: &[u64] = &[0, 1, 2, 3, 7, 10, 100, 1000, 20_000, 20_001, 50_000, 50_001, 1 << 31, (1u64 << 32) - 1, 1u64 << 32, u64::MAX / 2, u64::MAX - 1, u64::MAX];
  json!(opts[rng.zipf(opts.len())])
}
fn small_usize(rng: &mut Rng) -> Value {
  if rng.chance(0.1) {
    hostile_usize(rng)
  } else {
    json!(rng.below(8))
  }
}
fn hostile_f64(rng: &mut Rng) -> Value {
  let opts: &[f64] = &[0.0, -0.0, 1.0, -1.0, 0.5, 2.0, 1e-9, 1e-300, 5e-324, 1e300, 1.7976931348623157e308, -1e308, 1e18, 9007199254740993.0, 0.1, 100.0, -7.5, 3.4e38, 3.5e38];
  json!(opts[rng.usize(opts.len())])
}
fn num(rng: &mut Rng) -> Value {
  if rng.chance(0.25) {
    hostile_f64(rng)
  } else {
    json!((rng.range(-200, 400) as f64) / 4.0)
  }
}
fn boost(rng: &mut Rng, m: &mut Map<String, Value>) {
  if rng.chance(0.3) {
    m.insert("boost".into(), num(rng));
  }
}
fn field(rng: &mut Rng) -> Value {
  json!(FIELDS[rng.zipf(FIELDS.len())])
}
fn text_field(rng: &mut Rng) -> Value {
  if rng.chance(0.85) {
    json!(["body", "title", "alt", "pre"][rng.usize(4)])
  } else {
    field(rng)
  }
}
fn fast_field(rng: &mut Rng) -> Value {
  if rng.chance(0.85) {
    json!(["tag", "cat", "n", "x", "ts", "c.who", "c.k"][rng.usize(7)])
  } else {
    field(rng)
  }
}
fn word(rng: &mut Rng) -> String {
  WORDS[rng.zipf(WORDS.len())].to_string()
}

const PATTERNS: &[&str] = &[
  "ru.*", "(a+)+$", "(a*)*b", "((((((((((a*)*)*)*)*)*)*)*)*)*)*", "a{1000}", "a{1,100000}", "[", "(", "\\", "[[:alpha:]]+", "\\p{Greek}+", "(?i)RUST", "(?P<n>r)ust", "r.st", ".*", "", "^$", "\\b\\w+\\b", "a{2}{3}{4}{5}{6}", "(?:r|ru|rus|rust)+", "\\x{110000}", "[z-a]",
  "*", "?", "**********r", "r*u*s*t*", "?????", "*?*?*?*?*?*?*?*?", "ru*", "*st", "日*", "😀?",
];
const SCRIPTS: &[&str] = &[
  "_score", "_score * 2", "_score + n", "n / 0", "n / x", "_score / (n - n)", "((((((((((1))))))))))", "-----1", "1 +", "", "n * weight", "nope + 1", "1e308 * 1e308", "_score ^ 2", "log(n)", "sqrt(-1)", "n % 0",
  "a_very_long_identifier_a_very_long_identifier_a_very_long_identifier", "1 / 0", "0 / 0", "(", ")", "1 2", "_score * -1", "x - x", "9999999999999999999999999999", "n + x * (ts - ts) / 3",
];
const INTERVALS: &[&str] = &["1d", "12h", "0d", "1000000d", "abc", "", "1", "d", "-1d", "1.5h", "1ms", "1s", "99999999999999999999d", "1w", "1M", "7d"];
const CAL: &[&str] = &["day", "week", "month", "quarter", "year", "hour", "", "decade"];

fn filter(rng: &mut Rng, depth: usize) -> Value {
  let r = rng.below(if depth == 0 { 5 } else { 9 });
  match r {
    0 => json!({"KeywordEq": {"field": fast_field(rng), "value": rng.pick(vcore::gen::TAGS)}}),
    1 => json!({"KeywordIn": {"field": fast_field(rng), "values": (0..rng.below(4)).map(|_| json!(rng.pick(vcore::gen::TAGS))).collect::<Vec<_>>()}}),
    2 => {
      let a = rng.range(-20, 60);
      let b = if rng.chance(0.2) { i64::MAX } else { rng.range(-20, 60) };
      json!({"I64Range": {"field": fast_field(rng), "min": if rng.chance(0.1) { i64::MIN } else { a }, "max": b}})
    }
    3 => json!({"F64Range": {"field": fast_field(rng), "min": num(rng), "max": num(rng)}}),
    4 => json!({"KeywordEq": {"field": "c.who", "value": rng.pick(vcore::gen::TAGS)}}),
    5 => json!({"And": (0..rng.below(4)).map(|_| filter(rng, depth - 1)).collect::<Vec<_>>()}),
    6 => json!({"Or": (0..rng.below(4)).map(|_| filter(rng, depth - 1)).collect::<Vec<_>>()}),
    7 => json!({"Not": filter(rng, depth - 1)}),
    _ => json!({"Nested": {"path": (["c", "c.who", "nope", "", "tag"][rng.zipf(5)]), "filter": filter(rng, depth - 1)}}),
  }
}

fn function(rng: &mut Rng) -> Value {
  let mut m = Map::new();
  match rng.below(3) {
    0 => {
      m.insert("type".into(), json!("weight"));
      m.insert("weight".into(), num(rng));
    }
    1 => {
      m.insert("type".into(), json!("field_value_factor"));
      m.insert("field".into(), fast_field(rng));
      if rng.chance(0.6) {
        m.insert("factor".into(), num(rng));
      }
      if rng.chance(0.6) {
        m.insert("modifier".into(), json!(["none", "log", "log1p", "log2p", "sqrt", "reciprocal"][rng.usize(6)]));
      }
      if rng.chance(0.4) {
        m.insert("missing".into(), num(rng));
      }
    }
    _ => {
      m.insert("type".into(), json!("decay"));
      m.insert("field".into(), fast_field(rng));
      m.insert("origin".into(), num(rng));
      m.insert("scale".into(), num(rng));
      if rng.chance(0.5) {
        m.insert("offset".into(), num(rng));
      }
      if rng.chance(0.5) {
        m.insert("decay".into(), num(rng));
      }
      if rng.chance(0.7) {
        m.insert("function".into(), json!(["exp", "gauss", "linear"][rng.usize(3)]));
      }
    }
  }
  if rng.chance(0.25) {
    m.insert("filter".into(), filter(rng, 1));
  }
  Value::Object(m)
}

fn query(rng: &mut Rng, depth: usize) -> Value {
  let mut m = Map::new();
  let leafs = 9;
  let r = if depth == 0 { rng.below(leafs) } else { rng.below(leafs + 6) };
  match r {
    0 => {
      m.insert("type".into(), json!("match_all"));
    }
    1 => {
      m.insert("type".into(), json!("term"));
      m.insert("field".into(), text_field(rng));
      m.insert("value".into(), json!(word(rng)));
    }
    2 => {
      m.insert("type".into(), json!("query_string"));
      let n = rng.urange(0, 4);
      m.insert("query".into(), json!((0..n).map(|_| word(rng)).collect::<Vec<_>>().join(" ")));
      if rng.chance(0.5) {
        let fs: Vec<Value> = (0..rng.below(3)).map(|_| if rng.chance(0.5) { text_field(rng) } else { json!({"field": text_field(rng), "boost": num(rng)}) }).collect();
        // a list must be homogeneous (names or specs); mixed lists simply fail to deserialize
        m.insert("fields".into(), Value::Array(fs));
      }
    }
    3 => {
      m.insert("type".into(), json!("multi_match"));
      m.insert("query".into(), json!(format!("{} {}", word(rng), word(rng))));
      m.insert("fields".into(), Value::Array((0..rng.below(4)).map(|_| text_field(rng)).collect()));
      if rng.chance(0.7) {
        m.insert("match_type".into(), json!(["best_fields", "most_fields", "cross_fields"][rng.usize(3)]));
      }
      if rng.chance(0.4) {
        m.insert("tie_breaker".into(), num(rng));
      }
      if rng.chance(0.4) {
        m.insert("operator".into(), json!(["or", "and"][rng.usize(2)]));
      }
      if rng.chance(0.4) {
        m.insert("minimum_should_match".into(), if rng.chance(0.5) { small_usize(rng) } else { json!(["50%", "150%", "-10%", "0%", "abc", "%", "100%", "99999999999999999999%"][rng.usize(8)]) });
      }
    }
    4 => {
      m.insert("type".into(), json!(["prefix", "wildcard", "regex"][rng.usize(3)]));
      m.insert("field".into(), text_field(rng));
      m.insert("value".into(), json!(if rng.chance(0.6) { rng.pick(PATTERNS).to_string() } else { word(rng) }));
      if rng.chance(0.4) {
        m.insert("max_expansions".into(), hostile_usize(rng));
      }
    }
    5 => {
      m.insert("type".into(), json!("phrase"));
      if rng.chance(0.8) {
        m.insert("field".into(), text_field(rng));
      }
      m.insert("terms".into(), Value::Array((0..rng.below(4)).map(|_| json!(word(rng))).collect()));
      if rng.chance(0.5) {
        m.insert("slop".into(), small_usize(rng));
      }
    }
    6 => {
      m.insert("type".into(), json!("rank_feature"));
      m.insert("field".into(), fast_field(rng));
      if rng.chance(0.6) {
        m.insert("modifier".into(), json!(["none", "log", "log1p", "sqrt", "reciprocal"][rng.usize(5)]));
      }
      if rng.chance(0.4) {
        m.insert("missing".into(), num(rng));
      }
    }
    7 => {
      m.insert("type".into(), json!("constant_score"));
      m.insert("filter".into(), filter(rng, 2));
    }
    8 => {
      // the same term in several scoring clauses
      let t = json!({"type": "term", "field": "body", "value": "rust"});
      m.insert("type".into(), json!("bool"));
      m.insert("should".into(), json!([t.clone(), t.clone(), {"type": "term", "field": "body", "value": "rust", "boost": 2.0}]));
      if rng.chance(0.5) {
        m.insert("must".into(), json!([t]));
      }
    }
    9 | 10 => {
      m.insert("type".into(), json!("bool"));
      for k in ["must", "should", "must_not"] {
        if rng.chance(0.6) {
          m.insert(k.into(), Value::Array((0..rng.below(3)).map(|_| query(rng, depth - 1)).collect()));
        }
      }
      if rng.chance(0.4) {
        m.insert("filter".into(), Value::Array((0..rng.below(3)).map(|_| filter(rng, 2)).collect()));
      }
      if rng.chance(0.4) {
        m.insert("minimum_should_match".into(), small_usize(rng));
      }
    }
    11 => {
      m.insert("type".into(), json!("dis_max"));
      m.insert("queries".into(), Value::Array((0..rng.below(4)).map(|_| query(rng, depth - 1)).collect()));
      if rng.chance(0.5) {
        m.insert("tie_breaker".into(), num(rng));
      }
    }
    12 | 13 => {
      m.insert("type".into(), json!("function_score"));
      m.insert("query".into(), query(rng, depth - 1));
      m.insert("functions".into(), Value::Array((0..rng.below(4)).map(|_| function(rng)).collect()));
      if rng.chance(0.6) {
        m.insert("score_mode".into(), json!(["sum", "multiply", "max", "min", "avg"][rng.usize(5)]));
      }
      if rng.chance(0.6) {
        m.insert("boost_mode".into(), json!(["multiply", "sum", "replace", "max", "min"][rng.usize(5)]));
      }
      if rng.chance(0.3) {
        m.insert("max_boost".into(), num(rng));
      }
      if rng.chance(0.3) {
        m.insert("min_score".into(), num(rng));
      }
    }
    _ => {
      m.insert("type".into(), json!("script_score"));
      m.insert("query".into(), query(rng, depth - 1));
      m.insert("script".into(), json!(rng.pick(SCRIPTS)));
      if rng.chance(0.5) {
        m.insert("params".into(), json!({"weight": num(rng), "n": num(rng)}));
      }
    }
  }
  boost(rng, &mut m);
  Value::Object(m)
}

fn sort(rng: &mut Rng) -> Value {
  Value::Array(
    (0..rng.below(4))
      .map(|_| {
        let f = if rng.chance(0.3) { json!("_score") } else { fast_field(rng) };
        if rng.chance(0.6) {
          json!({"field": f, "order": (["asc", "desc"][rng.usize(2)])})
        } else {
          json!({"field": f})
        }
      })
      .collect(),
  )
}

fn missing(rng: &mut Rng) -> Value {
  match rng.below(5) {
    0 => Value::Null,
    1 => json!("x"),
    2 => num(rng),
    3 => json!(true),
    _ => json!([1]),
  }
}

fn sub_aggs(rng: &mut Rng, depth: usize, m: &mut Map<String, Value>) {
  if depth > 0 && rng.chance(0.4) {
    let mut a = Map::new();
    for i in 0..rng.urange(1, 3) {
      a.insert(format!("s{i}"), agg(rng, depth - 1));
    }
    m.insert("aggs".into(), Value::Object(a));
  }
}

fn agg(rng: &mut Rng, depth: usize) -> Value {
  let mut m = Map::new();
  let r = rng.below(22);
  let opt = |rng: &mut Rng, m: &mut Map<String, Value>, k: &str, v: Value| {
    if rng.chance(0.5) {
      m.insert(k.into(), v);
    } else if rng.chance(0.5) {
      m.insert(k.into(), Value::Null);
    }
  };
  match r {
    0 | 1 => {
      m.insert("type".into(), json!(["terms", "significant_terms", "rare_terms"][rng.zipf(3)]));
      m.insert("field".into(), fast_field(rng));
      let v = small_usize(rng);
      opt(rng, &mut m, "size", v);
      let v = small_usize(rng);
      opt(rng, &mut m, "shard_size", v);
      let v = small_usize(rng);
      opt(rng, &mut m, "min_doc_count", v);
      let v = small_usize(rng);
      opt(rng, &mut m, "max_doc_count", v);
      let v = missing(rng);
      opt(rng, &mut m, "missing", v);
      if rng.chance(0.2) {
        m.insert("background_filter".into(), filter(rng, 1));
      }
      sub_aggs(rng, depth, &mut m);
    }
    2 => {
      m.insert("type".into(), json!("range"));
      m.insert("field".into(), fast_field(rng));
      m.insert("keyed".into(), json!(rng.chance(0.5)));
      m.insert("ranges".into(), Value::Array((0..rng.below(4)).map(|_| json!({"key": if rng.chance(0.5) { json!("k") } else { Value::Null }, "from": if rng.chance(0.7) { num(rng) } else { Value::Null }, "to": if rng.chance(0.7) { num(rng) } else { Value::Null }})).collect()));
      m.insert("missing".into(), missing(rng));
      sub_aggs(rng, depth, &mut m);
    }
    3 => {
      m.insert("type".into(), json!("date_range"));
      m.insert("field".into(), fast_field(rng));
      m.insert("keyed".into(), json!(rng.chance(0.5)));
      m.insert("format".into(), if rng.chance(0.3) { json!("%Y-%m-%d %Q %%") } else { Value::Null });
      let d = |rng: &mut Rng| -> Value {
        match rng.below(5) {
          0 => Value::Null,
          1 => json!("2023-11-15T00:00:00Z"),
          2 => json!("1700000000000"),
          3 => json!("not a date"),
          _ => json!("99999-99-99T99:99:99Z"),
        }
      };
      m.insert("ranges".into(), Value::Array((0..rng.below(3)).map(|_| json!({"key": Value::Null, "from": d(rng), "to": d(rng)})).collect()));
      m.insert("missing".into(), missing(rng));
      sub_aggs(rng, depth, &mut m);
    }
    4 | 5 => {
      m.insert("type".into(), json!("histogram"));
      m.insert("field".into(), fast_field(rng));
      m.insert("interval".into(), if rng.chance(0.88) { json!([1.0, 2.5, 10.0, 100.0][rng.usize(4)]) } else { hostile_f64(rng) });
      let v = num(rng);
      opt(rng, &mut m, "offset", v);
      let v = small_usize(rng);
      opt(rng, &mut m, "min_doc_count", v);
      let v = json!({"min": num(rng), "max": num(rng)});
      opt(rng, &mut m, "extended_bounds", v);
      let v = json!({"min": num(rng), "max": num(rng)});
      opt(rng, &mut m, "hard_bounds", v);
      let v = num(rng);
      opt(rng, &mut m, "missing", v);
      sub_aggs(rng, depth, &mut m);
    }
    6 | 7 => {
      m.insert("type".into(), json!("date_histogram"));
      m.insert("field".into(), if rng.chance(0.7) { json!("ts") } else { fast_field(rng) });
      let v = json!(rng.pick(CAL));
      opt(rng, &mut m, "calendar_interval", v);
      let v = json!(rng.pick(INTERVALS));
      opt(rng, &mut m, "fixed_interval", v);
      let v = json!(rng.pick(INTERVALS));
      opt(rng, &mut m, "offset", v);
      let v = json!("%Y %Q");
      opt(rng, &mut m, "format", v);
      let v = small_usize(rng);
      opt(rng, &mut m, "min_doc_count", v);
      let b = |rng: &mut Rng| json!({"min": (["2023-01-01T00:00:00Z", "1700000000000", "x", "0001-01-01T00:00:00Z", "-1"][rng.usize(5)]), "max": (["2024-01-01T00:00:00Z", "1800000000000", "y", "9999-12-31T23:59:59Z", "9223372036854775807"][rng.usize(5)])});
      let v = b(rng);
      opt(rng, &mut m, "extended_bounds", v);
      let v = b(rng);
      opt(rng, &mut m, "hard_bounds", v);
      let v = json!(["2023-11-15T00:00:00Z", "0", "zzz"][rng.usize(3)]);
      opt(rng, &mut m, "missing", v);
      sub_aggs(rng, depth, &mut m);
    }
    8 => {
      m.insert("type".into(), json!("filter"));
      m.insert("filter".into(), filter(rng, 2));
      sub_aggs(rng, depth, &mut m);
    }
    9 | 10 => {
      m.insert("type".into(), json!("composite"));
      m.insert("size".into(), small_usize(rng));
      m.insert(
        "sources".into(),
        Value::Array(
          (0..rng.below(4))
            .map(|i| {
              if rng.chance(0.5) {
                json!({"type": "terms", "name": format!("s{}", if rng.chance(0.2) { 0 } else { i }), "field": fast_field(rng)})
              } else {
                json!({"type": "histogram", "name": format!("s{i}"), "field": fast_field(rng), "interval": if rng.chance(0.7) { json!(5.0) } else { hostile_f64(rng) }})
              }
            })
            .collect(),
        ),
      );
      if rng.chance(0.4) {
        m.insert("after".into(), [json!({"s0": "red"}), json!({"s0": 5, "s1": "x"}), json!([1]), json!("x"), json!({"zz": null}), json!({"s0": 1e308})][rng.usize(6)].clone());
      }
      sub_aggs(rng, depth, &mut m);
    }
    11 => {
      m.insert("type".into(), json!(["stats", "extended_stats", "value_count"][rng.usize(3)]));
      m.insert("field".into(), fast_field(rng));
      m.insert("missing".into(), missing(rng));
    }
    12 => {
      m.insert("type".into(), json!("cardinality"));
      m.insert("field".into(), fast_field(rng));
      if rng.chance(0.5) {
        m.insert("precision_threshold".into(), hostile_usize(rng));
      }
      if rng.chance(0.3) {
        m.insert("missing".into(), missing(rng));
      }
    }
    13 => {
      m.insert("type".into(), json!("percentiles"));
      m.insert("field".into(), fast_field(rng));
      if rng.chance(0.6) {
        m.insert("percents".into(), Value::Array((0..rng.below(5)).map(|_| [json!(50.0), json!(0.0), json!(100.0), json!(-5.0), json!(150.0), json!(1e308), json!(99.999)][rng.usize(7)].clone()).collect()));
      }
    }
    14 => {
      m.insert("type".into(), json!("percentile_ranks"));
      m.insert("field".into(), fast_field(rng));
      m.insert("values".into(), Value::Array((0..rng.below(4)).map(|_| num(rng)).collect()));
    }
    15 => {
      m.insert("type".into(), json!("top_hits"));
      m.insert("size".into(), small_usize(rng));
      if rng.chance(0.5) {
        m.insert("from".into(), small_usize(rng));
      }
      if rng.chance(0.4) {
        m.insert("fields".into(), json!(["body", "nope"]));
      }
      if rng.chance(0.5) {
        m.insert("sort".into(), sort(rng));
      }
      if rng.chance(0.3) {
        m.insert("highlight_field".into(), text_field(rng));
      }
    }
    16 => {
      m.insert("type".into(), json!("bucket_sort"));
      m.insert("sort".into(), Value::Array((0..rng.below(3)).map(|_| json!({(["_count", "_key", "s0.avg", "s0", "nope.x.y", ""][rng.usize(6)]): (["asc", "desc"][rng.usize(2)])})).collect()));
      if rng.chance(0.5) {
        m.insert("from".into(), small_usize(rng));
      }
      if rng.chance(0.5) {
        m.insert("size".into(), small_usize(rng));
      }
    }
    17 => {
      m.insert("type".into(), json!(["avg_bucket", "sum_bucket"][rng.usize(2)]));
      m.insert("buckets_path".into(), json!(["s0.avg", "s0", "_count", "", "a.b.c.d", "s0.values.50"][rng.usize(6)]));
    }
    18 => {
      m.insert("type".into(), json!("derivative"));
      m.insert("buckets_path".into(), json!(["s0.avg", "_count", "x"][rng.usize(3)]));
      if rng.chance(0.5) {
        m.insert("gap_policy".into(), json!(["skip", "insert_zeros"][rng.usize(2)]));
      }
      if rng.chance(0.4) {
        m.insert("unit".into(), hostile_f64(rng));
      }
    }
    19 => {
      m.insert("type".into(), json!("moving_avg"));
      m.insert("buckets_path".into(), json!(["s0.avg", "_count", "x"][rng.usize(3)]));
      m.insert("window".into(), small_usize(rng));
      if rng.chance(0.5) {
        m.insert("predict".into(), small_usize(rng));
      }
    }
    _ => {
      m.insert("type".into(), json!("bucket_script"));
      m.insert("buckets_path".into(), json!({"a": (["s0.avg", "_count", "x"][rng.usize(3)]), "b": "_count"}));
      m.insert("script".into(), json!(["a / b", "a-b", "a / 0", "a +", "((a))", "a * 1e308 * 1e308", "c", ""][rng.usize(8)]));
    }
  }
  if rng.chance(0.08) {
    m.insert("sampling".into(), json!({"size": small_usize(rng), "probability": num(rng), "seed": 7}));
  }
  Value::Object(m)
}

fn cursor_strings(rng: &mut Rng, valid: &[String]) -> String {
  let r = rng.below(12);
  let base = if valid.is_empty() { "01".repeat(21) } else { rng.pick(valid).clone() };
  match r {
    0 => base,
    1 => {
      // replace one char by a multi-byte char of every width at a random alignment
      let mut cs: Vec<char> = base.chars().collect();
      if cs.is_empty() {
        return "é".into();
      }
      let i = rng.usize(cs.len());
      cs[i] = *rng.pick(&['é', '日', '😀', 'ß', '\u{0301}']);
      cs.into_iter().collect()
    }
    2 => format!("a{}a", "é".repeat(20)),
    3 => format!("{}é", &base[..base.len().saturating_sub(2)]),
    4 => "zz".repeat(21),
    5 => base[..rng.usize(base.len() + 1)].to_string(),
    6 => format!("{base}00"),
    7 => "".into(),
    8 => {
      // valid hex of garbage JSON / truncated JSON
      let js = [r#"{"version":1}"#, r#"{"version":1,"generation":1,"returned":4294967295,"plan_hash":0,"segment_ord":4294967295,"doc_id":4294967295,"values":[]}"#, "[]", "{", "null", r#"{"version":1,"generation":1,"returned":0,"plan_hash":0,"segment_ord":0,"doc_id":0,"values":[{"t":"f64","v":1e400}]}"#][rng.usize(6)];
      js.bytes().map(|b| format!("{b:02x}")).collect()
    }
    9 => {
      // flip one hex digit
      let mut cs: Vec<char> = base.chars().collect();
      if !cs.is_empty() {
        let i = rng.usize(cs.len());
        cs[i] = *rng.pick(&['0', 'f', '7', '8', 'A', 'g', ' ', '+']);
      }
      cs.into_iter().collect()
    }
    10 => "ff".repeat(21),
    _ => format!("{}{}", "日".repeat(7), "0".repeat(21)),
  }
}

fn request(rng: &mut Rng, cursors: &[String]) -> Value {
  let mut m = Map::new();
  m.insert("query".into(), if rng.chance(0.15) { json!(format!("{} {}", word(rng), word(rng))) } else { query(rng, 3) });
  m.insert("limit".into(), if rng.chance(0.15) { hostile_usize(rng) } else { json!(rng.urange(1, 12)) });
  m.insert("return_stored".into(), json!(rng.chance(0.5)));
  if rng.chance(0.2) {
    m.insert("fields".into(), Value::Array((0..rng.below(3)).map(|_| text_field(rng)).collect()));
  }
  if rng.chance(0.3) {
    m.insert("filter".into(), filter(rng, 3));
  }
  if rng.chance(0.1) {
    m.insert("return_hits".into(), json!(false));
  }
  if rng.chance(0.15) {
    m.insert("candidate_size".into(), hostile_usize(rng));
  }
  if rng.chance(0.35) {
    m.insert("sort".into(), sort(rng));
  }
  if rng.chance(0.25) {
    m.insert("cursor".into(), json!(cursor_strings(rng, cursors)));
  }
  if rng.chance(0.6) {
    m.insert("execution".into(), json!(["bm25", "wand", "bmw"][rng.usize(3)]));
  }
  if rng.chance(0.2) {
    m.insert("bmw_block_size".into(), hostile_usize(rng));
  }
  if rng.chance(0.2) {
    m.insert("fuzzy".into(), json!({"max_edits": ([0, 1, 2, 3, 255][rng.usize(5)]), "prefix_length": small_usize(rng), "max_expansions": hostile_usize(rng), "min_length": small_usize(rng)}));
  }
  if rng.chance(0.2) {
    m.insert("highlight_field".into(), text_field(rng));
  }
  if rng.chance(0.25) {
    let mut hf = Map::new();
    for _ in 0..rng.urange(1, 2) {
      hf.insert(
        text_field(rng).as_str().unwrap_or("body").to_string(),
        json!({"pre_tag": (["<em>", "", "(", "\\", "$1", "😀"][rng.usize(6)]), "post_tag": (["</em>", "", ")", "*", "["][rng.usize(5)]), "fragment_size": small_usize(rng), "number_of_fragments": small_usize(rng)}),
      );
    }
    m.insert("highlight".into(), json!({"fields": hf}));
  }
  if rng.chance(0.15) {
    let mut c = Map::new();
    c.insert("field".into(), if rng.chance(0.8) { json!("cat") } else { fast_field(rng) });
    if rng.chance(0.6) {
      c.insert("inner_hits".into(), json!({"size": small_usize(rng), "from": small_usize(rng), "sort": sort(rng)}));
    }
    m.insert("collapse".into(), Value::Object(c));
  }
  if rng.chance(0.35) {
    let mut a = Map::new();
    for i in 0..rng.urange(1, 3) {
      a.insert(format!("a{i}"), agg(rng, 2));
    }
    m.insert("aggs".into(), Value::Object(a));
  }
  if rng.chance(0.15) {
    m.insert("suggest".into(), json!({"s": {"type": "completion", "field": text_field(rng), "prefix": word(rng), "size": small_usize(rng), "fuzzy": if rng.chance(0.5) { json!({"max_edits": 2, "prefix_length": small_usize(rng)}) } else { Value::Null }}}));
  }
  if rng.chance(0.15) {
    if rng.chance(0.5) {
      // a rescore query that REJECTS a data-dependent subset of the window (min_score against a
      // field-valued function, or a script that is non-finite for some documents), on a request that
      // matches many documents: exercises the removal / re-sort bookkeeping after rejections
      let rq = if rng.chance(0.7) {
        json!({"type": "function_score", "query": {"type": "match_all"}, "functions": [{"type": "field_value_factor", "field": (["n", "x", "ts"][rng.usize(3)]), "missing": 0.0}],
          "boost_mode": "replace", "min_score": (rng.range(-10, 40) as f64)})
      } else {
        json!({"type": "script_score", "query": {"type": "match_all"}, "script": (["1 / (n - 3)", "log(n - 5)", "sqrt(x)", "n / (n - 7)", "1 / (x - x * (n - 2))"][rng.usize(5)])})
      };
      if rng.chance(0.7) {
        m.insert("query".into(), if rng.chance(0.5) { json!({"type": "match_all"}) } else { json!("rust") });
        m.insert("limit".into(), json!(rng.urange(2, 60)));
        m.remove("cursor");
      }
      m.insert("rescore".into(), json!({"window_size": (if rng.chance(0.8) { json!(rng.urange(2, 100)) } else { hostile_usize(rng) }), "query": rq, "score_mode": (["total", "multiply", "sum", "max", "min"][rng.usize(5)])}));
    } else {
      m.insert("rescore".into(), json!({"window_size": hostile_usize(rng), "query": query(rng, 2), "score_mode": (["total", "multiply", "sum", "max", "min"][rng.usize(5)])}));
    }
  }
  if rng.chance(0.2) {
    m.insert("explain".into(), json!(true));
  }
  if rng.chance(0.2) {
    m.insert("profile".into(), json!(true));
  }
  Value::Object(m)
}

fn mutate_text(rng: &mut Rng, s: &str) -> String {
  let mut cs: Vec<char> = s.chars().collect();
  for _ in 0..rng.urange(1, 3) {
    if cs.is_empty() {
      break;
    }
    let i = rng.usize(cs.len());
    match rng.below(6) {
      0 => {
        cs.remove(i);
      }
      1 => cs.insert(i, *rng.pick(&['0', '9', '-', '"', 'é', '😀', 'e', '.', '[', '{', ' '])),
      2 => cs[i] = *rng.pick(&['0', '1', '9', '-', 'e', '"', 'a', 'é']),
      3 => {
        // digit run -> huge number
        if cs[i].is_ascii_digit() {
          for _ in 0..rng.urange(1, 25) {
            cs.insert(i, '9');
          }
        }
      }
      4 => {
        let j = rng.usize(cs.len());
        cs.swap(i, j);
      }
      _ => {
        let j = (i + rng.urange(1, 12)).min(cs.len());
        cs.drain(i..j);
      }
    }
  }
  cs.into_iter().collect()
}

// ------------------------------------------------------------------ worker

fn worker(a: &[String]) -> i32 {
  vcore::ctx::install_panic_hook();
  let seed: u64 = a[0].parse().unwrap();
  let dir = std::path::PathBuf::from(&a[1]);
  let index = build(&dir, seed).expect("index");
  let reader: IndexReader = index.reader().expect("reader");
  let stdin = std::io::stdin();
  let mut out = std::io::stdout();
  // a few valid cursors for the parent's mutators
  let mut cursors = Vec::new();
  for req in [json!({"query": "rust", "limit": 1}), json!({"query": {"type": "match_all"}, "limit": 2, "sort": [{"field": "n", "order": "desc"}]})] {
    if let Ok(r) = idx::search(&reader, req) {
      if let Some(c) = r.next_cursor {
        cursors.push(c);
      }
    }
  }
  writeln!(out, "READY {}", serde_json::to_string(&cursors).unwrap()).unwrap();
  out.flush().unwrap();
  for line in stdin.lock().lines() {
    let Ok(line) = line else { break };
    let req: SearchRequest = match serde_json::from_str(&line) {
      Ok(r) => r,
      Err(_) => {
        writeln!(out, "NODESER").unwrap();
        out.flush().unwrap();
        continue;
      }
    };
    let r = vcore::ctx::catch(|| reader.search(&req));
    match r {
      Ok(Ok(res)) => writeln!(out, "OK {} {}", res.hits.len(), res.aggregations.len()).unwrap(),
      Ok(Err(_)) => writeln!(out, "ERR").unwrap(),
      Err(p) => writeln!(out, "PANIC {}", p.replace('\n', " ")).unwrap(),
    }
    out.flush().unwrap();
  }
  0
}

struct Worker {
  child: Child,
  stdin: ChildStdin,
  rx: Receiver<String>,
  cursors: Vec<String>,
}

fn spawn_worker(exe: &Path, seed: u64, dir: &Path, mem: u64) -> Option<Worker> {
  let mut cmd = Command::new(exe);
  cmd.arg("worker").arg(seed.to_string()).arg(dir).stdin(Stdio::piped()).stdout(Stdio::piped()).stderr(Stdio::null());
  sandbox::limit_memory(&mut cmd, mem);
  let mut child = cmd.spawn().ok()?;
  let stdin = child.stdin.take()?;
  let stdout = child.stdout.take()?;
  let (tx, rx) = channel();
  std::thread::spawn(move || {
    let r = BufReader::new(stdout);
    for l in r.lines() {
      match l {
        Ok(l) => {
          if tx.send(l).is_err() {
            break;
          }
        }
        Err(_) => break,
      }
    }
  });
  let first = rx.recv_timeout(Duration::from_secs(60)).ok()?;
  let cursors: Vec<String> = first.strip_prefix("READY ").and_then(|s| serde_json::from_str(s).ok()).unwrap_or_default();
  Some(Worker { child, stdin, rx, cursors })
}

enum Reply {
  Line(String),
  Died(String),
  Timeout,
  /// the wall-clock cap passed but the worker did not consume its CPU budget (starved machine)
  Stalled,
}

/// CPU seconds (user + system) consumed so far by process `pid` (Linux /proc, 100 ticks per second).
fn cpu_seconds(pid: u32) -> Option<f64> {
  let stat = std::fs::read_to_string(format!("/proc/{pid}/stat")).ok()?;
  let rest = stat.rsplit_once(')')?.1;
  let f: Vec<&str> = rest.split_whitespace().collect();
  // after the command name: state is field 0, utime field 11, stime field 12
  let ut: f64 = f.get(11)?.parse().ok()?;
  let st: f64 = f.get(12)?.parse().ok()?;
  Some((ut + st) / 100.0)
}

/// Like `ask`, but the bound is CPU time consumed by the worker, not wall-clock time: on a loaded
/// machine a request that is merely starved is not a hang. `Timeout` = the worker burnt `cpu_budget_s`
/// CPU seconds on this request without answering; `Stalled` = `wall_cap` passed first.
fn ask_cpu(w: &mut Worker, line: &str, cpu_budget_s: f64, wall_cap: Duration) -> Reply {
  let pid = w.child.id();
  let cpu0 = cpu_seconds(pid).unwrap_or(0.0);
  if writeln!(w.stdin, "{line}").is_err() || w.stdin.flush().is_err() {
    let st = w.child.wait().ok();
    return Reply::Died(format!("{st:?}"));
  }
  let t0 = std::time::Instant::now();
  loop {
    match w.rx.recv_timeout(Duration::from_millis(500)) {
      Ok(l) => return Reply::Line(l),
      Err(std::sync::mpsc::RecvTimeoutError::Timeout) => {
        let used = cpu_seconds(pid).map(|c| c - cpu0).unwrap_or(0.0);
        if used >= cpu_budget_s {
          return Reply::Timeout;
        }
        if t0.elapsed() > wall_cap {
          return Reply::Stalled;
        }
      }
      Err(_) => {
        let st = w.child.wait().ok();
        return Reply::Died(format!("{st:?}"));
      }
    }
  }
}

fn ask(w: &mut Worker, line: &str, timeout: Duration) -> Reply {
  if writeln!(w.stdin, "{line}").is_err() || w.stdin.flush().is_err() {
    let st = w.child.wait().ok();
    return Reply::Died(format!("{st:?}"));
  }
  match w.rx.recv_timeout(timeout) {
    Ok(l) => Reply::Line(l),
    Err(std::sync::mpsc::RecvTimeoutError::Timeout) => Reply::Timeout,
    Err(_) => {
      let st = w.child.wait().ok();
      Reply::Died(format!("{st:?}"))
    }
  }
}


fn year_ms(s: &str) -> Option<f64> {
  if let Ok(v) = s.parse::<f64>() {
    return Some(v);
  }
  let y: String = s.chars().take_while(|c| c.is_ascii_digit()).collect();
  if s.contains('T') && !y.is_empty() {
    return y.parse::<f64>().ok().map(|y| (y - 1970.0) * 3.15576e10);
  }
  None
}

fn interval_ms(s: &str) -> Option<f64> {
  let num: String = s.chars().take_while(|c| c.is_ascii_digit() || *c == '.').collect();
  let unit = &s[num.len()..];
  let n: f64 = num.parse().ok()?;
  let u = match unit {
    "ms" => 1.0,
    "" | "s" => 1e3,
    "m" => 6e4,
    "h" => 3.6e6,
    "d" => 8.64e7,
    "w" => 6.048e8,
    _ => return None,
  };
  Some(n * u)
}

/// Largest estimated bucket count of any histogram / date_histogram in the request.
fn bucket_estimate(aggs: &Value) -> f64 {
  let mut worst: f64 = 0.0;
  let Some(m) = aggs.as_object() else { return 0.0 };
  for (_k, a) in m {
    let ty = a.get("type").and_then(|t| t.as_str()).unwrap_or("");
    let field = a.get("field").and_then(|t| t.as_str()).unwrap_or("");
    let (mut lo, mut hi): (f64, f64) = match field {
      "n" => (-10.0, 50.0),
      "x" => (-143.0, 143.0),
      "ts" => (1.7e12, 1.7078e12),
      "c.k" => (0.0, 9.0),
      _ => (0.0, 0.0),
    };
    if ty == "histogram" {
      let iv = a.get("interval").and_then(|v| v.as_f64()).unwrap_or(1.0).abs();
      for key in ["extended_bounds", "hard_bounds"] {
        if let Some(b) = a.get(key) {
          if let (Some(x), Some(y)) = (b.get("min").and_then(|v| v.as_f64()), b.get("max").and_then(|v| v.as_f64())) {
            lo = lo.min(x);
            hi = hi.max(y);
          }
        }
      }
      if let Some(x) = a.get("missing").and_then(|v| v.as_f64()) {
        lo = lo.min(x);
        hi = hi.max(x);
      }
      if iv > 0.0 {
        worst = worst.max((hi - lo) / iv);
      }
    } else if ty == "date_histogram" {
      let cal = match a.get("calendar_interval").and_then(|v| v.as_str()) {
        Some("day") => Some(8.64e7f64),
        Some("week") => Some(6.048e8),
        Some("month") => Some(2.6e9),
        Some("quarter") => Some(7.8e9),
        Some("year") => Some(3.15e10),
        _ => None,
      };
      let fixed = a.get("fixed_interval").and_then(|v| v.as_str()).and_then(interval_ms);
      // whichever the engine picks, take the finer one (worst case)
      let iv: f64 = match (cal, fixed) {
        (Some(x), Some(y)) => f64::min(x, y),
        (Some(x), None) => x,
        (None, Some(y)) => y,
        (None, None) => 8.64e7,
      };
      for key in ["extended_bounds", "hard_bounds"] {
        if let Some(b) = a.get(key) {
          if let (Some(x), Some(y)) = (b.get("min").and_then(|v| v.as_str()).and_then(year_ms), b.get("max").and_then(|v| v.as_str()).and_then(year_ms)) {
            lo = lo.min(x);
            hi = hi.max(y);
          }
        }
      }
      if let Some(x) = a.get("missing").and_then(|v| v.as_str()).and_then(year_ms) {
        lo = lo.min(x);
        hi = hi.max(x);
      }
      if iv > 0.0 {
        worst = worst.max((hi - lo) / iv);
      }
    }
    if let Some(sub) = a.get("aggs") {
      worst = worst.max(bucket_estimate(sub));
    }
  }
  worst
}


/// Remove every histogram / date_histogram node (recursively); returns true if any was removed.
fn strip_histograms(aggs: &mut Value) -> bool {
  let mut removed = false;
  if let Some(m) = aggs.as_object_mut() {
    let keys: Vec<String> = m.keys().cloned().collect();
    for k in keys {
      let ty = m[&k].get("type").and_then(|t| t.as_str()).unwrap_or("").to_string();
      if ty == "histogram" || ty == "date_histogram" {
        m.remove(&k);
        removed = true;
      } else if let Some(sub) = m.get_mut(&k).and_then(|a| a.get_mut("aggs")) {
        if strip_histograms(sub) {
          removed = true;
        }
      }
    }
  }
  removed
}

fn panic_sig(p: &str) -> String {
  // file + message stem (digits removed): stable across unrelated edits
  let site = vcore::ctx::panic_site(p);
  let file = site.rsplit_once(':').map(|x| x.0).unwrap_or(&site).to_string();
  let msg = p.splitn(2, ": ").nth(1).unwrap_or("");
  let msg = msg.split("failed: ").last().unwrap_or(msg);
  let stem: Vec<String> = msg.split_whitespace().take(5).map(|w| w.chars().filter(|c| !c.is_ascii_digit()).collect::<String>()).collect();
  format!("panic:{file}:{}", stem.join(" "))
}


/// True when the request's trouble goes away once its histogram aggregations are removed.
fn explosion_by_intervention(wexe: &Path, seed: u64, dir: &Path, mem: u64, text: &str, bound_s: u64) -> bool {
  let mut stripped: Value = serde_json::from_str(text).unwrap_or(Value::Null);
  let had = stripped.get_mut("aggs").map(strip_histograms).unwrap_or(false);
  if !had {
    return false;
  }
  let Some(mut w3) = spawn_worker(wexe, seed, dir, mem) else { return false };
  let ok = matches!(ask(&mut w3, &stripped.to_string(), Duration::from_secs(bound_s)), Reply::Line(_));
  let _ = w3.child.kill();
  let _ = w3.child.wait();
  ok
}

fn feature_of(req: &Value) -> String {
  if bucket_estimate(req.get("aggs").unwrap_or(&Value::Null)) > 5e5 {
    return "histogram-bucket-explosion".into();
  }
  // coarse description of what scales the work (for hang / allocation signatures)
  let s = req.to_string();
  let mut f = Vec::new();
  for k in ["histogram", "date_histogram", "extended_bounds", "composite", "regex", "wildcard", "window_size", "fuzzy", "precision_threshold", "candidate_size", "moving_avg", "percentiles", "fragment_size", "number_of_fragments", "top_hits", "sampling"] {
    if s.contains(&format!("\"{k}\"")) {
      f.push(k);
    }
  }
  f.join("+")
}

fn main() {
  let args: Vec<String> = std::env::args().skip(1).collect();
  if args.first().map(|s| s.as_str()) == Some("worker") {
    std::process::exit(worker(&args[1..]));
  }
  let mut ctx = Ctx::from_args("C16", "exploration", &args);
  let quick = ctx.quick();
  ctx.rule = "requests are generated by (1) a structure-aware generator over every query/filter/sort/aggregation/highlight/collapse/rescore/suggest/fuzzy option with hostile scalars (0, usize::MAX, 1e308, subnormals, huge sizes), regex/wildcard/script/interval/cursor string corpora (incl. non-ASCII cursors at every alignment, valid hex of garbage JSON), and (2) char-level mutations of generated request JSON; a request counts only if serde_json deserialises it into SearchRequest. Each is executed by IndexReader::search in a worker process (2 GiB address-space limit) on a small 1-3 segment index with every field kind; bound 6 s (quick) / 20 s (thorough) wall-clock per request selects candidates; a candidate is re-run alone and counts as a hang only if the worker burns 10x the bound in CPU time (from /proc/<pid>/stat) on that one request without answering. Builds: release-like (`verif`) and, when present, debug-assertions (`verif-dbg`). evaluations = deserialised requests executed; distinct_nontrivial = distinct executed request texts.".into();
  ctx.assumptions = vec![
    "a request that does not deserialise is outside the property and is skipped (counted separately)".into(),
    "hang = no reply within the bound and, re-run alone on a <= 90-document index, no reply after 10x the bound of CPU time consumed by the worker; a worker that does not get that CPU time within 30 min (starved machine) or a hang that consumes no CPU would be inconclusive (the search path has no locks or blocking waits)".into(),
  ];
  let exe = sandbox::self_exe();
  // debug-assertions build of the same binary, if the driver built it
  let dbg_exe = {
    let p = exe.parent().and_then(|p| p.parent()).map(|p| p.join("verif-dbg").join("c16"));
    p.filter(|p| p.exists())
  };
  ctx.set("debug_assertions_build_present", json!(dbg_exe.is_some()));
  let t_req: u64 = if quick { 6 } else { 20 };
  let batches = ctx.n(32, 640);
  let per_batch = ctx.n(500, 3200) as usize;
  ctx.run_cases("batch", batches, |rng: &mut Rng, l: &mut Local, scratch| {
    let use_dbg = dbg_exe.is_some() && l.case_idx % 2 == 1;
    let wexe = if use_dbg { dbg_exe.clone().unwrap() } else { exe.clone() };
    let profile = if use_dbg { "verif-dbg" } else { "verif" };
    let index_seed = rng.below(6);
    let dir = scratch.join("w");
    let mem: u64 = 2 << 30;
    let Some(mut w) = spawn_worker(&wexe, index_seed, &dir, mem) else {
      l.inconclusive("cannot start worker");
      return;
    };
    let mut prev: Option<String> = None;
    let mut sent = 0;
    while sent < per_batch {
      sent += 1;
      let (text, family) = if prev.is_some() && rng.chance(0.3) {
        (mutate_text(rng, prev.as_ref().unwrap()), "mutated")
      } else {
        let v = request(rng, &w.cursors);
        (v.to_string(), "generated")
      };
      if text.contains('\n') {
        continue;
      }
      let reply = ask(&mut w, &text, Duration::from_secs(t_req));
      let case = |extra: Value| json!({"profile": profile, "index_seed": index_seed, "request": serde_json::from_str::<Value>(&text).unwrap_or(json!(text)), "raw": text, "extra": extra});
      match reply {
        Reply::Line(s) => {
          if s == "NODESER" {
            l.count("not_deserialisable", 1);
            continue;
          }
          l.eval();
          l.nontrivial(&text);
          l.count(&format!("executed[{family}][{profile}]"), 1);
          if family == "generated" {
            prev = Some(text.clone());
          }
          if s.starts_with("OK") {
            l.count("returned_ok", 1);
            if l.samples.len() < 2 && s != "OK 0 0" {
              l.sample(json!({"profile": profile, "request": serde_json::from_str::<Value>(&text).unwrap_or(Value::Null), "reply": s}));
            }
          } else if s == "ERR" {
            l.count("returned_err", 1);
          } else if let Some(p) = s.strip_prefix("PANIC ") {
            let dbg_only = p.contains("assertion") && use_dbg;
            l.fail(format!("{}{}", panic_sig(p), if dbg_only { ":debug-assertions" } else { "" }), format!("search panicked at {p}"), case(json!({"panic": p})));
          }
        }
        Reply::Died(st) => {
          l.eval();
          let mut feat = feature_of(&serde_json::from_str::<Value>(&text).unwrap_or(Value::Null));
          if feat != "histogram-bucket-explosion" && explosion_by_intervention(&wexe, index_seed, &dir, mem, &text, t_req * 10) {
            feat = "histogram-bucket-explosion".to_string();
          }
          l.fail(format!("worker-killed:{feat}"), format!("the search killed the worker process ({st}): abort or allocation beyond 2 GiB"), case(json!({"status": st})));
          match spawn_worker(&wexe, index_seed, &dir, mem) {
            Some(nw) => w = nw,
            None => {
              l.inconclusive("cannot restart worker");
              return;
            }
          }
        }
        Reply::Timeout | Reply::Stalled => {
          let _ = w.child.kill();
          let _ = w.child.wait();
          // A wall-clock timeout only selects a candidate. The verdict comes from re-running the request
          // alone with a CPU-time budget of 10x the bound: a hang is a worker that burns that much CPU
          // on one request of a <= 90-document index without answering. A starved machine gives
          // `Stalled` (inconclusive), never a violation.
          let verdict = match spawn_worker(&wexe, index_seed, &dir, mem) {
            None => None,
            Some(mut w2) => {
              let r = ask_cpu(&mut w2, &text, (t_req * 10) as f64, Duration::from_secs(1800));
              let _ = w2.child.kill();
              let _ = w2.child.wait();
              Some(r)
            }
          };
          let mut feat = feature_of(&serde_json::from_str::<Value>(&text).unwrap_or(Value::Null));
          match verdict {
            Some(Reply::Timeout) => {
              l.eval();
              if feat != "histogram-bucket-explosion" && explosion_by_intervention(&wexe, index_seed, &dir, mem, &text, t_req * 10) {
                feat = "histogram-bucket-explosion".to_string();
              }
              l.fail(format!("hang:{feat}"), format!("search did not return within {t_req} s nor, re-run alone, within {} s of CPU time", t_req * 10), case(json!(null)));
            }
            Some(Reply::Died(st)) => {
              l.eval();
              if feat != "histogram-bucket-explosion" && explosion_by_intervention(&wexe, index_seed, &dir, mem, &text, t_req * 10) {
                feat = "histogram-bucket-explosion".to_string();
              }
              l.fail(format!("worker-killed:{feat}"), format!("the search killed the worker process when re-run alone ({st})"), case(json!({"status": st})));
            }
            Some(Reply::Line(s)) => {
              l.eval();
              l.nontrivial(&text);
              l.count("slow_under_load_but_answered_alone", 1);
              let _ = s;
            }
            Some(Reply::Stalled) => l.inconclusive("request timed out and, re-run alone, the worker did not get its CPU budget within 30 min (starved machine)"),
            None => l.inconclusive("cannot restart worker after a timeout"),
          }
          match spawn_worker(&wexe, index_seed, &dir, mem) {
            Some(nw) => w = nw,
            None => return,
          }
        }
      }
    }
    let _ = w.child.kill();
    let _ = w.child.wait();
  });
  std::process::exit(ctx.finish());
}
