//! C03 — Storage errors leave committed state unchanged or fully applied.
//! Fault enumeration: every storage operation of every add/delete/commit/rollback/compact
//! call in generated histories is failed once, before or after its effect (thorough:
//! every ordered pair inside commit/rollback/compact); the content model decides.
use searchlite_core::api::{Index, IndexWriter};
use searchlite_core::storage::{DynFile, FsStorage, InMemoryStorage, Storage, StorageFile};
use serde_json::{json, Value};
use std::io::{Read, Seek, SeekFrom, Write};
use std::path::{Path, PathBuf};
use std::sync::atomic::{AtomicBool, AtomicUsize, Ordering};
use std::sync::{Arc, Mutex};
use vcheck::hist::{self, Call, HistCfg};
use vcore::gen::SchemaInfo;
use vcore::model::{self, Contents, Handle, Model};
use vcore::{idx, Ctx, Local, Rng};

#[derive(Default)]
struct FaultState {
  enabled: AtomicBool,
  counter: AtomicUsize,
  /// (operation index, fail-after-effect)
  plan: Mutex<Vec<(usize, bool)>>,
  /// labels of the operations that were failed in this run
  fired: Mutex<Vec<String>>,
  /// labels of all counted operations (only when tracing)
  trace: Mutex<Vec<String>>,
  tracing: AtomicBool,
}

#[derive(Clone, Copy, PartialEq)]
enum Decision {
  Pass,
  FailBefore,
  FailAfter,
}

impl FaultState {
  fn decide(&self, label: impl Fn() -> String) -> Decision {
    if !self.enabled.load(Ordering::SeqCst) {
      return Decision::Pass;
    }
    let n = self.counter.fetch_add(1, Ordering::SeqCst);
    if self.tracing.load(Ordering::SeqCst) {
      self.trace.lock().unwrap().push(label());
    }
    let plan = self.plan.lock().unwrap();
    for (i, after) in plan.iter() {
      if *i == n {
        self.fired.lock().unwrap().push(label());
        return if *after { Decision::FailAfter } else { Decision::FailBefore };
      }
    }
    Decision::Pass
  }
}

fn file_class(p: &Path) -> String {
  let name = p.file_name().map(|s| s.to_string_lossy().to_string()).unwrap_or_default();
  if name.starts_with("seg_") {
    match p.extension().and_then(|e| e.to_str()) {
      Some(e) => format!("seg.{e}"),
      None => "seg".into(),
    }
  } else {
    name
  }
}

fn injected() -> anyhow::Error {
  anyhow::anyhow!("injected storage fault")
}
fn injected_io() -> std::io::Error {
  std::io::Error::new(std::io::ErrorKind::Other, "injected storage fault")
}

struct FaultStorage {
  inner: Arc<dyn Storage>,
  st: Arc<FaultState>,
}

struct FaultFile {
  inner: DynFile,
  st: Arc<FaultState>,
  class: String,
}

macro_rules! fault_op {
  ($self:ident, $label:expr, $op:expr, $err:expr) => {{
    match $self.st.decide(|| $label) {
      Decision::Pass => $op,
      Decision::FailBefore => Err($err),
      Decision::FailAfter => {
        let _ = $op;
        Err($err)
      }
    }
  }};
}

impl Read for FaultFile {
  fn read(&mut self, buf: &mut [u8]) -> std::io::Result<usize> {
    fault_op!(self, format!("file.read({})", self.class), self.inner.read(buf), injected_io())
  }
}
impl Write for FaultFile {
  fn write(&mut self, buf: &[u8]) -> std::io::Result<usize> {
    fault_op!(self, format!("file.write({})", self.class), self.inner.write(buf), injected_io())
  }
  fn flush(&mut self) -> std::io::Result<()> {
    fault_op!(self, format!("file.flush({})", self.class), self.inner.flush(), injected_io())
  }
}
impl Seek for FaultFile {
  fn seek(&mut self, pos: SeekFrom) -> std::io::Result<u64> {
    fault_op!(self, format!("file.seek({})", self.class), self.inner.seek(pos), injected_io())
  }
}
impl StorageFile for FaultFile {
  fn set_len(&mut self, len: u64) -> anyhow::Result<()> {
    fault_op!(self, format!("file.set_len({})", self.class), self.inner.set_len(len), injected())
  }
  fn sync_all(&mut self) -> anyhow::Result<()> {
    fault_op!(self, format!("file.sync_all({})", self.class), self.inner.sync_all(), injected())
  }
}

impl FaultStorage {
  fn wrap(&self, f: DynFile, p: &Path) -> DynFile {
    Box::new(FaultFile { inner: f, st: self.st.clone(), class: file_class(p) })
  }
}

impl Storage for FaultStorage {
  fn root(&self) -> &Path {
    self.inner.root()
  }
  fn ensure_dir(&self, path: &Path) -> anyhow::Result<()> {
    fault_op!(self, "ensure_dir".to_string(), self.inner.ensure_dir(path), injected())
  }
  fn exists(&self, path: &Path) -> bool {
    self.inner.exists(path)
  }
  fn open_read(&self, path: &Path) -> anyhow::Result<DynFile> {
    let r = fault_op!(self, format!("open_read({})", file_class(path)), self.inner.open_read(path), injected());
    r.map(|f| self.wrap(f, path))
  }
  fn open_write(&self, path: &Path) -> anyhow::Result<DynFile> {
    let r = fault_op!(self, format!("open_write({})", file_class(path)), self.inner.open_write(path), injected());
    r.map(|f| self.wrap(f, path))
  }
  fn open_append(&self, path: &Path) -> anyhow::Result<DynFile> {
    let r = fault_op!(self, format!("open_append({})", file_class(path)), self.inner.open_append(path), injected());
    r.map(|f| self.wrap(f, path))
  }
  fn read_to_end(&self, path: &Path) -> anyhow::Result<Vec<u8>> {
    fault_op!(self, format!("read_to_end({})", file_class(path)), self.inner.read_to_end(path), injected())
  }
  fn write_all(&self, path: &Path, data: &[u8]) -> anyhow::Result<()> {
    fault_op!(self, format!("write_all({})", file_class(path)), self.inner.write_all(path, data), injected())
  }
  fn atomic_write(&self, path: &Path, data: &[u8]) -> anyhow::Result<()> {
    fault_op!(self, format!("atomic_write({})", file_class(path)), self.inner.atomic_write(path, data), injected())
  }
  fn remove(&self, path: &Path) -> anyhow::Result<()> {
    fault_op!(self, format!("remove({})", file_class(path)), self.inner.remove(path), injected())
  }
  fn remove_dir_all(&self, path: &Path) -> anyhow::Result<()> {
    fault_op!(self, "remove_dir_all".to_string(), self.inner.remove_dir_all(path), injected())
  }
}

struct Env {
  dir: PathBuf,
  st: Arc<FaultState>,
  storage: Arc<dyn Storage>,
  index: Index,
  opts: searchlite_core::api::types::IndexOptions,
}

fn new_env(dir: &Path, schema: &SchemaInfo, fs: bool) -> anyhow::Result<Env> {
  let _ = std::fs::remove_dir_all(dir);
  std::fs::create_dir_all(dir)?;
  let inner: Arc<dyn Storage> = if fs {
    Arc::new(FsStorage::new(dir.to_path_buf()))
  } else {
    Arc::new(InMemoryStorage::new(dir.to_path_buf()))
  };
  let st = Arc::new(FaultState::default());
  let storage: Arc<dyn Storage> = Arc::new(FaultStorage { inner, st: st.clone() });
  let opts = idx::opts(dir, !fs);
  let index = Index::create_with_storage(dir, idx::schema(&schema.to_json())?, opts.clone(), storage.clone())?;
  Ok(Env { dir: dir.to_path_buf(), st, storage, index, opts })
}

fn view_of(index: &Index) -> Result<std::collections::BTreeMap<String, Value>, String> {
  match vcore::ctx::catch(|| -> anyhow::Result<_> {
    let r = index.reader()?;
    idx::all_docs(&r)
  }) {
    Err(p) => Err(format!("panic:{}", vcore::ctx::panic_site(&p))),
    Ok(Err(e)) => Err(format!("error:{e:#}")),
    Ok(Ok(h)) => {
      let (v, d) = model::observed_view(&h);
      if !d.is_empty() {
        return Err(format!("duplicate ids {d:?}"));
      }
      Ok(v)
    }
  }
}

fn same(schema: &SchemaInfo, c: &Contents, v: &std::collections::BTreeMap<String, Value>) -> bool {
  model::diff_views(&model::expected_view(schema, c), v).is_none()
}

struct Outcome {
  ops: usize,
  fired: Vec<String>,
  problems: Vec<(String, String)>, // (symptom class, detail)
}

/// Run history[..=t] with faults `plan` active during call t only, then observe.
fn run_faulted(dir: &Path, schema: &SchemaInfo, fs: bool, calls: &[Call], t: usize, plan: &[(usize, bool)], double: bool) -> Result<Outcome, String> {
  let env = new_env(dir, schema, fs).map_err(|e| format!("setup: {e:#}"))?;
  let mut m = Model::default();
  let nh = 3;
  let mut mh: Vec<Option<Handle>> = vec![None; nh];
  let mut wh: Vec<Option<IndexWriter>> = (0..nh).map(|_| None).collect();
  let mut index = env.index;
  for c in calls.iter().take(t) {
    hist::model_step(&mut m, &mut mh, c);
    if let Call::Reopen = c {
      for w in wh.iter_mut() {
        *w = None;
      }
      index = Index::open_with_storage(env.opts.clone(), env.storage.clone()).map_err(|e| format!("healthy reopen: {e:#}"))?;
    } else {
      hist::engine_step(&index, &mut wh, c).map_err(|e| format!("healthy prefix call failed: {e:#}"))?;
    }
  }
  let c = &calls[t];
  let pre = m.committed.clone();
  let mut m_applied = m.clone();
  let mut mh_applied = mh.clone();
  hist::model_step(&mut m_applied, &mut mh_applied, c);
  let post = m_applied.committed.clone();
  // faulted call
  *env.st.plan.lock().unwrap() = plan.to_vec();
  env.st.counter.store(0, Ordering::SeqCst);
  env.st.fired.lock().unwrap().clear();
  env.st.enabled.store(true, Ordering::SeqCst);
  let res = vcore::ctx::catch(|| hist::engine_step(&index, &mut wh, c));
  env.st.enabled.store(false, Ordering::SeqCst);
  let ops = env.st.counter.load(Ordering::SeqCst);
  let fired = env.st.fired.lock().unwrap().clone();
  let mut problems: Vec<(String, String)> = Vec::new();
  let call_ok = match res {
    Err(p) => {
      problems.push((format!("panic:{}", vcore::ctx::panic_site(&p)), p));
      return Ok(Outcome { ops, fired, problems });
    }
    Ok(r) => r,
  };
  // observation 1: new reader on the same Index
  let v_same = view_of(&index);
  // observation 2: reopen from the same storage
  let reopened = vcore::ctx::catch(|| Index::open_with_storage(env.opts.clone(), env.storage.clone()));
  let v_reopen = match &reopened {
    Err(p) => Err(format!("panic:{}", vcore::ctx::panic_site(p))),
    Ok(Err(e)) => Err(format!("error:{e:#}")),
    Ok(Ok(i)) => view_of(i),
  };
  if let Err(e) = &v_reopen {
    problems.push(("unopenable-after-fault".into(), e.clone()));
  }
  if double {
    // for pairs only openability / no missing files / no panic is promised
    if let Err(e) = &v_same {
      if e.starts_with("panic") {
        problems.push(("reader-panic-after-fault".into(), e.clone()));
      }
    }
    return Ok(Outcome { ops, fired, problems });
  }
  if let Err(e) = &v_same {
    problems.push(("same-index-reader-fails".into(), e.clone()));
  }
  let changes_contents = pre != post;
  match &call_ok {
    Err(_) => {
      if let Ok(v) = &v_same {
        if !same(schema, &pre, v) {
          let applied = same(schema, &post, v);
          problems.push((
            if applied { "err-but-applied(same-index)".into() } else { "err-and-mixed(same-index)".into() },
            format!("expected pre-call contents; got {:?}", v.keys().collect::<Vec<_>>()),
          ));
        }
      }
      if let Ok(v) = &v_reopen {
        if !same(schema, &pre, v) {
          let applied = same(schema, &post, v);
          problems.push((
            if applied { "err-but-applied(reopen)".into() } else { "err-and-mixed(reopen)".into() },
            format!("expected pre-call contents; got {:?}", v.keys().collect::<Vec<_>>()),
          ));
        }
      }
      // retry with healthy storage must reach the fully-applied state
      if problems.is_empty() {
        let retry = vcore::ctx::catch(|| -> anyhow::Result<()> {
          hist::engine_step(&index, &mut wh, c)?;
          // add/delete/rollback become observable through a commit of that handle
          match c {
            Call::Add(h, ..) | Call::Delete(h, _) | Call::Rollback(h) => {
              wh[*h].as_mut().unwrap().commit()?;
            }
            _ => {}
          }
          Ok(())
        });
        let mut m2 = m_applied.clone();
        let mut mh2 = mh_applied.clone();
        match c {
          Call::Add(h, ..) | Call::Delete(h, _) | Call::Rollback(h) => hist::model_step(&mut m2, &mut mh2, &Call::Commit(*h)),
          _ => {}
        }
        match retry {
          Err(p) => problems.push((format!("retry-panic:{}", vcore::ctx::panic_site(&p)), p)),
          Ok(Err(e)) => problems.push(("retry-fails".into(), format!("{e:#}"))),
          Ok(Ok(())) => match view_of(&index) {
            Err(e) => problems.push(("retry-reader-fails".into(), e)),
            Ok(v) => {
              if !same(schema, &m2.committed, &v) {
                problems.push(("retry-not-fully-applied".into(), format!("got {:?} expected {:?}", v.keys().collect::<Vec<_>>(), m2.committed.keys().collect::<Vec<_>>())));
              }
            }
          },
        }
      }
    }
    Ok(()) => {
      if let Ok(v) = &v_same {
        if !same(schema, &post, v) {
          problems.push(("ok-but-not-applied(same-index)".into(), format!("got {:?}", v.keys().collect::<Vec<_>>())));
        }
      }
      if let Ok(v) = &v_reopen {
        if !same(schema, &post, v) {
          problems.push(("ok-but-not-applied(reopen)".into(), format!("got {:?}", v.keys().collect::<Vec<_>>())));
        }
      }
      // an absorbed fault must not poison later use: queued ops commit to the model state
      if problems.is_empty() {
        if let Call::Add(h, ..) | Call::Delete(h, _) = c {
          let r = vcore::ctx::catch(|| wh[*h].as_mut().unwrap().commit());
          let mut m2 = m_applied.clone();
          let mut mh2 = mh_applied.clone();
          hist::model_step(&mut m2, &mut mh2, &Call::Commit(*h));
          match r {
            Err(p) => problems.push((format!("followup-commit-panic:{}", vcore::ctx::panic_site(&p)), p)),
            Ok(Err(e)) => problems.push(("followup-commit-fails".into(), format!("{e:#}"))),
            Ok(Ok(())) => {
              if let Ok(v) = view_of(&index) {
                if !same(schema, &m2.committed, &v) {
                  problems.push(("followup-commit-wrong".into(), format!("got {:?}", v.keys().collect::<Vec<_>>())));
                }
              }
            }
          }
        }
      }
    }
  }
  let _ = changes_contents;
  let _ = &env.dir;
  Ok(Outcome { ops, fired, problems })
}

fn main() {
  let args: Vec<String> = std::env::args().skip(1).collect();
  let mut ctx = Ctx::from_args("C03", "fault_enumeration", &args);
  let quick = ctx.quick();
  ctx.rule = "for every add/delete/commit/rollback/compact call of each generated history: count its storage operations N on a fault-free run, then re-run the history from scratch failing operation i (0..N) before and after its effect (single faults exhaustive; thorough adds every ordered pair i<j inside commit/rollback/compact and a Filesystem-backed variant). evaluations = faulted executions judged against the content model. distinct_nontrivial = distinct (call kind, failing operation label, before/after, call outcome) combinations observed where the fault actually fired.".into();
  ctx.assumptions = vec![
    "faults are injected at the public Storage/StorageFile trait boundary (trait methods and every read/write/flush/seek/set_len/sync_all on returned files)".into(),
    "for double faults only what the property promises is judged: no panic, index re-openable, no reference to missing files".into(),
    "orphan files after a failed call are allowed; log messages are ignored".into(),
  ];
  ctx.exhaustive = false;
  let schema = hist::schema();
  let n = ctx.n(14, 60);
  ctx.run_cases("hist", n, |rng: &mut Rng, l: &mut Local, scratch| {
    let cfg = HistCfg {
      len: rng.urange(6, if quick { 14 } else { 20 }),
      ids: rng.urange(2, 5),
      max_handles: rng.urange(1, 2),
      p_commit: 0.22,
      p_rollback: 0.06,
      p_compact: 0.08,
      p_reopen: 0.03,
    };
    let calls = hist::gen_history(rng, &cfg);
    let fs = !quick && rng.chance(0.25);
    let dir = scratch.join("idx");
    let hist_json: Vec<Value> = calls.iter().map(|c| c.to_json()).collect();
    for (t, c) in calls.iter().enumerate() {
      if !matches!(c, Call::Add(..) | Call::Delete(..) | Call::Commit(_) | Call::Rollback(_) | Call::Compact) {
        continue;
      }
      // fault-free pass: number of storage operations of this call
      let base = match run_faulted(&dir, &schema, fs, &calls, t, &[], false) {
        Ok(o) => o,
        Err(e) => {
          l.inconclusive(format!("fault-free run failed: {e}"));
          return;
        }
      };
      if !base.problems.is_empty() {
        l.fail(
          format!("fault-free:{}:{}", c.kind(), base.problems[0].0),
          format!("fault-free execution already misbehaves: {:?}", base.problems[0]),
          json!({"calls": hist_json, "target": t}),
        );
        continue;
      }
      let n_ops = base.ops;
      l.count(&format!("ops_in[{}]", c.kind()), n_ops as u64);
      for i in 0..n_ops {
        for after in [false, true] {
          let o = match run_faulted(&dir, &schema, fs, &calls, t, &[(i, after)], false) {
            Ok(o) => o,
            Err(e) => {
              l.inconclusive(format!("setup failed: {e}"));
              continue;
            }
          };
          l.eval();
          if o.fired.is_empty() {
            continue;
          }
          let label = o.fired[0].clone();
          l.nontrivial(&(c.kind(), &label, after, o.problems.is_empty()));
          if l.samples.len() < 3 && i == n_ops / 2 {
            l.sample(json!({"calls": hist_json.iter().take(t + 1).collect::<Vec<_>>(), "faulted_call": t, "failed_operation": label, "after_effect": after, "storage_ops_in_call": n_ops}));
          }
          for (sym, detail) in o.problems.iter() {
            l.fail(
              format!("{}:{}:{}:{}", c.kind(), sym, label, if after { "after" } else { "before" }),
              format!("{} with storage op #{i} `{label}` failing {} its effect: {sym}: {detail}", c.kind(), if after { "after" } else { "before" }),
              json!({"storage": if fs {"Filesystem"} else {"InMemory"}, "calls": hist_json.iter().take(t + 1).collect::<Vec<_>>(), "faulted_call": t, "fault": {"op_index": i, "label": label, "after_effect": after}}),
            );
          }
          // pairs (thorough): second fault j > i inside the same call
          if !quick && matches!(c, Call::Commit(_) | Call::Rollback(_) | Call::Compact) {
            let mut j = i + 1;
            loop {
              let mut reached = false;
              for after2 in [false, true] {
                let o2 = match run_faulted(&dir, &schema, fs, &calls, t, &[(i, after), (j, after2)], true) {
                  Ok(o) => o,
                  Err(_) => continue,
                };
                if o2.ops > j {
                  reached = true;
                }
                if o2.fired.len() < 2 {
                  continue;
                }
                l.eval();
                l.count("double_fault_runs", 1);
                l.nontrivial(&(c.kind(), &o2.fired[0], &o2.fired[1], after, after2));
                for (sym, detail) in o2.problems.iter() {
                  l.fail(
                    format!("double:{}:{}:{}+{}", c.kind(), sym, o2.fired[0], o2.fired[1]),
                    format!("{} with `{}` then `{}` failing: {sym}: {detail}", c.kind(), o2.fired[0], o2.fired[1]),
                    json!({"storage": if fs {"Filesystem"} else {"InMemory"}, "calls": hist_json.iter().take(t + 1).collect::<Vec<_>>(), "faulted_call": t,
                      "faults": [{"op_index": i, "after_effect": after, "label": o2.fired[0]}, {"op_index": j, "after_effect": after2, "label": o2.fired[1]}]}),
                  );
                }
              }
              if !reached || j > i + 400 {
                break;
              }
              j += 1;
            }
          }
        }
      }
    }
    let _ = std::fs::remove_dir_all(&dir);
  });
  std::process::exit(ctx.finish());
}
