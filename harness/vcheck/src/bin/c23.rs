//! C23 — HTTP writes acknowledged as queued are never silently dropped.
//! A real `searchlite-http` process (built from the working tree) is driven with generated
//! sequences of /init, /add (NDJSON), /bulk, /delete, /commit, /refresh, /compact, /search —
//! valid and invalid — and a queue model at the client boundary decides: 2xx writes append
//! to the queue, non-2xx writes append nothing, 2xx /commit applies the queue in order.
use serde_json::{json, Value};
use std::collections::BTreeMap;
use std::time::Duration;
use vcheck::http::{self, Server};
use vcore::{Ctx, Local, Rng};

fn schema() -> Value {
  json!({
    "doc_id_field": "_id",
    "text_fields": [{"name": "body", "analyzer": "default", "stored": true, "indexed": true}],
    "keyword_fields": [{"name": "tag", "stored": true, "indexed": true, "fast": true, "nullable": true}],
    "numeric_fields": [{"name": "n", "i64": true, "fast": true, "stored": true, "nullable": true}]
  })
}

#[derive(Clone, Debug)]
enum QOp {
  Add(String, String), // id, body
  Del(String),
}

/// ids that are unusual but that nothing documents as invalid: whichever way the service
/// answers them (queued or rejected) is accepted; what is judged is the queue afterwards
const ODD_IDS: &[&str] = &["a ", " a", "a\tb", "x y", "é", "日本", "a/b", "..", "A", "-1", "0", "null", "a\u{00a0}", "b\n", "\u{feff}c", " d ", "e\u{0000}", "\rf"];

fn valid_doc(rng: &mut Rng, ids: usize, version: &mut u64) -> (Value, QOp) {
  let id = format!("d{}", rng.usize(ids));
  *version += 1;
  let body = format!("v{} {}", *version, vcore::gen::sentence(rng, 1, 4));
  let mut d = json!({"_id": id, "body": body});
  if rng.chance(0.5) {
    d["tag"] = json!(rng.pick(vcore::gen::TAGS));
  }
  if rng.chance(0.5) {
    d["n"] = json!(rng.range(0, 50));
  }
  (d, QOp::Add(id, body))
}

/// A document the service must reject (each is a schema violation named by C15/C23).
fn invalid_doc(rng: &mut Rng) -> (String, &'static str) {
  match rng.below(6) {
    0 => (json!({"body": "no id"}).to_string(), "missing-id"),
    1 => (json!({"_id": "   ", "body": "blank id"}).to_string(), "blank-id"),
    2 => (json!({"_id": "x1", "body": 5}).to_string(), "wrong-type-text"),
    3 => (json!({"_id": "x2", "body": "b", "n": "seven"}).to_string(), "wrong-type-number"),
    4 => ("{\"_id\": \"x3\", \"body\": ".to_string(), "malformed-json"),
    _ => (json!({"_id": 7, "body": "numeric id"}).to_string(), "non-string-id"),
  }
}

struct Sent {
  path: String,
  desc: Value,
  status: Option<u16>,
}

fn main() {
  let args: Vec<String> = std::env::args().skip(1).collect();
  let mut ctx = Ctx::from_args("C23", "exploration", &args);
  let quick = ctx.quick();
  ctx.rule = "each sequence drives a freshly started searchlite-http process on an empty directory: /init, then 12-60 requests drawn from /add (NDJSON; all-valid, or one invalid line at a random position, or malformed JSON), /bulk (same), /delete (valid ids / whitespace-only or control-character ids), /commit, /refresh, /compact, /search, with occasional server restarts between acknowledged writes and the commit; unique bodies per document version. After every 2xx /commit, /search match_all (stored, big limit) must equal the queue model. evaluations = post-commit comparisons + per-request status judgements; a sequence is non-trivial when at least one rejected write request follows an acknowledged, not yet committed write; distinct by hash of the request sequence.".into();
  ctx.assumptions = vec![
    "the client boundary is the oracle's boundary: 2xx /add,/bulk,/delete => queued; non-2xx => nothing of that request queued; 2xx /commit => queue applied in order".into(),
    "documents with unknown fields are not sent (their acceptance is C15's subject)".into(),
  ];
  if !http::repo_bin("searchlite-http").exists() {
    eprintln!("searchlite-http binary missing (pre-build step did not run)");
    std::process::exit(2);
  }
  ctx.threads = ctx.threads.min(8);
  let n = ctx.n(48, 1500);
  ctx.run_cases("seq", n, |rng: &mut Rng, l: &mut Local, scratch| {
    let dir = scratch.join("idx");
    let _ = std::fs::remove_dir_all(&dir);
    std::fs::create_dir_all(&dir).unwrap();
    let mut server: Server = match http::start_server(&dir, &[]) {
      Ok(s) => s,
      Err(e) => {
        l.inconclusive(format!("server start: {e}"));
        return;
      }
    };
    let mut log: Vec<Sent> = Vec::new();
    let mut model: BTreeMap<String, String> = BTreeMap::new();
    let mut queue: Vec<QOp> = Vec::new();
    let mut version = 0u64;
    let ids = rng.urange(3, 8);
    let mut nontrivial = false;
    let case = |log: &Vec<Sent>, extra: Value| json!({"requests": log.iter().map(|s| json!({"path": s.path, "what": s.desc, "status": s.status})).collect::<Vec<_>>(), "extra": extra});
    let send = |server: &Server, path: &str, ct: Option<&str>, body: &[u8]| -> Option<http::Resp> { http::request(server.addr, if path == "/healthz" { "GET" } else { "POST" }, path, ct, body, Duration::from_secs(60)).ok().flatten() };
    // init
    let r = send(&server, "/init", Some("application/json"), schema().to_string().as_bytes());
    log.push(Sent { path: "/init".into(), desc: json!("schema"), status: r.as_ref().map(|r| r.status) });
    if r.map(|r| r.status) != Some(200) {
      l.fail("init-fails", "POST /init with a valid schema did not return 200", case(&log, json!(null)));
      return;
    }
    let steps = rng.urange(12, if quick { 36 } else { 60 });
    for _ in 0..steps {
      let k = rng.below(100);
      if k < 30 || k >= 92 {
        // /add or /bulk
        let bulk = rng.chance(0.4);
        let n_docs = rng.urange(1, 4);
        let mut docs: Vec<(String, Option<QOp>)> = Vec::new();
        for _ in 0..n_docs {
          let (d, op) = valid_doc(rng, ids, &mut version);
          docs.push((d.to_string(), Some(op)));
        }
        let mut either = false;
        if rng.chance(0.25) {
          // one document with an unusual id: accepted or rejected, both fine
          let k = rng.usize(docs.len());
          let odd = ODD_IDS[rng.usize(ODD_IDS.len())];
          let mut v: Value = serde_json::from_str(&docs[k].0).unwrap();
          v["_id"] = json!(odd);
          let body = v["body"].as_str().unwrap_or("").to_string();
          docs[k] = (v.to_string(), Some(QOp::Add(odd.to_string(), body)));
          either = true;
        }
        let mut invalid: Option<&'static str> = None;
        if !either && rng.chance(0.35) {
          let (bad, label) = invalid_doc(rng);
          let label = if bulk && label == "malformed-json" { "malformed-json" } else { label };
          let pos = rng.usize(docs.len() + 1);
          docs.insert(pos, (bad, None));
          invalid = Some(label);
        }
        let (path, ct, body) = if bulk {
          let joined = docs.iter().map(|d| d.0.clone()).collect::<Vec<_>>().join(",");
          ("/bulk", "application/json", format!("{{\"docs\":[{joined}]}}"))
        } else {
          ("/add", "application/x-ndjson", docs.iter().map(|d| d.0.clone()).collect::<Vec<_>>().join("\n") + "\n")
        };
        let r = send(&server, path, Some(ct), body.as_bytes());
        let st = r.as_ref().map(|r| r.status);
        log.push(Sent { path: path.into(), desc: json!({"docs": docs.iter().map(|d| serde_json::from_str::<Value>(&d.0).unwrap_or(json!(d.0))).collect::<Vec<_>>(), "invalid": invalid}), status: st });
        l.eval();
        match (st, invalid) {
          (None, _) => {
            l.fail("no-response", format!("{path} got no response"), case(&log, json!(null)));
            return;
          }
          (Some(s), None) if (200..300).contains(&s) => {
            let queued = r.as_ref().and_then(|r| r.json()).and_then(|v| v.get("queued").and_then(|q| q.as_u64()));
            if queued != Some(n_docs as u64) {
              l.fail("ack-count-wrong", format!("{path} acknowledged {queued:?} of {n_docs} documents"), case(&log, json!(null)));
            }
            if either {
              l.count("odd_id_requests_accepted", 1);
            }
            for d in docs.iter() {
              if let Some(op) = &d.1 {
                queue.push(op.clone());
              }
            }
          }
          (Some(s), None) if either && (400..500).contains(&s) => {
            // rejected as a whole: nothing of it may be queued (model unchanged)
            l.count("odd_id_requests_rejected", 1);
            if !queue.is_empty() {
              nontrivial = true;
            }
          }
          (Some(s), None) => {
            l.fail(format!("valid-write-rejected:{path}:{s}"), format!("{path} with only valid documents returned {s}: {:?}", r.as_ref().map(|r| String::from_utf8_lossy(&r.body).to_string())), case(&log, json!(null)));
            return;
          }
          (Some(s), Some(label)) if (200..300).contains(&s) => {
            l.fail(format!("invalid-document-acknowledged:{label}"), format!("{path} containing a {label} document returned {s}"), case(&log, json!(null)));
            return;
          }
          (Some(_), Some(_)) => {
            // rejected: nothing of this request may be queued (model: no change)
            if !queue.is_empty() {
              nontrivial = true;
            }
          }
        }
      } else if k < 45 {
        let bad = rng.chance(0.25);
        let ids_v: Vec<String> = if bad {
          vec![format!("d{}", rng.usize(ids)), ["   ", "a\u{0007}b", ""][rng.usize(3)].to_string()]
        } else {
          (0..rng.urange(1, 2)).map(|_| format!("d{}", rng.usize(ids))).collect()
        };
        let r = send(&server, "/delete", Some("application/json"), json!({"ids": ids_v}).to_string().as_bytes());
        let st = r.as_ref().map(|r| r.status);
        log.push(Sent { path: "/delete".into(), desc: json!({"ids": ids_v, "invalid": bad}), status: st });
        l.eval();
        match st {
          None => {
            l.fail("no-response", "/delete got no response", case(&log, json!(null)));
            return;
          }
          Some(s) if (200..300).contains(&s) => {
            if bad {
              l.fail("invalid-delete-acknowledged", format!("/delete with ids {ids_v:?} returned {s}"), case(&log, json!(null)));
              return;
            }
            for i in ids_v {
              queue.push(QOp::Del(i));
            }
          }
          Some(s) => {
            if !bad {
              l.fail(format!("valid-delete-rejected:{s}"), format!("/delete {ids_v:?} returned {s}"), case(&log, json!(null)));
              return;
            }
            if !queue.is_empty() {
              nontrivial = true;
            }
          }
        }
      } else if k < 70 {
        let r = send(&server, "/commit", None, b"");
        let st = r.as_ref().map(|r| r.status);
        log.push(Sent { path: "/commit".into(), desc: json!({"queue_len": queue.len()}), status: st });
        match st {
          Some(s) if (200..300).contains(&s) => {
            for op in queue.drain(..) {
              match op {
                QOp::Add(id, body) => {
                  model.insert(id, body);
                }
                QOp::Del(id) => {
                  model.remove(&id);
                }
              }
            }
            // compare
            let r = send(&server, "/search", Some("application/json"), json!({"query": {"type": "match_all"}, "limit": 10000, "return_stored": true, "execution": "bm25"}).to_string().as_bytes());
            l.eval();
            let Some(r) = r else {
              l.fail("no-response", "/search got no response", case(&log, json!(null)));
              return;
            };
            if r.status != 200 {
              l.fail("search-fails-after-commit", format!("/search returned {} after a successful commit: {}", r.status, String::from_utf8_lossy(&r.body)), case(&log, json!(null)));
              return;
            }
            let v = r.json().unwrap_or(Value::Null);
            let mut obs: BTreeMap<String, String> = BTreeMap::new();
            let mut dup = false;
            for h in v.get("hits").and_then(|h| h.as_array()).cloned().unwrap_or_default() {
              let id = h.get("doc_id").and_then(|x| x.as_str()).unwrap_or("").to_string();
              let body = h.get("fields").and_then(|f| f.get("body")).and_then(|x| x.as_str()).unwrap_or("").to_string();
              if obs.insert(id, body).is_some() {
                dup = true;
              }
            }
            if dup {
              l.fail("duplicate-ids-after-commit", "match_all returned a document id twice", case(&log, json!({"observed": obs})));
              return;
            }
            if obs != model {
              // classify: were the lost operations acknowledged before a later rejected write of the same epoch?
              let lost: Vec<&String> = model.iter().filter(|(k, v)| obs.get(*k) != Some(v)).map(|(k, _)| k).collect();
              let extra: Vec<&String> = obs.keys().filter(|k| !model.contains_key(*k)).collect();
              let mut rejected_after_ack = false;
              let mut seen_ack = false;
              for s in log.iter().rev().skip(1) {
                // walk back over the commit epoch that just ended
                if s.path == "/commit" && s.status.map(|x| (200..300).contains(&x)).unwrap_or(false) {
                  break;
                }
                let is_write = s.path == "/add" || s.path == "/bulk" || s.path == "/delete";
                if is_write {
                  let ok = s.status.map(|x| (200..300).contains(&x)).unwrap_or(false);
                  if !ok && (s.path == "/add" || s.path == "/bulk") {
                    rejected_after_ack = true; // seen first when walking backwards = later in time
                  } else if ok && rejected_after_ack {
                    seen_ack = true;
                  }
                }
              }
              let sig = if rejected_after_ack && seen_ack { "acknowledged-writes-dropped-by-later-rejected-add-or-bulk" } else { "committed-contents-differ-from-queue-model" };
              l.fail(sig, format!("after /commit the index differs from the acknowledged queue: lost/stale {lost:?}, unexpected {extra:?}"), case(&log, json!({"expected": model, "observed": obs})));
              return;
            }
          }
          Some(s) => {
            l.fail(format!("commit-fails:{s}"), format!("/commit returned {s}: {:?}", r.as_ref().map(|r| String::from_utf8_lossy(&r.body).to_string())), case(&log, json!(null)));
            return;
          }
          None => {
            l.fail("no-response", "/commit got no response", case(&log, json!(null)));
            return;
          }
        }
      } else if k < 78 {
        let p = if rng.chance(0.5) { "/refresh" } else { "/compact" };
        let r = send(&server, p, None, b"");
        let st = r.as_ref().map(|r| r.status);
        log.push(Sent { path: p.into(), desc: json!(null), status: st });
        if st.map(|s| !(200..300).contains(&s)).unwrap_or(true) {
          l.fail(format!("maintenance-fails:{p}"), format!("{p} returned {st:?}"), case(&log, json!(null)));
          return;
        }
      } else if k < 86 {
        // uncommitted operations must stay invisible
        let r = send(&server, "/search", Some("application/json"), json!({"query": {"type": "match_all"}, "limit": 10000, "return_stored": true}).to_string().as_bytes());
        log.push(Sent { path: "/search".into(), desc: json!("match_all"), status: r.as_ref().map(|r| r.status) });
        l.eval();
        if let Some(r) = r {
          if r.status == 200 {
            let v = r.json().unwrap_or(Value::Null);
            let mut obs: BTreeMap<String, String> = BTreeMap::new();
            for h in v.get("hits").and_then(|h| h.as_array()).cloned().unwrap_or_default() {
              obs.insert(h.get("doc_id").and_then(|x| x.as_str()).unwrap_or("").to_string(), h.get("fields").and_then(|f| f.get("body")).and_then(|x| x.as_str()).unwrap_or("").to_string());
            }
            if obs != model {
              l.fail("uncommitted-writes-visible-or-committed-lost", "match_all between commits differs from the committed model", case(&log, json!({"expected": model, "observed": obs})));
              return;
            }
          }
        }
      } else {
        // restart the server: acknowledged writes live in the log and must survive
        server.stop();
        log.push(Sent { path: "(restart)".into(), desc: json!({"queue_len": queue.len()}), status: None });
        match http::start_server(&dir, &[]) {
          Ok(s) => server = s,
          Err(e) if e.starts_with("slow:") => {
            l.inconclusive(format!("restart: {e}"));
            return;
          }
          Err(e) => {
            l.fail("restart-fails", format!("server does not come back on the same directory: {e}"), case(&log, json!(null)));
            return;
          }
        }
        l.count("restarts", 1);
      }
    }
    if !server.alive() {
      l.fail("server-died", "the server process exited during the sequence", case(&log, json!(null)));
    }
    l.count("requests", log.len() as u64);
    if nontrivial {
      let text: Vec<String> = log.iter().map(|s| format!("{}:{}:{:?}", s.path, s.desc, s.status)).collect();
      l.nontrivial(&text);
    }
    if l.samples.is_empty() {
      l.sample(case(&log, json!({"final_model": model})));
    }
    server.stop();
    let _ = std::fs::remove_dir_all(&dir);
  });
  std::process::exit(ctx.finish());
}
