//! C07 — Query matching follows the documented query semantics.
//! Oracle: an independent three-valued boolean evaluator over analyzed field contents
//! (tokenisation through the engine's PUBLIC analyzers only) compared with the id set
//! returned by `search(execution=bm25, limit=big)`.
#[path = "../shared/c07_model.rs"]
mod c07_model;
#[path = "../shared/c07_gen.rs"]
mod c07_gen;

use c07_gen::*;
use c07_model::*;
use searchlite_core::api::Index;
use serde_json::{json, Value};
use std::collections::{BTreeMap, BTreeSet};
use std::path::Path;
use vcore::{idx, Ctx, Local, Rng};

pub const SIG_D1: &str = "missing-docs-lacking-every-scored-term";
pub const SIG_D2: &str = "wildcard-regex-pattern-collapsed-to-single-analyzed-token";
pub const SIG_D3: &str = "regex-literal-prefix-overreach";

struct Built {
  index: Index,
  live: BTreeMap<String, Value>,
  segments_hint: usize,
}

fn build_index(dir: &Path, sch: &Sch, hist: &Hist) -> anyhow::Result<Built> {
  let _ = std::fs::remove_dir_all(dir);
  std::fs::create_dir_all(dir)?;
  let schema = idx::schema(&sch.json)?;
  let index = Index::create(dir, schema, idx::opts(dir, true))?;
  let mut live: BTreeMap<String, Value> = BTreeMap::new();
  let mut commits = 0usize;
  {
    let mut w = index.writer()?;
    for c in hist.commits.iter() {
      if c.is_empty() {
        continue;
      }
      for op in c.iter() {
        match op {
          Op::Add(d) => {
            w.add_document(&idx::doc(d))?;
            live.insert(d["_id"].as_str().unwrap().to_string(), d.clone());
          }
          Op::Del(id) => {
            w.delete_document(id)?;
            live.remove(id);
          }
        }
      }
      w.commit()?;
      commits += 1;
    }
  }
  if hist.compact {
    index.compact()?;
    commits = 1;
  }
  Ok(Built { index, live, segments_hint: commits })
}

struct Outcome {
  missing: Vec<String>,
  unexpected: Vec<String>,
  lo: BTreeSet<String>,
  hi: BTreeSet<String>,
  engine: BTreeSet<String>,
  dup: bool,
}

fn oracle_sets(env: &Env, q: &Q, views: &[DocView]) -> (BTreeSet<String>, BTreeSet<String>) {
  let mut lo = BTreeSet::new();
  let mut hi = BTreeSet::new();
  for d in views.iter() {
    let t = eval(env, q, d);
    if t.lo {
      lo.insert(d.id.clone());
    }
    if t.hi {
      hi.insert(d.id.clone());
    }
  }
  (lo, hi)
}

fn run_engine(reader: &searchlite_core::api::IndexReader, rq: &Req) -> Result<(BTreeSet<String>, bool), String> {
  let body = rq.to_json();
  match vcore::ctx::catch(|| idx::search(reader, body)) {
    Err(p) => Err(format!("panic:{}", vcore::ctx::panic_site(&p))),
    Ok(Err(e)) => Err(format!("api-error:{}", short(&format!("{e:#}")))),
    Ok(Ok(res)) => {
      let ids = idx::ids(&res);
      let set: BTreeSet<String> = ids.iter().cloned().collect();
      Ok((set.clone(), set.len() != ids.len()))
    }
  }
}

fn short(s: &str) -> String {
  s.chars().filter(|c| c.is_ascii_alphabetic() || *c == ' ').take(40).collect::<String>().trim().replace(' ', "-")
}

fn compare(env: &Env, rq: &Req, views: &[DocView], engine: &BTreeSet<String>) -> Outcome {
  let (lo, hi) = oracle_sets(env, &rq.q, views);
  let missing: Vec<String> = lo.difference(engine).cloned().collect();
  let unexpected: Vec<String> = engine.difference(&hi).cloned().collect();
  Outcome { missing, unexpected, lo, hi, engine: engine.clone(), dup: false }
}

/// Root-cause classification by defect emulation: the smallest set of hypothesised defects under
/// which the oracle agrees with the engine. Empty vec = cannot be attributed.
fn classify(sch: &Sch, an: &Analyzers, rq: &Req, views: &[DocView], engine: &BTreeSet<String>, reader: &searchlite_core::api::IndexReader) -> Vec<&'static str> {
  let combos: [(bool, bool, bool); 7] = [
    (false, false, true),
    (true, false, false),
    (false, true, false),
    (true, false, true),
    (false, true, true),
    (true, true, false),
    (true, true, true),
  ];
  let wildcard_collapse = rq.q.any(&|n| matches!(n, Q::Wildcard { .. }) && n.collapses(sch, an));
  let mut regex_collapse = rq.q.any(&|n| matches!(n, Q::Regex { .. }) && n.collapses(sch, an));
  if regex_collapse {
    // D2 and D3 can produce the same hit set for a regex (`rust?` -> exact `rust` vs candidates
    // restricted to prefix `rust`). Ask the engine again with collapse-proof patterns (`rust?.{0}`
    // accepts the same strings but is never reduced to one token); if nothing changes, the collapse of
    // regex patterns is not what is observed here.
    let mut probe = rq.clone();
    probe.q = rq.q.collapse_proof(sch, an);
    if probe.q != rq.q {
      if let Ok((res, _)) = run_engine(reader, &probe) {
        if res == *engine {
          regex_collapse = false;
        }
      }
    }
  }
  let has_collapse = wildcard_collapse || regex_collapse;
  let has_overreach = rq.q.any(&|n| n.prefix_overreach(sch, an, false) || n.prefix_overreach(sch, an, true));
  for (d2, d3, d1) in combos {
    if (d2 && !has_collapse) || (d3 && !has_overreach) {
      continue;
    }
    let env = Env { sch, an, default_fields: rq.default_fields(sch), fuzzy: rq.fuzzy.clone(), emu_collapse: d2, emu_prefix: d3, emu_collapse_regex: regex_collapse };
    let o = compare(&env, rq, views, engine);
    let ok = if d1 {
      // D1 predicate: nothing unexpected; the query has scored term leaves; every missing document
      // is not known to contain any of them.
      o.unexpected.is_empty()
        && rq.q.has_scored_leaf(true)
        && o.missing.iter().all(|id| {
          let d = views.iter().find(|v| &v.id == id).unwrap();
          !scored_any(&env, &rq.q, d).lo
        })
    } else {
      o.missing.is_empty() && o.unexpected.is_empty()
    };
    if ok {
      // the emulated defects must each be necessary: drop flags whose removal still explains it is
      // guaranteed by the ordering (smaller sets are tried first).
      let mut v = Vec::new();
      if d1 {
        v.push(SIG_D1);
      }
      if d2 {
        v.push(SIG_D2);
      }
      if d3 {
        v.push(SIG_D3);
      }
      return v;
    }
  }
  Vec::new()
}

struct Case<'a> {
  sch: &'a Sch,
  an: &'a Analyzers,
  hist: Hist,
}

/// Re-run (rebuild + search + compare) one request on one history; returns the classification or None when it agrees.
fn recheck(dir: &Path, c: &Case, rq: &Req) -> Option<(Vec<&'static str>, Outcome)> {
  let b = build_index(dir, c.sch, &c.hist).ok()?;
  let reader = b.index.reader().ok()?;
  let views: Vec<DocView> = b.live.values().map(|d| DocView::build(c.sch, c.an, d)).collect();
  let (engine, _) = run_engine(&reader, rq).ok()?;
  let env = Env { sch: c.sch, an: c.an, default_fields: rq.default_fields(c.sch), fuzzy: rq.fuzzy.clone(), emu_collapse: false, emu_prefix: false, emu_collapse_regex: true };
  let o = compare(&env, rq, &views, &engine);
  if o.missing.is_empty() && o.unexpected.is_empty() {
    return None;
  }
  Some((classify(c.sch, c.an, rq, &views, &engine, &reader), o))
}

fn minimise(dir: &Path, sch: &Sch, an: &Analyzers, hist: &Hist, rq: &Req, sigs: &[&'static str]) -> (Hist, Req) {
  let mut cur_h = hist.clone();
  let mut cur_q = rq.clone();
  let mut budget = 120i32;
  let same = |h: &Hist, r: &Req, budget: &mut i32| -> bool {
    *budget -= 1;
    let c = Case { sch, an, hist: h.clone() };
    match recheck(dir, &c, r) {
      Some((s, _)) => s == sigs,
      None => false,
    }
  };
  // 1. query
  let mut changed = true;
  while changed && budget > 0 {
    changed = false;
    for cand in cur_q.q.shrinks() {
      if budget <= 0 {
        break;
      }
      let mut r = cur_q.clone();
      r.q = cand;
      if same(&cur_h, &r, &mut budget) {
        cur_q = r;
        changed = true;
        break;
      }
    }
  }
  if cur_q.fields.is_some() && budget > 0 {
    let mut r = cur_q.clone();
    r.fields = None;
    if same(&cur_h, &r, &mut budget) {
      cur_q = r;
    }
  }
  // 2. history: flatten to the live documents in one commit, then drop documents greedily
  let mut live: BTreeMap<String, Value> = BTreeMap::new();
  for c in cur_h.commits.iter() {
    for op in c.iter() {
      match op {
        Op::Add(d) => {
          live.insert(d["_id"].as_str().unwrap().to_string(), d.clone());
        }
        Op::Del(id) => {
          live.remove(id);
        }
      }
    }
  }
  let flat = Hist { commits: vec![live.values().cloned().map(Op::Add).collect()], compact: false };
  if budget > 0 && same(&flat, &cur_q, &mut budget) {
    cur_h = flat;
    let mut i = 0;
    while budget > 0 && i < cur_h.commits[0].len() {
      if cur_h.commits[0].len() <= 1 {
        break;
      }
      let mut h = cur_h.clone();
      h.commits[0].remove(i);
      if same(&h, &cur_q, &mut budget) {
        cur_h = h;
      } else {
        i += 1;
      }
    }
  }
  (cur_h, cur_q)
}

fn main() {
  let args: Vec<String> = std::env::args().skip(1).collect();
  let mut ctx = Ctx::from_args("C07", "exploration", &args);
  ctx.rule = "per case: random schema (1-4 text fields over default/whitespace/unicode tokenizers with lowercase/stopwords/stemmer/synonyms filters and sometimes a different search analyzer; 0-3 keyword fields; one i64 fast field), 5-40 documents over a tiny vocabulary written in 1-5 commits with upserts/deletes and sometimes compaction, then 40-60 requests: random query trees to depth 4 over all node kinds (incl. prefix/wildcard/regex below every expansion cap and request-level fuzzy on negation-free trees) plus `term(field, word)` for every source word of live documents. The id set of search(execution=bm25, limit=10000) is compared with an independent three-valued evaluator (definitely/possibly matches): engine must contain every definite match and nothing outside the possible matches; the same request under execution=wand and execution=bmw must return the same id set. evaluations = request comparisons; a request is non-trivial (counted once by hash of schema+history+request) when the definite set is non-empty and the possible set is not all live documents.".into();
  ctx.assumptions = vec![
    "tokenisation uses the engine's public analyzers (Schema::build_analyzers); everything else is independent".into(),
    "README is silent on: position gap between values of a multi-valued text field (judged only when 'contiguous' and 'never across values' agree), case rules of term queries on keyword fields (judged only when exact-case and case-insensitive agree), multi-token term values (judged only when all-tokens and any-token agree), terms that analyze to nothing inside query_string/multi_match (judged only when counting them and dropping them agree), rounding of percentage minimum_should_match (judged only when floor and ceil agree), transpositions in fuzzy distance (judged only when Levenshtein and OSA agree). Documents that are undecided are excluded from the comparison and counted in `undecided_doc_verdicts`".into(),
    "query_string / multi_match(operator or): positive terms are ORed, every quoted phrase is required, no negated term may be present; a phrase or term that analyzes to nothing matches nothing".into(),
    "phrase with slop: query positions in order at strictly increasing document positions with total gap <= slop (README: 'allows one gap between terms'); no transposition credit".into(),
    "not generated because undocumented/ambiguous: bool.minimum_should_match=0 without must/filter, multi_match operator=and together with minimum_should_match, minimum_should_match 0 / 0%, fuzzy together with must_not/negation (the engine does not fuzz non-scored clauses), fuzzy max_edits > 2, function_score.min_score, partial scripts (division), phrases/terms on unknown or numeric fields, prefix values whose analysis is not exactly one token".into(),
    "prefix uses the single search-analyzed token of its value (README: 'analyzes the input with the field's search analyzer'); wildcard/regex patterns keep their structure and are only case-normalised when the analyzer lowercases; every vocabulary stays below the default expansion caps (50/100 per segment) and fuzzy max_expansions is 1000".into(),
    "filters inside bool.filter / constant_score are restricted to KeywordEq/KeywordIn on ASCII values (documented case-insensitive), inclusive I64Range and And/Or/Not (C08 covers filters)".into(),
    "within one commit every id is touched at most once (ordering inside a batch is C04's subject)".into(),
  ];
  let quick = ctx.quick();
  let n = ctx.n(1200, 120_000);
  ctx.run_cases("idx", n, |rng: &mut Rng, l: &mut Local, scratch| {
    let sch = gen_schema(rng);
    let schema = match idx::schema(&sch.json) {
      Ok(s) => s,
      Err(e) => {
        l.fail("harness:schema-rejected", format!("{e:#}"), sch.json.clone());
        return;
      }
    };
    let an = match schema.build_analyzers() {
      Ok(a) => {
        let mut index = std::collections::HashMap::new();
        let mut search = std::collections::HashMap::new();
        for t in sch.text.iter() {
          if let Some(x) = a.index_analyzer(&t.name) {
            index.insert(t.name.clone(), x.clone());
          }
          if let Some(x) = a.search_analyzer(&t.name) {
            search.insert(t.name.clone(), x.clone());
          }
        }
        Analyzers { index, search }
      }
      Err(e) => {
        l.fail("harness:analyzers-rejected", format!("{e:#}"), sch.json.clone());
        return;
      }
    };
    let corpus = gen_corpus(rng, &sch, if quick { 25 } else { 40 });
    let dir = scratch.join("i");
    let built = match vcore::ctx::catch(|| build_index(&dir, &sch, &corpus.hist)) {
      Ok(Ok(b)) => b,
      Ok(Err(e)) => {
        l.fail(format!("build-error:{}", short(&format!("{e:#}"))), format!("index build failed: {e:#}"), json!({"schema": sch.json, "history": corpus.hist.to_json()}));
        return;
      }
      Err(p) => {
        l.fail(format!("build-panic:{}", vcore::ctx::panic_site(&p)), p.clone(), json!({"schema": sch.json, "history": corpus.hist.to_json()}));
        return;
      }
    };
    let reader = match built.index.reader() {
      Ok(r) => r,
      Err(e) => {
        l.fail("reader-error", format!("{e:#}"), json!({"schema": sch.json}));
        return;
      }
    };
    let views: Vec<DocView> = built.live.values().map(|d| DocView::build(&sch, &an, d)).collect();
    l.count("cases", 1);
    l.count("live_docs", views.len() as u64);
    if built.segments_hint > 1 {
      l.count("cases_multi_commit", 1);
    }
    if corpus.hist.compact {
      l.count("cases_compacted", 1);
    }
    if corpus.deletes > 0 {
      l.count("cases_with_deletes", 1);
    }
    if corpus.upserts > 0 {
      l.count("cases_with_upserts", 1);
    }
    let case_fp = vcore::ctx::fp(&(sch.json.to_string(), corpus.hist.to_json().to_string()));
    // requests
    let mut reqs: Vec<(Req, &'static str)> = Vec::new();
    let nq = if quick { 40 } else { 60 };
    let g = GenCtx::new(&sch, &an, &corpus, &built.live);
    for _ in 0..nq {
      reqs.push((gen_request(rng, &g), "tree"));
    }
    for r in word_requests(rng, &g, if quick { 25 } else { 60 }) {
      reqs.push((r, "word"));
    }
    for (rq, family) in reqs.iter() {
      let env = Env { sch: &sch, an: &an, default_fields: rq.default_fields(&sch), fuzzy: rq.fuzzy.clone(), emu_collapse: false, emu_prefix: false, emu_collapse_regex: true };
      let (engine, dup) = match run_engine(&reader, rq) {
        Ok(x) => x,
        Err(kind) => {
          l.eval();
          l.fail(format!("{}:{}", kind, rq.q.kind()), format!("search failed on a valid request: {kind}"), json!({"schema": sch.json, "request": rq.to_json()}));
          continue;
        }
      };
      l.eval();
      // The statement is about the documents returned with a limit covering all matches, whatever the
      // execution strategy: with such a limit the pruning executors have nothing to prune, so wand and bmw
      // must return the same id set as the exhaustive run that the oracle judges.
      for ex in ["wand", "bmw"] {
        let mut body = rq.to_json();
        body["execution"] = json!(ex);
        if let Ok(Ok(res)) = vcore::ctx::catch(|| idx::search(&reader, body.clone())) {
          l.eval();
          let set: BTreeSet<String> = idx::ids(&res).into_iter().collect();
          if set != engine {
            let missing: Vec<&String> = engine.difference(&set).collect();
            let extra: Vec<&String> = set.difference(&engine).collect();
            l.fail(
              format!("id-set-depends-on-execution:{ex}:{}", if !missing.is_empty() { "documents-missing" } else { "documents-added" }),
              format!("with a limit covering all matches, execution={ex} returns a different id set than execution=bm25: missing {missing:?}, extra {extra:?}"),
              json!({"schema": sch.json, "request": body, "history": corpus.hist.to_json(), "bm25_ids": engine, "ids": set}),
            );
          }
        }
      }
      let mut o = compare(&env, rq, &views, &engine);
      o.dup = dup;
      l.count(&format!("requests[{family}]"), 1);
      l.count(&format!("root[{}]", rq.q.kind()), 1);
      rq.q.visit(&mut |n| l.count(&format!("node[{}]", n.kind()), 1));
      if rq.fuzzy.is_some() {
        l.count("requests_fuzzy", 1);
      }
      if rq.legacy_string && matches!(rq.q, Q::Qs { fields: None, .. }) {
        l.count("requests_legacy_string_query", 1);
      }
      l.count("undecided_doc_verdicts", (o.hi.len() - o.lo.len()) as u64);
      l.count("definite_matches", o.lo.len() as u64);
      if *family == "word" {
        l.count("word_finds_doc_expected", o.lo.len() as u64);
      }
      if !o.lo.is_empty() && o.hi.len() < views.len() {
        l.nontrivial(&(case_fp, rq.to_json().to_string()));
        if rq.q.depth() >= 3 {
          l.count("nontrivial_depth_ge3", 1);
        }
      }
      if l.samples.len() < 2 && o.missing.is_empty() && o.unexpected.is_empty() && !o.lo.is_empty() && o.hi.len() < views.len() && rq.q.depth() >= 2 {
        l.sample(json!({"schema": sch.json, "live_docs": views.len(), "request": rq.to_json(),
          "oracle_definite": o.lo, "oracle_possible_extra": o.hi.difference(&o.lo).collect::<Vec<_>>(), "engine": o.engine}));
      }
      if dup {
        l.fail(format!("duplicate-hit:{}", rq.q.kind()), "the same id was returned twice", json!({"schema": sch.json, "request": rq.to_json(), "history": corpus.hist.to_json()}));
        continue;
      }
      if o.missing.is_empty() && o.unexpected.is_empty() {
        continue;
      }
      let sigs = classify(&sch, &an, rq, &views, &engine, &reader);
      if sigs.is_empty() {
        let sig = format!(
          "unclassified:{}:{}{}",
          rq.q.kind(),
          if o.missing.is_empty() { "" } else { "missing" },
          if o.unexpected.is_empty() { "" } else { "unexpected" }
        );
        let already = l.fails.iter().any(|f| f.signature == sig);
        let (mh, mq) = if already { (corpus.hist.clone(), rq.clone()) } else { minimise(&dir, &sch, &an, &corpus.hist, rq, &[]) };
        let detail = recheck(&dir, &Case { sch: &sch, an: &an, hist: mh.clone() }, &mq);
        l.fail(
          sig,
          format!("engine and oracle disagree: missing {:?} unexpected {:?}", o.missing, o.unexpected),
          json!({"schema": sch.json, "request": mq.to_json(), "history": mh.to_json(),
            "missing": detail.as_ref().map(|d| d.1.missing.clone()), "unexpected": detail.as_ref().map(|d| d.1.unexpected.clone()),
            "engine": detail.as_ref().map(|d| d.1.engine.clone()),
            "original_request": rq.to_json(), "original_missing": o.missing, "original_unexpected": o.unexpected}),
        );
        continue;
      }
      let all_known = sigs.iter().all(|s| l.fails.iter().any(|f| f.signature == *s));
      if all_known {
        for s in sigs.iter() {
          l.count(&format!("fail[{}]", s), 1);
        }
        continue;
      }
      let (mh, mq) = minimise(&dir, &sch, &an, &corpus.hist, rq, &sigs);
      let detail = recheck(&dir, &Case { sch: &sch, an: &an, hist: mh.clone() }, &mq);
      for s in sigs.iter() {
        l.fail(
          *s,
          format!("engine result explained only by defect(s) {:?}: missing {:?} unexpected {:?}", sigs, o.missing, o.unexpected),
          json!({"schema": sch.json, "request": mq.to_json(), "history": mh.to_json(), "defects_needed": sigs,
            "missing": detail.as_ref().map(|d| d.1.missing.clone()), "unexpected": detail.as_ref().map(|d| d.1.unexpected.clone()),
            "engine": detail.as_ref().map(|d| d.1.engine.clone()), "oracle_definite": detail.as_ref().map(|d| d.1.lo.clone()),
            "original_request": rq.to_json()}),
        );
      }
    }
    drop(reader);
    drop(built);
    let _ = std::fs::remove_dir_all(&dir);
  });
  std::process::exit(ctx.finish());
}
