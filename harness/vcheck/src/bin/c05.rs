//! C05 — Concurrent writer handles are serializable.
//! 2-4 threads, each with its own IndexWriter, run short call sequences at the same time
//! (optionally with a compaction thread). Every call is recorded at the client boundary
//! (invoke stamp, return stamp, result). An exact checker searches for an interleaving of
//! the threads' call sequences, consistent with real-time order, that replays through the
//! sequential content/queue model (C04) reproducing every result and the final contents.
//! Pause points inside the writer's critical sections (hook) inject seeded delays.
use searchlite_core::api::Index;
use searchlite_core::storage::{FsStorage, InMemoryStorage, Storage};
use serde_json::{json, Value};
use std::collections::{BTreeMap, HashMap, HashSet};
use std::sync::atomic::{AtomicU64, Ordering};
use std::sync::{Arc, Barrier, Mutex};
use vcheck::sched::{self, RunTrace};
use vcore::{idx, Ctx, Local, Rng};

#[derive(Clone, Debug)]
enum Plan {
  Open,
  Add(String),
  Delete(String),
  Commit,
  Rollback,
  /// Index::compact() called from a writer thread between its own calls (no model effect)
  Compact,
}

#[derive(Clone, Debug)]
struct Rec {
  plan: Plan,
  op_id: Option<usize>,
  inv: u64,
  ret: u64,
  /// Ok(Some(n)) for add, Ok(None) otherwise
  result: Result<Option<u32>, String>,
}

#[derive(Clone, Hash, PartialEq, Eq, Debug)]
struct MState {
  committed: BTreeMap<String, usize>,
  log: Vec<usize>,
  queues: Vec<Option<Vec<usize>>>,
}

struct OpInfo {
  doc: String,
  is_add: bool,
}

fn step(s: &MState, t: usize, r: &Rec, ops: &[OpInfo]) -> Option<MState> {
  let mut n = s.clone();
  match &r.plan {
    Plan::Open => {
      if r.result.is_err() {
        return None;
      }
      n.queues[t] = Some(n.log.clone());
    }
    Plan::Add(_) => {
      let op = r.op_id.unwrap();
      let q = n.queues[t].as_mut()?;
      q.push(op);
      n.log.push(op);
      let adds = q.iter().filter(|o| ops[**o].is_add).count() as u32;
      match &r.result {
        Ok(Some(x)) if *x == adds - 1 => {}
        _ => return None,
      }
    }
    Plan::Delete(_) => {
      let op = r.op_id.unwrap();
      let q = n.queues[t].as_mut()?;
      q.push(op);
      n.log.push(op);
      if r.result.is_err() {
        return None;
      }
    }
    Plan::Commit => {
      if r.result.is_err() {
        return None;
      }
      let q = n.queues[t].as_mut()?;
      if !q.is_empty() {
        for o in q.iter() {
          if ops[*o].is_add {
            n.committed.insert(ops[*o].doc.clone(), *o);
          } else {
            n.committed.remove(&ops[*o].doc);
          }
        }
        q.clear();
        n.log.clear();
      }
    }
    Plan::Rollback => {
      if r.result.is_err() {
        return None;
      }
      let q = n.queues[t].as_mut()?;
      q.clear();
      n.log.clear();
    }
    Plan::Compact => {
      if r.result.is_err() {
        return None;
      }
    }
  }
  Some(n)
}

enum Verdict {
  Serializable { final_states: usize, explored: usize },
  NotSerializable { explored: usize, reachable_finals: Vec<BTreeMap<String, usize>> },
  Budget,
}

/// Exact search over interleavings consistent with real-time order.
fn check(init: &MState, hist: &[Vec<Rec>], ops: &[OpInfo], observed: &BTreeMap<String, usize>, budget: usize) -> Verdict {
  let k = hist.len();
  let lens: Vec<usize> = hist.iter().map(|h| h.len()).collect();
  let mut layers: HashMap<Vec<usize>, HashSet<MState>> = HashMap::new();
  layers.insert(vec![0; k], [init.clone()].into_iter().collect());
  let total: usize = lens.iter().sum();
  let mut explored = 0usize;
  let mut frontier: Vec<Vec<usize>> = vec![vec![0; k]];
  for _depth in 0..total {
    let mut next_frontier: HashSet<Vec<usize>> = HashSet::new();
    for pos in frontier.iter() {
      let states = match layers.remove(pos) {
        Some(s) => s,
        None => continue,
      };
      for t in 0..k {
        if pos[t] >= lens[t] {
          continue;
        }
        let c = &hist[t][pos[t]];
        // real-time order: c may not be placed before a pending call that returned before c was invoked
        let mut blocked = false;
        for j in 0..k {
          if j != t && pos[j] < lens[j] && hist[j][pos[j]].ret < c.inv {
            blocked = true;
            break;
          }
        }
        if blocked {
          continue;
        }
        let mut np = pos.clone();
        np[t] += 1;
        for s in states.iter() {
          explored += 1;
          if explored > budget {
            return Verdict::Budget;
          }
          if let Some(n) = step(s, t, c, ops) {
            layers.entry(np.clone()).or_default().insert(n);
            next_frontier.insert(np.clone());
          }
        }
      }
    }
    frontier = next_frontier.into_iter().collect();
    if frontier.is_empty() {
      return Verdict::NotSerializable { explored, reachable_finals: vec![] };
    }
  }
  let finals = layers.remove(&lens).unwrap_or_default();
  let ok = finals.iter().filter(|s| s.committed == *observed).count();
  if ok > 0 {
    Verdict::Serializable { final_states: finals.len(), explored }
  } else {
    let mut fs: Vec<BTreeMap<String, usize>> = finals.into_iter().map(|s| s.committed).collect();
    fs.sort();
    fs.dedup();
    fs.truncate(4);
    Verdict::NotSerializable { explored, reachable_finals: fs }
  }
}

const HOT: &[&str] = &[
  "writer.commit.after_snapshot",
  "writer.commit.after_live_docs",
  "writer.commit.after_segment",
  "writer.commit.after_manifest_store",
  "writer.commit.after_publish",
  "writer.commit.enter",
  "writer.new.after_wal_read",
  "writer.new.after_live_docs",
  "compact.after_reader",
  "compact.after_segment",
  "compact.after_publish",
];

fn body_of(op: usize) -> String {
  format!("op{op} marker")
}

fn main() {
  let args: Vec<String> = std::env::args().skip(1).collect();
  let mut ctx = Ctx::from_args("C05", "exploration", &args);
  ctx.rule = "each run: 2-4 writer threads (own IndexWriter each; 'mixed' profile 3-6 calls: open, add/delete over 2-4 ids with unique bodies, commit, rollback; 'churn' profile 45% of runs: 2-3 long-lived handles running 3-5 episodes of add+commit+delete-same-id+commit / compact() / touch-an-older-id+commit) plus an optional compaction thread start from a barrier on one Index (Filesystem or InMemory), with seeded 0-3 ms delays injected at the hook's pause points inside writer-open/add/commit/rollback/compact; calls are stamped at the client boundary from one atomic clock; the final contents are read through a fresh reader and again after Index::open. evaluations = runs decided by the exact serializability search; a run is non-trivial when calls of different threads overlapped in real time; distinct = distinct global (thread,pause point) orders among non-trivial runs.".into();
  ctx.assumptions = vec![
    "sequential specification = the C04 content/queue model (a handle inherits the uncommitted shared log; rollback clears the shared log)".into(),
    "storage is healthy; every call is expected to return Ok".into(),
    "search budget 300k state expansions per run; exceeding it is inconclusive, never a verdict".into(),
  ];
  let n = ctx.n(300, 12000);
  sched::install();
  // thread pools of run_cases already give parallel runs; each run spawns its own threads
  ctx.threads = ctx.threads.min(6);
  ctx.run_cases("run", n, |rng: &mut Rng, l: &mut Local, scratch| {
    let dir = scratch.join("idx");
    let _ = std::fs::remove_dir_all(&dir);
    std::fs::create_dir_all(&dir).unwrap();
    let in_mem = rng.chance(0.3);
    let storage: Arc<dyn Storage> = if in_mem { Arc::new(InMemoryStorage::new(dir.clone())) } else { Arc::new(FsStorage::new(dir.clone())) };
    let opts = idx::opts(&dir, in_mem);
    let schema = json!({"doc_id_field":"_id","text_fields":[{"name":"body","analyzer":"default","stored":true,"indexed":true}],"keyword_fields":[],"numeric_fields":[]});
    let index = match Index::create_with_storage(&dir, idx::schema(&schema).unwrap(), opts.clone(), storage.clone()) {
      Ok(i) => Arc::new(i),
      Err(e) => {
        l.inconclusive(format!("create: {e:#}"));
        return;
      }
    };
    let n_ids = rng.urange(2, 4);
    let mut ops: Vec<OpInfo> = Vec::new();
    let mut init = MState { committed: BTreeMap::new(), log: vec![], queues: vec![] };
    // pre-populate
    {
      let mut w = index.writer().unwrap();
      for i in 0..n_ids {
        if rng.chance(0.5) {
          let id = format!("d{i}");
          let op = ops.len();
          ops.push(OpInfo { doc: id.clone(), is_add: true });
          w.add_document(&idx::doc(&json!({"_id": id, "body": body_of(op)}))).unwrap();
          init.committed.insert(id, op);
        }
      }
      w.commit().unwrap();
      if rng.chance(0.4) {
        // a second segment so that compaction has work
        let id = format!("d{}", rng.usize(n_ids));
        let op = ops.len();
        ops.push(OpInfo { doc: id.clone(), is_add: true });
        w.add_document(&idx::doc(&json!({"_id": id, "body": body_of(op)}))).unwrap();
        w.commit().unwrap();
        init.committed.insert(id, op);
      }
    }
    // Two workload profiles. "mixed": short random call sequences. "churn": longer-lived handles that
    // add and then delete the same document in separate commits (leaving fully dead segments),
    // call compact() in between, and afterwards touch documents that existed before.
    let churn = rng.chance(0.45);
    let k = if churn { rng.urange(2, 3) } else { rng.urange(2, 4) };
    init.queues = vec![None; k];
    // plans
    let mut plans: Vec<Vec<(Plan, Option<usize>)>> = Vec::new();
    for _t in 0..k {
      let mut p = vec![(Plan::Open, None)];
      if churn {
        let episodes = rng.urange(3, 5);
        for _ in 0..episodes {
          let r = rng.f64();
          if r < 0.4 {
            // add then delete the same id, each in its own commit
            let id = format!("d{}", rng.usize(n_ids + 1));
            let op = ops.len();
            ops.push(OpInfo { doc: id.clone(), is_add: true });
            p.push((Plan::Add(id.clone()), Some(op)));
            p.push((Plan::Commit, None));
            let op = ops.len();
            ops.push(OpInfo { doc: id.clone(), is_add: false });
            p.push((Plan::Delete(id), Some(op)));
            p.push((Plan::Commit, None));
          } else if r < 0.65 {
            p.push((Plan::Compact, None));
          } else {
            let id = format!("d{}", rng.usize(n_ids));
            let op = ops.len();
            let is_add = rng.chance(0.5);
            ops.push(OpInfo { doc: id.clone(), is_add });
            p.push((if is_add { Plan::Add(id) } else { Plan::Delete(id) }, Some(op)));
            p.push((Plan::Commit, None));
          }
        }
      } else {
        let m = rng.urange(2, 5);
        for i in 0..m {
          let r = rng.f64();
          if r < 0.45 {
            let id = format!("d{}", rng.usize(n_ids));
            let op = ops.len();
            ops.push(OpInfo { doc: id.clone(), is_add: true });
            p.push((Plan::Add(id), Some(op)));
          } else if r < 0.62 {
            let id = format!("d{}", rng.usize(n_ids));
            let op = ops.len();
            ops.push(OpInfo { doc: id.clone(), is_add: false });
            p.push((Plan::Delete(id), Some(op)));
          } else if r < 0.9 || i == m - 1 {
            p.push((Plan::Commit, None));
          } else {
            p.push((Plan::Rollback, None));
          }
        }
      }
      plans.push(p);
    }
    let with_compactor = rng.chance(0.4);
    let clock = Arc::new(AtomicU64::new(1));
    let trace = Arc::new(RunTrace { points: Mutex::new(Vec::new()) });
    let barrier = Arc::new(Barrier::new(k + if with_compactor { 1 } else { 0 }));
    let results: Arc<Mutex<Vec<Vec<Rec>>>> = Arc::new(Mutex::new(vec![Vec::new(); k]));
    let panics: Arc<Mutex<Vec<String>>> = Arc::new(Mutex::new(Vec::new()));
    let compact_err: Arc<Mutex<Option<String>>> = Arc::new(Mutex::new(None));
    std::thread::scope(|sc| {
      for t in 0..k {
        let plan = plans[t].clone();
        let index = index.clone();
        let clock = clock.clone();
        let trace = trace.clone();
        let barrier = barrier.clone();
        let results = results.clone();
        let panics = panics.clone();
        let trng = rng.fork();
        sc.spawn(move || {
          sched::enter(t, trace, sched::perturb(trng, HOT, 3000));
          barrier.wait();
          let mut recs = Vec::new();
          let r = vcore::ctx::catch(|| {
            let mut writer = None;
            for (p, op) in plan.iter() {
              let inv = clock.fetch_add(1, Ordering::SeqCst);
              let result: Result<Option<u32>, String> = match p {
                Plan::Open => match index.writer() {
                  Ok(w) => {
                    writer = Some(w);
                    Ok(None)
                  }
                  Err(e) => Err(format!("{e:#}")),
                },
                Plan::Add(id) => writer
                  .as_mut()
                  .map(|w: &mut searchlite_core::api::IndexWriter| w.add_document(&idx::doc(&json!({"_id": id, "body": body_of(op.unwrap())}))).map(Some).map_err(|e| format!("{e:#}")))
                  .unwrap_or(Err("no writer".into())),
                Plan::Delete(id) => writer.as_mut().map(|w| w.delete_document(id).map(|_| None).map_err(|e| format!("{e:#}"))).unwrap_or(Err("no writer".into())),
                Plan::Commit => writer.as_mut().map(|w| w.commit().map(|_| None).map_err(|e| format!("{e:#}"))).unwrap_or(Err("no writer".into())),
                Plan::Rollback => writer.as_mut().map(|w| w.rollback().map(|_| None).map_err(|e| format!("{e:#}"))).unwrap_or(Err("no writer".into())),
                Plan::Compact => index.compact().map(|_| None).map_err(|e| format!("{e:#}")),
              };
              let ret = clock.fetch_add(1, Ordering::SeqCst);
              recs.push(Rec { plan: p.clone(), op_id: *op, inv, ret, result });
            }
            // dropping the writer is not a modelled call (it only syncs the log)
            drop(writer);
          });
          if let Err(p) = r {
            panics.lock().unwrap().push(p);
          }
          results.lock().unwrap()[t] = recs;
          sched::leave();
        });
      }
      if with_compactor {
        let index = index.clone();
        let trace = trace.clone();
        let barrier = barrier.clone();
        let panics = panics.clone();
        let compact_err = compact_err.clone();
        let mut crng = rng.fork();
        let trng = rng.fork();
        sc.spawn(move || {
          sched::enter(99, trace, sched::perturb(trng, HOT, 3000));
          barrier.wait();
          let r = vcore::ctx::catch(|| {
            for _ in 0..2 {
              std::thread::sleep(std::time::Duration::from_micros(crng.below(2500)));
              if let Err(e) = index.compact() {
                *compact_err.lock().unwrap() = Some(format!("{e:#}"));
              }
            }
          });
          if let Err(p) = r {
            panics.lock().unwrap().push(p);
          }
          sched::leave();
        });
      }
    });
    let hist: Vec<Vec<Rec>> = results.lock().unwrap().clone();
    let hist_json = |h: &Vec<Vec<Rec>>| -> Value {
      json!(h
        .iter()
        .enumerate()
        .map(|(t, rs)| json!({"thread": t, "calls": rs.iter().map(|r| json!({"call": format!("{:?}", r.plan), "op": r.op_id, "inv": r.inv, "ret": r.ret, "result": format!("{:?}", r.result)})).collect::<Vec<_>>()}))
        .collect::<Vec<_>>())
    };
    let case = |extra: Value| json!({"storage": if in_mem {"InMemory"} else {"Filesystem"}, "initial": init.committed, "history": hist_json(&hist), "compactor": with_compactor, "profile": if churn {"churn"} else {"mixed"}, "extra": extra});
    for p in panics.lock().unwrap().iter() {
      l.fail(format!("panic:{}", vcore::ctx::panic_site(p)), format!("a thread panicked: {p}"), case(json!(null)));
    }
    if let Some(e) = compact_err.lock().unwrap().as_ref() {
      l.fail("compact-error-under-concurrency", format!("compact() failed while writers were active: {e}"), case(json!(null)));
    }
    for (t, rs) in hist.iter().enumerate() {
      for r in rs {
        if let Err(e) = &r.result {
          l.fail(format!("call-error:{}", format!("{:?}", r.plan).split('(').next().unwrap_or("?")), format!("thread {t}: {:?} returned Err: {e}", r.plan), case(json!(null)));
        }
      }
    }
    // final contents: same Index and after reopening
    let read = |ix: &Index| -> Result<BTreeMap<String, usize>, String> {
      let r = ix.reader().map_err(|e| format!("{e:#}"))?;
      let docs = idx::all_docs(&r).map_err(|e| format!("{e:#}"))?;
      let mut m = BTreeMap::new();
      for (id, f) in docs {
        let body = f.get("body").and_then(|b| b.as_str()).unwrap_or("").to_string();
        let op: usize = body.strip_prefix("op").and_then(|s| s.split(' ').next()).and_then(|s| s.parse().ok()).unwrap_or(usize::MAX);
        if m.insert(id.clone(), op).is_some() {
          return Err(format!("duplicate id {id}"));
        }
      }
      Ok(m)
    };
    let obs = match read(&index) {
      Ok(o) => o,
      Err(e) => {
        l.fail("final-read-fails", format!("reading the final contents failed: {e}"), case(json!(null)));
        return;
      }
    };
    let reopened = Index::open_with_storage(opts.clone(), storage.clone()).map_err(|e| format!("{e:#}")).and_then(|ix| read(&ix));
    match &reopened {
      Err(e) => l.fail("reopen-fails-after-run", format!("Index::open after the run failed: {e}"), case(json!(null))),
      Ok(o2) => {
        if *o2 != obs {
          l.fail("reopen-differs-from-live-index", format!("contents after reopen {o2:?} differ from the live index {obs:?}"), case(json!(null)));
        }
      }
    }
    // overlap?
    let mut overlapped = false;
    for a in 0..hist.len() {
      for b in 0..hist.len() {
        if a != b {
          for x in hist[a].iter() {
            for y in hist[b].iter() {
              if x.inv < y.ret && y.inv < x.ret {
                overlapped = true;
              }
            }
          }
        }
      }
    }
    match check(&init, &hist, &ops, &obs, 300_000) {
      Verdict::Budget => l.inconclusive("serializability search exceeded its budget"),
      Verdict::Serializable { final_states, explored } => {
        l.eval();
        l.count("state_expansions", explored as u64);
        if final_states > 1 {
          l.count("runs_with_several_reachable_final_states", 1);
        }
      }
      Verdict::NotSerializable { explored, reachable_finals } => {
        l.eval();
        l.count("state_expansions", explored as u64);
        let lost: Vec<&String> = reachable_finals.first().map(|f| f.keys().filter(|k| !obs.contains_key(*k)).collect()).unwrap_or_default();
        l.fail(
          if reachable_finals.is_empty() { "no-serial-order-explains-call-results" } else { "no-serial-order-explains-final-contents" },
          format!("no interleaving of the recorded calls reproduces results and final contents {obs:?}; reachable finals {reachable_finals:?}; ids missing vs first candidate: {lost:?}"),
          case(json!({"observed": obs, "reachable_finals": reachable_finals})),
        );
      }
    }
    let pts = trace.points.lock().unwrap().clone();
    l.count("pause_points_observed", pts.len() as u64);
    if overlapped {
      l.count("runs_with_overlapping_calls", 1);
      l.nontrivial(&pts);
    }
    if with_compactor {
      l.count("runs_with_compactor", 1);
    }
    if churn {
      l.count("runs_with_churn_profile", 1);
      l.count("compact_calls_inside_writer_threads", hist.iter().flatten().filter(|r| matches!(r.plan, Plan::Compact)).count() as u64);
    }
    if l.samples.is_empty() {
      l.sample(json!({"storage": if in_mem {"InMemory"} else {"Filesystem"}, "threads": k, "compactor": with_compactor, "history": hist_json(&hist), "final": obs,
        "first_pause_points": pts.iter().take(30).map(|(t, p)| format!("t{t}:{p}")).collect::<Vec<_>>()}));
    }
    drop(index);
    let _ = std::fs::remove_dir_all(&dir);
  });
  std::process::exit(ctx.finish());
}
