//! C22 — Completion suggestions are consistent with the term dictionary.
//! Oracle: the term dictionary (term -> number of documents containing it) is rebuilt from the
//! original JSON documents with the field's public INDEX analyzer; the analysed prefix with the
//! public SEARCH analyzer. Every option is judged against that dictionary; the same corpus is
//! indexed under three commit layouts and the answers are compared.
use serde_json::{json, Value};
use std::collections::{BTreeMap, BTreeSet};
use vcore::{idx, Ctx, Local, Rng};

/// Smallest value the engine's scan cap can take (reader.rs DEFAULT_SUGGEST_SCAN); the cap is
/// clamp(5*size, 64, 256) without fuzzy and max(min(max_expansions, 256), size) with fuzzy.
const SCAN_CAP_FLOOR: usize = 64;
const MAX_SUGGEST_CANDIDATES: usize = 256;

const TEXT_FIELDS: &[&str] = &["t", "tu", "te", "ts", "tst"];
const KW_FIELDS: &[&str] = &["k", "k2"];

fn schema_json(saty_min: usize, saty_max: usize, ng_max: usize) -> Value {
  json!({
    "doc_id_field": "_id",
    "analyzers": [
      {"name": "uni", "tokenizer": "unicode", "filters": []},
      {"name": "edge", "tokenizer": "default", "filters": [{"edge_ngram": {"min": 1, "max": ng_max}}]},
      {"name": "stem", "tokenizer": "default", "filters": [{"stopwords": "en"}, {"stemmer": "english"}]},
    ],
    "text_fields": [
      {"name": "t", "analyzer": "default", "stored": true, "indexed": true},
      {"name": "tu", "analyzer": "uni", "stored": true, "indexed": true},
      {"name": "te", "analyzer": "edge", "search_analyzer": "default", "stored": true, "indexed": true},
      {"name": "ts", "analyzer": "default", "stored": true, "indexed": true,
        "search_as_you_type": {"min_gram": saty_min, "max_gram": saty_max}},
      {"name": "tst", "analyzer": "stem", "stored": true, "indexed": true},
    ],
    "keyword_fields": [
      {"name": "k", "stored": true, "indexed": true, "fast": true},
      {"name": "k2", "stored": true, "indexed": true, "fast": true},
    ],
    "numeric_fields": [], "nested_fields": []
  })
}

const STEMS: &[&str] = &[
  "r", "ru", "rus", "rust", "run", "runn", "ra", "rai", "rain", "re", "sea", "sear", "search", "see", "seed", "in", "ind", "index",
  "ink", "ap", "app", "appl", "apple", "apply", "ba", "ban", "band", "bank", "ca", "caf", "café", "cat", "über", "übung", "日本",
  "日本語", "東京", "Rust", "RUN", "Search",
];
const SUFFIXES: &[&str] = &["", "", "s", "ed", "ing", "er", "y", "x", "ly", "a", "o", "1", "2", "é", "ss", "ning"];
const KW_BASE: &[&str] = &[
  "Red", "red", "RED", "Rust", "rusty", "rustic", "été", "Été", "green", "Green-1", "green-2", "blue", "alpha beta", "Alpha", "al", "a",
  "ru", "run", "rub", "x",
];

fn gen_vocab(rng: &mut Rng, n: usize) -> Vec<String> {
  let mut set = BTreeSet::new();
  let mut guard = 0;
  while set.len() < n && guard < n * 20 {
    guard += 1;
    let mut w = rng.pick(STEMS).to_string();
    let k = rng.below(3);
    for _ in 0..k {
      w.push_str(*rng.pick(SUFFIXES));
    }
    if rng.chance(0.15) {
      w.push((b'a' + rng.below(26) as u8) as char);
    }
    set.insert(w);
  }
  let mut v: Vec<String> = set.into_iter().collect();
  rng.shuffle(&mut v);
  v
}

fn gen_text(rng: &mut Rng, vocab: &[String], max_words: usize) -> String {
  let n = rng.urange(1, max_words);
  let seps = [" ", " ", " ", ", ", "-", ". "];
  let mut s = String::new();
  for i in 0..n {
    if i > 0 {
      s.push_str(seps[rng.usize(seps.len())]);
    }
    s.push_str(&vocab[rng.zipf(vocab.len())]);
  }
  s
}

/// Optimal-string-alignment distance over chars (<= plain Levenshtein): the lenient reading of
/// "within max_edits".
fn osa(a: &str, b: &str) -> usize {
  let a: Vec<char> = a.chars().collect();
  let b: Vec<char> = b.chars().collect();
  let (n, m) = (a.len(), b.len());
  let mut d = vec![vec![0usize; m + 1]; n + 1];
  for (i, row) in d.iter_mut().enumerate() {
    row[0] = i;
  }
  for j in 0..=m {
    d[0][j] = j;
  }
  for i in 1..=n {
    for j in 1..=m {
      let cost = if a[i - 1] == b[j - 1] { 0 } else { 1 };
      let mut v = (d[i - 1][j] + 1).min(d[i][j - 1] + 1).min(d[i - 1][j - 1] + cost);
      if i > 1 && j > 1 && a[i - 1] == b[j - 2] && a[i - 2] == b[j - 1] {
        v = v.min(d[i - 2][j - 2] + 1);
      }
      d[i][j] = v;
    }
  }
  d[n][m]
}

/// Plain Levenshtein distance over chars (used only to CLASSIFY failures the way the engine counts).
fn lev(a: &str, b: &str) -> usize {
  let a: Vec<char> = a.chars().collect();
  let b: Vec<char> = b.chars().collect();
  let mut prev: Vec<usize> = (0..=b.len()).collect();
  for i in 1..=a.len() {
    let mut cur = vec![i; b.len() + 1];
    for j in 1..=b.len() {
      let cost = if a[i - 1] == b[j - 1] { 0 } else { 1 };
      cur[j] = (prev[j] + 1).min(cur[j - 1] + 1).min(prev[j - 1] + cost);
    }
    prev = cur;
  }
  prev[b.len()]
}

fn char_prefix(s: &str, n: usize) -> String {
  s.chars().take(n).collect()
}

#[derive(Clone, Debug)]
struct Fz {
  max_edits: u64,
  prefix_length: usize,
  max_expansions: usize,
  min_length: usize,
}

#[derive(Clone, Debug, PartialEq)]
struct Opt {
  text: String,
  score: f32,
  df: u64,
}

fn field_values(doc: &Value, f: &str) -> Vec<String> {
  match doc.get(f) {
    Some(Value::String(s)) => vec![s.clone()],
    Some(Value::Array(a)) => a.iter().filter_map(|x| x.as_str().map(|s| s.to_string())).collect(),
    _ => vec![],
  }
}

fn close(a: f32, b: f32) -> bool {
  (a - b).abs() <= 1e-4 * a.abs().max(b.abs()).max(1.0)
}

struct ReqSpec {
  field: String,
  prefix: String,
  size: usize,
  omit_size: bool,
  fz: Option<Fz>,
}

type Dict = BTreeMap<&'static str, BTreeMap<String, u64>>;

/// Index `docs` under every layout, then judge each request `next_req` produces (None = stop).
fn run_corpus(
  l: &mut Local,
  scratch: &std::path::Path,
  sch: &Value,
  docs: &[Value],
  layouts: &[Vec<usize>],
  mut next_req: impl FnMut(&Dict) -> Option<ReqSpec>,
) {
  let schema = idx::schema(sch).expect("schema");
  let analyzers = schema.build_analyzers().expect("analyzers");
  // ---------------- oracle dictionaries: per field, term -> df ; and per layout per segment term sets
  let mut dict: BTreeMap<&str, BTreeMap<String, u64>> = BTreeMap::new();
  // doc_terms[f][doc] = set of terms
  let mut doc_terms: BTreeMap<&str, Vec<BTreeSet<String>>> = BTreeMap::new();
  for f in TEXT_FIELDS.iter().chain(KW_FIELDS.iter()) {
    let is_kw = KW_FIELDS.contains(f);
    let mut per_doc = Vec::new();
    let mut d: BTreeMap<String, u64> = BTreeMap::new();
    for doc in docs.iter() {
      let mut set = BTreeSet::new();
      for v in field_values(doc, f) {
        if is_kw {
          set.insert(v.to_ascii_lowercase());
        } else {
          let a = analyzers.index_analyzer(f).expect("index analyzer");
          for t in a.analyze(&v) {
            set.insert(t.text);
          }
        }
      }
      for t in set.iter() {
        *d.entry(t.clone()).or_insert(0) += 1;
      }
      per_doc.push(set);
    }
    dict.insert(f, d);
    doc_terms.insert(f, per_doc);
  }
  // ---------------- build the three indexes
  let mut readers = Vec::new();
  let mut indexes = Vec::new();
  for (li, lay) in layouts.iter().enumerate() {
    let dir = scratch.join(format!("i{li}"));
    let _ = std::fs::remove_dir_all(&dir);
    let index = match idx::build(&dir, true, &sch, &docs, lay) {
      Ok(i) => i,
      Err(e) => {
        l.fail("api-error:build", format!("{e:#}"), json!({"layout": lay}));
        return;
      }
    };
    let reader = match index.reader() {
      Ok(r) => r,
      Err(e) => {
        l.fail("api-error:reader", format!("{e:#}"), json!({}));
        return;
      }
    };
    if reader.segments.len() != lay.len() {
      l.inconclusive(format!("layout {lay:?} produced {} segments", reader.segments.len()));
      return;
    }
    readers.push(reader);
    indexes.push(index);
  }
  for lay in layouts.iter().skip(1) {
    l.count(&format!("segments_in_layout[{}]", lay.len()), 1);
  }
  // ---------------- requests
  let mut guard = 0;
  while let Some(spec) = next_req(&dict) {
    guard += 1;
    if guard > 500 {
      break;
    }
    let ReqSpec { field, prefix, size, omit_size, fz } = spec;
    let field: &str = TEXT_FIELDS.iter().chain(KW_FIELDS.iter()).find(|f| **f == field).expect("known field");
    let is_kw = KW_FIELDS.contains(&field);
    let d = &dict[field];
    let mut sreq = json!({"type":"completion","field":field,"prefix":prefix,"size":size});
    if omit_size {
      sreq.as_object_mut().unwrap().remove("size");
    }
    if let Some(f) = fz.as_ref() {
      sreq["fuzzy"] = json!({"max_edits": f.max_edits, "prefix_length": f.prefix_length, "max_expansions": f.max_expansions, "min_length": f.min_length});
    }
    let req = json!({"query":{"type":"match_all"},"limit":1,"return_stored":false,"suggest":{"s": sreq}});
    // ---------------- oracle: analysed prefix and qualifying terms
    let analysed: String = if is_kw {
      prefix.to_ascii_lowercase()
    } else {
      let a = analyzers.search_analyzer(field).expect("search analyzer");
      a.analyze(&prefix).last().map(|t| t.text.clone()).unwrap_or_else(|| prefix.clone())
    };
    let alen = analysed.chars().count();
    let qualifies = |term: &str| -> bool {
      match fz.as_ref() {
        None => term.starts_with(analysed.as_str()),
        Some(f) => {
          let pl = f.prefix_length.min(alen);
          osa(&analysed, term) <= f.max_edits as usize && char_prefix(term, pl) == char_prefix(&analysed, pl)
        }
      }
    };
    // the narrower set the engine itself would accept (classification of failures only)
    let engine_accepts = |term: &str| -> bool {
      match fz.as_ref() {
        None => term.starts_with(analysed.as_str()),
        Some(f) => {
          let pl = f.prefix_length.min(alen);
          lev(&analysed, term) <= (f.max_edits as usize).min(2) && char_prefix(term, pl) == char_prefix(&analysed, pl)
        }
      }
    };
    let matching: Vec<(&String, u64)> = d.iter().filter(|(t, _)| qualifies(t)).map(|(t, c)| (t, *c)).collect();
    let m = matching.len();
    let cap = match fz.as_ref() {
      None => SCAN_CAP_FLOOR,
      Some(f) => f.max_expansions.min(MAX_SUGGEST_CANDIDATES).max(size).min(SCAN_CAP_FLOOR),
    };
    let under_cap = m < cap;
    l.count(if fz.is_some() { "requests_fuzzy" } else { "requests_prefix" }, 1);
    l.count(if under_cap { "requests_under_scan_cap" } else { "requests_at_or_over_scan_cap" }, 1);
    l.count(&format!("requests_field[{field}]"), 1);
    if m == 0 {
      l.count("requests_no_qualifying_term", 1);
    }
    let case_json = |extra: Value| -> Value {
      json!({"schema": sch, "docs": docs, "layouts": layouts, "suggest": sreq, "analysed_prefix": analysed,
        "qualifying_terms": matching.iter().take(80).map(|(t, c)| json!([t, c])).collect::<Vec<_>>(),
        "qualifying_count": m, "detail": extra})
    };
    // ---------------- run on each layout, twice
    let mut answers: Vec<Vec<Opt>> = Vec::new();
    let mut failed = false;
    for (li, reader) in readers.iter().enumerate() {
      let mut two: Vec<Vec<Opt>> = Vec::new();
      for _rep in 0..2 {
        let r = match vcore::ctx::catch(|| idx::search(reader, req.clone())) {
          Err(p) => {
            l.fail(format!("panic:suggest:{}", vcore::ctx::panic_site(&p)), format!("suggest panicked: {p}"), case_json(json!({"layout": li})));
            failed = true;
            break;
          }
          Ok(Err(e)) => {
            l.count("requests_rejected", 1);
            l.inconclusive(format!("request rejected: {e:#}"));
            failed = true;
            break;
          }
          Ok(Ok(r)) => r,
        };
        let Some(sr) = r.suggest.get("s") else {
          l.fail("suggest-entry-missing", "response has no entry for the requested suggestion name", case_json(json!({"layout": li})));
          failed = true;
          break;
        };
        two.push(sr.options.iter().map(|o| Opt { text: o.text.clone(), score: o.score, df: o.doc_freq }).collect());
      }
      if failed {
        break;
      }
      l.eval();
      let opts = two[0].clone();
      let lay = &layouts[li];
      // segment-level view of the model: sum over segments of qualifying terms present there
      let mut pairs = 0usize;
      {
        let per_doc = &doc_terms[field];
        let mut at = 0usize;
        for nseg in lay.iter() {
          let mut segset: BTreeSet<&String> = BTreeSet::new();
          for dt in per_doc.iter().skip(at).take(*nseg) {
            for t in dt.iter() {
              segset.insert(t);
            }
          }
          at += *nseg;
          pairs += segset.iter().filter(|t| engine_accepts(t)).count();
        }
      }
      // the engine's own cap (for classification only)
      let engine_cap = match fz.as_ref() {
        None => size.saturating_mul(5).clamp(SCAN_CAP_FLOOR, MAX_SUGGEST_CANDIDATES),
        Some(f) => f.max_expansions.min(MAX_SUGGEST_CANDIDATES).max(size),
      };
      let pair_overflow = under_cap && pairs >= engine_cap && lay.len() > 1;
      if pair_overflow {
        l.count("answers_where_segment_term_pairs_reach_cap_but_terms_do_not", 1);
      }
      let tag = |sym: &str| -> String {
        if pair_overflow {
          format!("scan-cap-counts-segment-term-pairs[{}]:{sym}", if fz.is_some() { "fuzzy" } else { "prefix" })
        } else {
          sym.to_string()
        }
      };
      let detail = |x: Value| case_json(json!({"layout_index": li, "layout": lay, "options": opts.iter().map(|o| json!([o.text, o.score, o.df])).collect::<Vec<_>>(),
        "segment_term_pairs": pairs, "engine_scan_cap": engine_cap, "problem": x}));
      // (a) determinism on the same reader
      if two[0] != two[1] {
        l.fail("same-request-twice-differs", "two identical requests on one reader returned different options", detail(json!({"second": two[1].iter().map(|o| json!([o.text, o.score, o.df])).collect::<Vec<_>>()})));
      }
      // (b) at most size
      let eff_size = if omit_size { 5 } else { size };
      if opts.len() > eff_size {
        l.fail("more-options-than-size", format!("{} options for size {eff_size}", opts.len()), detail(json!(null)));
      }
      // (b') weakest form of completeness: a plain prefix completion with matching dictionary terms
      //      must suggest something
      if fz.is_none() && eff_size >= 1 && m >= 1 && opts.is_empty() {
        l.fail(
          "no-option-although-indexed-terms-start-with-the-analysed-prefix",
          format!("{m} indexed terms of {field} start with {analysed:?} but no option was returned"),
          detail(json!(null)),
        );
      }
      // (c) order: score desc then text asc, strictly
      for w in opts.windows(2) {
        let ok = w[0].score > w[1].score || (w[0].score == w[1].score && w[0].text < w[1].text);
        if !ok {
          l.fail("options-not-sorted-by-score-desc-then-text", format!("{:?} before {:?}", w[0], w[1]), detail(json!(null)));
          break;
        }
      }
      // (d) membership, prefix / edit constraints, doc_freq
      for o in opts.iter() {
        let Some(true_df) = d.get(&o.text) else {
          l.fail("option-is-not-an-indexed-term", format!("{:?} is not a term of field {field}", o.text), detail(json!(o.text)));
          continue;
        };
        match fz.as_ref() {
          None => {
            if !o.text.starts_with(analysed.as_str()) {
              l.fail("option-does-not-start-with-analysed-prefix", format!("{:?} vs prefix {analysed:?}", o.text), detail(json!(o.text)));
            }
          }
          Some(f) => {
            let pl = f.prefix_length.min(alen);
            if osa(&analysed, &o.text) > f.max_edits as usize {
              l.fail("fuzzy-option-beyond-max_edits", format!("{:?} vs {analysed:?} max_edits {}", o.text, f.max_edits), detail(json!(o.text)));
            }
            if char_prefix(&o.text, pl) != char_prefix(&analysed, pl) {
              l.fail("fuzzy-option-breaks-prefix_length", format!("{:?} vs {analysed:?} prefix_length {}", o.text, f.prefix_length), detail(json!(o.text)));
            }
          }
        }
        if o.df > *true_df {
          l.fail("doc_freq-above-dictionary-count", format!("{:?}: doc_freq {} > {} documents contain it", o.text, o.df, true_df), detail(json!(o.text)));
        } else if under_cap && o.df != *true_df {
          l.fail(tag("doc_freq-below-dictionary-count"), format!("{:?}: doc_freq {} but {} documents contain it", o.text, o.df, true_df), detail(json!(o.text)));
        }
      }
      // informational: does the non-fuzzy answer equal the top-`size` by (df desc, text asc)?
      if fz.is_none() && under_cap && li == 0 {
        let mut exp: Vec<(&String, u64)> = matching.clone();
        exp.sort_by(|a, b| b.1.cmp(&a.1).then_with(|| a.0.cmp(b.0)));
        exp.truncate(eff_size);
        let same = exp.len() == opts.len() && exp.iter().zip(opts.iter()).all(|(e, o)| *e.0 == o.text);
        l.count(if same { "nonfuzzy_equals_top_by_doc_freq" } else { "nonfuzzy_differs_from_top_by_doc_freq" }, 1);
      }
      answers.push(opts);
    }
    if failed {
      continue;
    }
    if m > 0 && !answers[0].is_empty() {
      l.nontrivial(&(vcore::ctx::fp(&format!("{:?}", dict[field])), field, &prefix, size, format!("{fz:?}")));
      if l.samples.len() < 3 && answers[0].len() >= 2 {
        l.sample(json!({"suggest": sreq, "analysed_prefix": analysed, "qualifying_terms": m, "layouts": layouts,
          "options": answers[0].iter().map(|o| json!({"text": o.text, "score": o.score, "doc_freq": o.df})).collect::<Vec<_>>() }));
      }
    }
    // ---------------- (e) layout independence
    if under_cap {
      l.eval();
      l.count("cross_layout_comparisons", 1);
      for li in 1..answers.len() {
        let (a, b) = (&answers[0], &answers[li]);
        let same = a.len() == b.len() && a.iter().zip(b.iter()).all(|(x, y)| x.text == y.text && x.df == y.df && close(x.score, y.score));
        if same {
          continue;
        }
        // tolerate permutations/substitutions inside groups of (nearly) tied scores
        let tolerated = a.len() == b.len() && {
          let mut ok = true;
          for (i, (x, y)) in a.iter().zip(b.iter()).enumerate() {
            if !close(x.score, y.score) {
              ok = false;
              break;
            }
            if x.text != y.text {
              // x must appear in b (or y in a) at a position with a tied score, or be cut at the tail tie
              let tied_tail = close(x.score, a.last().unwrap().score) && close(y.score, b.last().unwrap().score);
              let xb = b.iter().position(|o| o.text == x.text);
              let okx = match xb {
                Some(j) => close(b[j].score, y.score) && b[j].df == x.df,
                None => tied_tail,
              };
              if !okx {
                ok = false;
                break;
              }
            } else if x.df != y.df {
              ok = false;
              break;
            }
            let _ = i;
          }
          ok
        };
        if tolerated && fz.is_some() {
          l.count("cross_layout_near_tie_tolerated", 1);
          continue;
        }
        // classify: does the differing layout overflow the cap by (segment, term) pairs?
        let per_doc = &doc_terms[field];
        let mut over = false;
        for lx in [0usize, li] {
          let lay = &layouts[lx];
          let mut pairs = 0usize;
          let mut at = 0usize;
          for nseg in lay.iter() {
            let mut segset: BTreeSet<&String> = BTreeSet::new();
            for dt in per_doc.iter().skip(at).take(*nseg) {
              for t in dt.iter() {
                segset.insert(t);
              }
            }
            at += *nseg;
            pairs += segset.iter().filter(|t| engine_accepts(t)).count();
          }
          let engine_cap = match fz.as_ref() {
            None => size.saturating_mul(5).clamp(SCAN_CAP_FLOOR, MAX_SUGGEST_CANDIDATES),
            Some(f) => f.max_expansions.min(MAX_SUGGEST_CANDIDATES).max(size),
          };
          if lay.len() > 1 && pairs >= engine_cap {
            over = true;
          }
        }
        let sig = if over {
            format!("scan-cap-counts-segment-term-pairs[{}]:output-depends-on-segment-layout", if fz.is_some() { "fuzzy" } else { "prefix" })
          } else {
            "output-depends-on-segment-layout".to_string()
          };
        l.fail(
          sig,
          format!("layout {:?} and layout {:?} give different options although only {m} terms qualify", layouts[0], layouts[li]),
          case_json(json!({"layout_a": layouts[0], "options_a": a.iter().map(|o| json!([o.text, o.score, o.df])).collect::<Vec<_>>(),
            "layout_b": layouts[li], "options_b": b.iter().map(|o| json!([o.text, o.score, o.df])).collect::<Vec<_>>() })),
        );
      }
    }
  }
  drop(readers);
  drop(indexes);
  for li in 0..layouts.len() {
    let _ = std::fs::remove_dir_all(scratch.join(format!("i{li}")));
  }
}

fn main() {
  let args: Vec<String> = std::env::args().skip(1).collect();
  let mut ctx = Ctx::from_args("C22", "exploration", &args);
  ctx.rule = "each case generates one corpus (5-70 documents without repeated ids, vocabulary of 8-160 words sharing prefixes, string and string-array values) over 5 text fields (default, unicode, edge-ngram index analyzer, search_as_you_type, stopwords+stemmer) and 2 keyword fields, indexes it under three commit layouts (1 commit, and two random splits into up to 4 commits) and sends 30 (quick) or 60 (thorough) completion requests (prefixes of 0-6 characters cut from dictionary terms, upper-cased, multi-token, punctuation-only, non-matching; sizes 0-300; with and without a fuzzy option grid) to each index twice. evaluations = (request, layout) answers judged against the independently rebuilt dictionary plus one cross-layout comparison per request. A request is non-trivial (counted once by hash of dictionary+field+prefix+size+fuzzy) when at least one dictionary term qualifies and at least one option was returned.".into();
  ctx.assumptions = vec![
    "corpora have no pending deletions and no repeated ids (as the property restricts); every commit creates exactly one segment (no background merging), which the check verifies via the reader's segment count".into(),
    "doc_freq equality and layout independence are judged only while the number of DISTINCT qualifying dictionary terms is below the smallest value the scan cap can take (64, and max(min(max_expansions,256),size) with fuzzy if smaller); above it only size, order, membership, prefix/edit constraints and doc_freq <= dictionary count are judged".into(),
    "'within max_edits' is judged with the optimal-string-alignment distance over characters (never larger than Levenshtein) against the user's max_edits, and 'shares its first prefix_length characters' against min(prefix_length, length of the analysed prefix) characters".into(),
    "the only completeness demanded is the weakest one: a non-fuzzy request with size >= 1 must return at least one option when some indexed term starts with the analysed prefix (suggestions 'consistent with the term dictionary'); which terms are preferred is not judged".into(),
    "scores are only required to order the options (score desc, then text asc); the score formula is undocumented, so the exact option SET is not judged against a doc_freq ranking (reported as counters nonfuzzy_equals_top_by_doc_freq / nonfuzzy_differs_from_top_by_doc_freq only)".into(),
    "cross-layout comparison tolerates relative score differences of 1e-4 and reorderings/substitutions among options whose scores tie within that tolerance (f32 summation order)".into(),
  ];
  let n = ctx.n(300, 100_000);
  let quick = ctx.quick();
  // ---------------- directed minimal corpora (deterministic; same oracle)
  ctx.run_cases("directed", 1, |_rng: &mut Rng, l: &mut Local, scratch| {
    let sch = schema_json(1, 4, 3);
    // (1) prefix branch: document c holds w20..w39, documents a and b hold w00..w39. One commit per
    //     document gives 20 + 40 + 4 (segment, term) pairs = cap 64 after w03 of the third segment, so
    //     the rest of that segment is never read although only 40 terms match.
    let words: Vec<String> = (0..40).map(|i| format!("w{i:02}")).collect();
    let body = words.join(" ");
    let docs = vec![json!({"_id":"c","t":words[20..].join(" ")}), json!({"_id":"a","t":body}), json!({"_id":"b","t":body})];
    let mut reqs = vec![
      ReqSpec { field: "t".into(), prefix: "W3".into(), size: 5, omit_size: true, fz: None },
      ReqSpec { field: "t".into(), prefix: "w".into(), size: 10, omit_size: false, fz: None },
    ];
    run_corpus(l, scratch, &sch, &docs, &[vec![3], vec![1, 1, 1]], |_d: &Dict| reqs.pop());
    // (2) fuzzy branch: three terms within 2 edits of "se", cap = max(min(max_expansions 1,256), size 5) = 5,
    //     two commits give 6 (segment, term) pairs.
    let docs = vec![json!({"_id":"a","t":"se sea see"}), json!({"_id":"b","t":"se sea see"})];
    let mut reqs = vec![ReqSpec {
      field: "t".into(),
      prefix: "se".into(),
      size: 5,
      omit_size: false,
      fz: Some(Fz { max_edits: 2, prefix_length: 2, max_expansions: 1, min_length: 0 }),
    }];
    run_corpus(l, scratch, &sch, &docs, &[vec![2], vec![1, 1]], |_d: &Dict| reqs.pop());
  });
  ctx.run_cases("corpus", n, |rng: &mut Rng, l: &mut Local, scratch| {
    let saty_min = rng.urange(1, 2);
    let saty_max = rng.urange(3, 6);
    let ng_max = rng.urange(2, 5);
    let sch = schema_json(saty_min, saty_max, ng_max);
    // ---------------- corpus
    let vocab_n = match rng.below(4) {
      0 => rng.urange(8, 20),
      1 | 2 => rng.urange(20, 70),
      _ => rng.urange(70, 160),
    };
    let vocab = gen_vocab(rng, vocab_n);
    let n_docs = rng.urange(5, 70);
    let max_words = rng.urange(2, 9);
    let mut docs: Vec<Value> = Vec::new();
    for i in 0..n_docs {
      let mut m = serde_json::Map::new();
      m.insert("_id".into(), json!(format!("d{i}")));
      for f in TEXT_FIELDS {
        match rng.below(10) {
          0 => {}
          1 | 2 => {
            let k = rng.urange(1, 3);
            let vals: Vec<String> = (0..k).map(|_| gen_text(rng, &vocab, max_words)).collect();
            m.insert(f.to_string(), json!(vals));
          }
          _ => {
            m.insert(f.to_string(), json!(gen_text(rng, &vocab, max_words)));
          }
        }
      }
      for f in KW_FIELDS {
        match rng.below(10) {
          0 => {}
          1..=3 => {
            let k = rng.urange(1, 3);
            let vals: Vec<String> = (0..k)
              .map(|_| if rng.chance(0.5) { rng.pick(KW_BASE).to_string() } else { vocab[rng.zipf(vocab.len())].clone() })
              .collect();
            m.insert(f.to_string(), json!(vals));
          }
          _ => {
            let v = if rng.chance(0.5) { rng.pick(KW_BASE).to_string() } else { vocab[rng.zipf(vocab.len())].clone() };
            m.insert(f.to_string(), json!(v));
          }
        }
      }
      docs.push(Value::Object(m));
    }
    // ---------------- layouts: chunks of consecutive documents
    let mut layouts: Vec<Vec<usize>> = vec![vec![n_docs]];
    for _ in 0..2 {
      let mut lay = vcore::gen::layout(rng, n_docs, 4);
      if lay.len() == 1 && n_docs >= 2 && rng.chance(0.8) {
        let cut = rng.urange(1, n_docs - 1);
        lay = vec![cut, n_docs - cut];
      }
      layouts.push(lay);
    }
    let n_req = if quick { 30 } else { 60 };
    let mut made = 0;
    run_corpus(l, scratch, &sch, &docs, &layouts, |dict: &Dict| {
      if made >= n_req {
        return None;
      }
      made += 1;
      let is_kw = rng.chance(0.25);
      let field: &str = if is_kw { *rng.pick(KW_FIELDS) } else { *rng.pick(TEXT_FIELDS) };
      let d = &dict[field];
      // prefix
      let terms: Vec<&String> = d.keys().collect();
      let base: String = if terms.is_empty() || rng.chance(0.08) {
        rng.pick(&["zz", "q", "xyz", "ru", ""]).to_string()
      } else if rng.chance(0.6) {
        (*rng.pick(&terms)).clone()
      } else {
        vocab[rng.zipf(vocab.len())].clone()
      };
      let cut = match rng.below(10) {
        0 => 0,
        1..=3 => 1,
        4..=6 => 2,
        7 => 3,
        8 => rng.urange(4, 6),
        _ => base.chars().count(),
      };
      let mut prefix = char_prefix(&base, cut);
      match rng.below(12) {
        0 | 1 => prefix = prefix.to_uppercase(),
        2 => prefix = format!("{} {}", vocab[rng.zipf(vocab.len())], prefix),
        3 => prefix = format!("{prefix} "),
        4 => prefix = format!("the {prefix}"),
        5 => prefix = rng.pick(&["--", " ", "?!", ""]).to_string(),
        _ => {}
      }
      let size = *rng.pick(&[0usize, 1, 1, 2, 3, 5, 5, 10, 20, 60, 300]);
      let fz: Option<Fz> = if rng.chance(0.4) {
        Some(Fz {
          max_edits: *rng.pick(&[0u64, 1, 1, 2, 2, 3]),
          prefix_length: *rng.pick(&[0usize, 0, 1, 1, 2, 5]),
          max_expansions: *rng.pick(&[0usize, 1, 3, 20, 50, 50, 300]),
          min_length: *rng.pick(&[0usize, 1, 3, 3, 5]),
        })
      } else {
        None
      };
      let omit_size = size == 5 && rng.chance(0.5);
      Some(ReqSpec { field: field.to_string(), prefix, size, omit_size, fz })
    });
  });
  std::process::exit(ctx.finish());
}
