//! C24 — HTTP requests always get a well-formed response.
//! A live `searchlite-http` process is sent syntactically valid HTTP/1.1 requests with
//! arbitrary methods, paths, content types and bodies (valid, mutated, random, non-UTF-8,
//! truncated JSON, oversized; Content-Length or chunked). Monitor: a complete response
//! arrives; 2xx bodies have the documented shape; every non-2xx is JSON
//! {"error":{"type","reason"}}; status classes (404 before init, 409 second init, 413
//! oversized, 4xx invalid input); /healthz stays 200 and the process stays alive.
use serde_json::{json, Value};
use std::time::Duration;
use vcheck::http::{self, Resp, Server};
use vcore::{Ctx, Local, Rng};

const MAX_BODY: usize = 65536;

fn schema() -> Value {
  json!({
    "doc_id_field": "_id",
    "text_fields": [{"name": "body", "analyzer": "default", "stored": true, "indexed": true}],
    "keyword_fields": [{"name": "tag", "stored": true, "indexed": true, "fast": true, "nullable": true}],
    "numeric_fields": [{"name": "n", "i64": true, "fast": true, "stored": true, "nullable": true}]
  })
}

const ROUTES: &[(&str, &str)] = &[
  ("GET", "/healthz"), ("POST", "/init"), ("POST", "/add"), ("POST", "/bulk"), ("POST", "/delete"), ("POST", "/commit"), ("POST", "/refresh"), ("POST", "/compact"), ("POST", "/search"), ("GET", "/inspect"), ("GET", "/stats"),
];
const INDEX_ROUTES: &[&str] = &["/add", "/bulk", "/delete", "/commit", "/refresh", "/compact", "/search", "/inspect", "/stats"];
const METHODS: &[&str] = &["GET", "POST", "PUT", "DELETE", "PATCH", "OPTIONS", "HEAD"];
const ODD_PATHS: &[&str] = &["/", "/nope", "/search/", "/search/extra", "/Search", "/%73earch", "/search?x=1", "/add?refresh=true", "//search", "/healthz/", "/init/../search", "/a/b/c/d/e/f", "/%00", "/%ff%fe", "/search%20", "/.well-known/x", "*"];
const CTYPES: &[&str] = &["application/json", "application/x-ndjson", "text/plain", "application/json; charset=utf-8", "application/xml", "multipart/form-data; boundary=x", "", "application/octet-stream", "APPLICATION/JSON"];

fn valid_body(rng: &mut Rng, path: &str) -> Vec<u8> {
  match path {
    "/init" => schema().to_string().into_bytes(),
    "/add" => {
      let mut s = String::new();
      for _ in 0..rng.urange(1, 3) {
        s.push_str(&json!({"_id": format!("d{}", rng.below(6)), "body": vcore::gen::sentence(rng, 1, 5), "n": rng.range(0, 9)}).to_string());
        s.push('\n');
      }
      s.into_bytes()
    }
    "/bulk" => json!({"docs": (0..rng.urange(1, 3)).map(|_| json!({"_id": format!("d{}", rng.below(6)), "body": vcore::gen::sentence(rng, 1, 5)})).collect::<Vec<_>>()}).to_string().into_bytes(),
    "/delete" => json!({"ids": [format!("d{}", rng.below(6))]}).to_string().into_bytes(),
    "/search" => {
      let reqs = [
        json!({"query": "rust", "limit": 5, "return_stored": true}),
        json!({"query": {"type": "match_all"}, "limit": 3, "return_stored": false, "aggs": {"t": {"type": "terms", "field": "tag", "size": 3}}}),
        json!({"query": {"type": "term", "field": "body", "value": "search"}, "limit": 2, "return_stored": true, "sort": [{"field": "n", "order": "desc"}]}),
        json!({"query": {"type": "match_all"}, "limit": 2, "return_stored": false, "suggest": {"s": {"type": "completion", "field": "body", "prefix": "ru"}}}),
      ];
      reqs[rng.usize(reqs.len())].to_string().into_bytes()
    }
    _ => Vec::new(),
  }
}

/// requests that make the core return an error (or, before the fixes, panic)
fn hostile_search(rng: &mut Rng) -> Vec<u8> {
  let reqs = [
    json!({"query": "rust", "limit": 5, "return_stored": true, "cursor": format!("a{}a", "é".repeat(20))}),
    json!({"query": "rust", "limit": 0, "return_stored": true}),
    json!({"query": {"type": "regex", "field": "body", "value": "("}, "limit": 5, "return_stored": false}),
    json!({"query": {"type": "match_all"}, "limit": 5, "return_stored": false, "aggs": {"p": {"type": "bucket_script", "buckets_path": {"a": "x"}, "script": "a"}}}),
    json!({"query": {"type": "match_all"}, "limit": 5, "return_stored": false, "sort": [{"field": "nope"}]}),
    json!({"query": {"type": "bool", "should": [{"type": "term", "field": "body", "value": "rust"}, {"type": "term", "field": "body", "value": "rust"}]}, "limit": 5, "return_stored": false}),
    json!({"query": {"type": "script_score", "query": {"type": "match_all"}, "script": "1 +"}, "limit": 5, "return_stored": false}),
    json!({"query": {"type": "match_all"}, "limit": 18446744073709551615u64, "return_stored": false}),
    json!({"query": {"type": "match_all"}, "limit": 5, "return_stored": false, "collapse": {"field": "body"}}),
    json!({"query": {"type": "match_all"}, "limit": 5, "return_stored": false, "aggs": {"h": {"type": "histogram", "field": "n", "interval": 0.0}}}),
  ];
  reqs[rng.usize(reqs.len())].to_string().into_bytes()
}

/// Requests whose error message has to echo long non-ASCII content (unknown field / type
/// names, ids ...): error envelopes must survive any length and any UTF-8 alignment.
fn long_unicode_error_body(rng: &mut Rng, path: &str) -> Vec<u8> {
  let ch = *rng.pick(&["é", "日", "😀", "ß", "本"]);
  let pad = "a".repeat(rng.usize(4));
  let name = format!("{pad}{}", ch.repeat(rng.urange(120, 700)));
  match path {
    "/add" => format!("{}\n", json!({"_id": "u1", "body": "x", name.clone(): "y"})).into_bytes(),
    "/bulk" => json!({"docs": [{"_id": "u1", "body": "x", name.clone(): 1}]}).to_string().into_bytes(),
    "/delete" => json!({"ids": [format!("{name}\u{0007}")]}).to_string().into_bytes(),
    "/init" => json!({"doc_id_field": name, "text_fields": [{"name": name, "analyzer": name, "stored": true, "indexed": true}], "keyword_fields": [], "numeric_fields": []}).to_string().into_bytes(),
    _ => {
      let reqs = [
        json!({"query": {"type": "term", "field": name.clone(), "value": "x"}, "limit": 5, "return_stored": false, "sort": [{"field": name.clone()}]}),
        json!({"query": {"type": name.clone()}, "limit": 5, "return_stored": false}),
        json!({"query": {"type": "match_all"}, "limit": 5, "return_stored": false, "aggs": {"a": {"type": "terms", "field": name.clone()}}}),
        json!({"query": {"type": "match_all"}, "limit": 5, "return_stored": false, "collapse": {"field": name.clone()}}),
        json!({"query": {"type": "regex", "field": "body", "value": format!("({name}")}, "limit": 5, "return_stored": false}),
        json!({"query": {"type": "script_score", "query": {"type": "match_all"}, "script": format!("{name} +")}, "limit": 5, "return_stored": false}),
      ];
      reqs[rng.usize(reqs.len())].to_string().into_bytes()
    }
  }
}

fn mutate(rng: &mut Rng, b: &[u8]) -> Vec<u8> {
  let mut v = b.to_vec();
  for _ in 0..rng.urange(1, 4) {
    if v.is_empty() {
      v.push(rng.below(256) as u8);
      continue;
    }
    let i = rng.usize(v.len());
    match rng.below(5) {
      0 => v[i] = rng.below(256) as u8,
      1 => {
        v.remove(i);
      }
      2 => v.insert(i, *rng.pick(&[b'{', b'}', b'"', b',', b'[', 0xff, 0x00, b'\n', 0xc3])),
      3 => v.truncate(i),
      _ => {
        let j = rng.usize(v.len());
        v.swap(i, j);
      }
    }
  }
  v
}

fn build_request(method: &str, path: &str, ctype: &str, body: &[u8], chunked: bool) -> Vec<u8> {
  let mut h = format!("{method} {path} HTTP/1.1\r\nHost: localhost\r\nConnection: close\r\n");
  if !ctype.is_empty() {
    h.push_str(&format!("Content-Type: {ctype}\r\n"));
  }
  let mut out;
  if chunked {
    h.push_str("Transfer-Encoding: chunked\r\n\r\n");
    out = h.into_bytes();
    let mut p = 0;
    while p < body.len() {
      let n = (body.len() - p).min(4096);
      out.extend_from_slice(format!("{n:x}\r\n").as_bytes());
      out.extend_from_slice(&body[p..p + n]);
      out.extend_from_slice(b"\r\n");
      p += n;
    }
    out.extend_from_slice(b"0\r\n\r\n");
  } else {
    h.push_str(&format!("Content-Length: {}\r\n\r\n", body.len()));
    out = h.into_bytes();
    out.extend_from_slice(body);
  }
  out
}

fn error_body_ok(r: &Resp) -> Result<(), String> {
  let ct = r.header("content-type").unwrap_or("");
  if !ct.to_ascii_lowercase().starts_with("application/json") {
    return Err(format!("content-type `{ct}`"));
  }
  let Some(v) = r.json() else { return Err("body is not JSON".into()) };
  let e = v.get("error").ok_or("no `error` member")?;
  if !e.get("type").map(|t| t.is_string()).unwrap_or(false) {
    return Err("error.type missing or not a string".into());
  }
  if !e.get("reason").map(|t| t.is_string()).unwrap_or(false) {
    return Err("error.reason missing or not a string".into());
  }
  Ok(())
}

fn success_shape_ok(path: &str, v: &Value) -> bool {
  let has = |k: &str| v.get(k).is_some();
  match path {
    "/healthz" => v.get("status").and_then(|s| s.as_str()) == Some("ok"),
    "/init" => v.get("created").map(|x| x.is_boolean()).unwrap_or(false),
    "/add" | "/bulk" | "/delete" => v.get("queued").map(|x| x.is_u64()).unwrap_or(false),
    "/commit" => has("committed"),
    "/refresh" => has("refreshed"),
    "/compact" => has("compacted"),
    "/search" => v.get("hits").map(|h| h.is_array()).unwrap_or(false) && has("total_hits_estimate"),
    "/inspect" => has("manifest"),
    "/stats" => has("documents") && has("segments"),
    _ => false,
  }
}

fn main() {
  let args: Vec<String> = std::env::args().skip(1).collect();
  let mut ctx = Ctx::from_args("C24", "exploration", &args);
  let quick = ctx.quick();
  ctx.rule = "per server instance (started with --max-body-bytes 65536 --request-timeout-secs 5 on an empty directory): index routes before /init (expect 404), /init (200), second /init (409), then a stream of syntactically valid HTTP/1.1 requests: every method x known/unknown/percent-encoded paths x content types x bodies {valid for the route, byte-mutated, random bytes, non-UTF-8, truncated JSON, empty, oversized, long non-ASCII names that error messages must echo} x {Content-Length, chunked}, plus search requests that make the core return errors. Every response is judged (complete; 2xx => documented shape; non-2xx => JSON error envelope; status class); /healthz is probed after every 8th request and at the end. evaluations = responses judged; distinct_nontrivial = distinct (method, path class, body class, framing, status) combinations.".into();
  ctx.assumptions = vec![
    "only syntactically valid HTTP/1.1 requests are judged against the JSON error contract (malformed HTTP is answered by hyper below the application)".into(),
    "responses to HEAD requests carry no body by HTTP semantics; only their status and the server's liveness are judged".into(),
    "requests whose only purpose is unbounded work (histogram bucket explosion, C16 known finding) are not sent".into(),
  ];
  if !http::repo_bin("searchlite-http").exists() {
    eprintln!("searchlite-http binary missing (pre-build step did not run)");
    std::process::exit(2);
  }
  ctx.threads = ctx.threads.min(8);
  let servers = ctx.n(8, 64);
  let per_server = ctx.n(380, 2400) as usize;
  ctx.run_cases("server", servers, |rng: &mut Rng, l: &mut Local, scratch| {
    let dir = scratch.join("idx");
    let _ = std::fs::remove_dir_all(&dir);
    std::fs::create_dir_all(&dir).unwrap();
    let mut server: Server = match http::start_server(&dir, &["--max-body-bytes", "65536", "--request-timeout-secs", "5"]) {
      Ok(s) => s,
      Err(e) => {
        l.inconclusive(format!("server start: {e}"));
        return;
      }
    };
    let addr = server.addr;
    let mut initialised = false;
    let mut judge = |l: &mut Local, method: &str, path: &str, path_class: &str, body_class: &str, chunked: bool, raw: &[u8], expect: Option<&[u16]>, initialised: bool| -> Option<u16> {
      let mut r = http::send_raw(addr, raw, Duration::from_secs(20));
      if matches!(&r, Err(e) if matches!(e.kind(), std::io::ErrorKind::TimedOut | std::io::ErrorKind::WouldBlock)) {
        // a client-side read timeout on a loaded machine is not yet "no response": ask again, patiently
        l.count("client_timeouts_retried_with_180s", 1);
        r = http::send_raw(addr, raw, Duration::from_secs(180));
      }
      let case = json!({"method": method, "path": path, "body_class": body_class, "chunked": chunked, "initialised": initialised,
        "request_head": String::from_utf8_lossy(&raw[..raw.len().min(300)]).to_string(), "body_len": raw.len()});
      l.eval();
      let r = match r {
        Ok(Some(r)) => r,
        Ok(None) => {
          l.fail(format!("no-response:{path_class}:{body_class}"), format!("{method} {path}: the connection ended without a response"), case);
          return None;
        }
        Err(e) => {
          l.fail(format!("connection-error:{path_class}"), format!("{method} {path}: {e}"), case);
          return None;
        }
      };
      l.nontrivial(&(method, path_class, body_class, chunked, r.status));
      if r.truncated && method != "HEAD" {
        l.fail(format!("truncated-response:{path_class}"), format!("{method} {path}: response body shorter than announced"), case.clone());
      }
      if method != "HEAD" {
        if r.is_2xx() {
          match r.json() {
            None => l.fail(format!("success-body-not-json:{path_class}"), format!("{method} {path} -> {} with a non-JSON body", r.status), case.clone()),
            Some(v) => {
              let clean = path.split('?').next().unwrap_or(path);
              if !success_shape_ok(clean, &v) {
                l.fail(format!("success-shape:{path_class}"), format!("{method} {path} -> {} body {v} lacks the documented members", r.status), case.clone());
              }
            }
          }
        } else if let Err(why) = error_body_ok(&r) {
          let kind = if path_class == "unknown-path" { "unknown-route" } else if r.status == 405 { "wrong-method" } else { "known-route" };
          l.fail(
            format!("error-envelope-missing:{kind}:{}", r.status),
            format!("{method} {path} -> {} without the {{\"error\":{{type,reason}}}} body ({why}); body: {:?}", r.status, String::from_utf8_lossy(&r.body).chars().take(120).collect::<String>()),
            case.clone(),
          );
        }
      }
      if r.status >= 500 && r.status != 504 {
        l.count(&format!("status_5xx[{}]", r.status), 1);
      }
      if let Some(exp) = expect {
        if !exp.contains(&r.status) {
          l.fail(format!("status-class:{path_class}:{body_class}:got{}", r.status), format!("{method} {path} ({body_class}) -> {}, expected one of {exp:?}; body: {}", r.status, String::from_utf8_lossy(&r.body).chars().take(300).collect::<String>()), case);
        }
      }
      Some(r.status)
    };
    // phase 1: before /init every index route is 404
    for p in INDEX_ROUTES {
      let m = ROUTES.iter().find(|r| r.1 == *p).unwrap().0;
      let body = valid_body(rng, p);
      let raw = build_request(m, p, "application/json", &body, false);
      judge(l, m, p, "known", "valid-before-init", false, &raw, Some(&[404]), false);
    }
    // phase 2: init, re-init
    let raw = build_request("POST", "/init", "application/json", schema().to_string().as_bytes(), false);
    if judge(l, "POST", "/init", "known", "valid", false, &raw, Some(&[200]), false) == Some(200) {
      initialised = true;
    }
    judge(l, "POST", "/init", "known", "valid-second-init", false, &raw, Some(&[409]), initialised);
    // seed a few documents
    let b = valid_body(rng, "/add");
    judge(l, "POST", "/add", "known", "valid", false, &build_request("POST", "/add", "application/x-ndjson", &b, false), Some(&[200]), initialised);
    judge(l, "POST", "/commit", "known", "valid", false, &build_request("POST", "/commit", "", b"", false), Some(&[200]), initialised);
    // phase 3: the stream
    for i in 0..per_server {
      let known = rng.chance(0.7);
      let (method, path, path_class): (String, String, &str) = if known {
        let r = rng.pick(ROUTES);
        let m = if rng.chance(0.85) { r.0.to_string() } else { rng.pick(METHODS).to_string() };
        (m, r.1.to_string(), "known")
      } else {
        (rng.pick(METHODS).to_string(), rng.pick(ODD_PATHS).to_string(), "unknown-path")
      };
      let right_method = known && ROUTES.iter().any(|r| r.0 == method && r.1 == path);
      let clean = path.as_str();
      let (body, body_class): (Vec<u8>, &str) = match rng.below(100) {
        0..=39 => (valid_body(rng, clean), "valid"),
        40..=54 => {
          let b = valid_body(rng, clean);
          (mutate(rng, &b), "mutated")
        }
        55..=62 => ((0..rng.urange(1, 200)).map(|_| rng.below(256) as u8).collect(), "random-bytes"),
        63..=68 => (vec![0xff, 0xfe, 0xc3, 0x28, b'{', 0xa0, 0xa1], "non-utf8"),
        69..=74 => {
          let b = valid_body(rng, clean);
          let n = b.len() / 2;
          (b[..n].to_vec(), "truncated-json")
        }
        75..=80 => (Vec::new(), "empty"),
        81..=86 => {
          // oversized: a syntactically plausible body larger than the limit
          let filler = "x".repeat(MAX_BODY + 1 + rng.usize(2000));
          (json!({"docs": [{"_id": "big", "body": filler}], "ids": ["x"], "query": "x", "limit": 1, "return_stored": false}).to_string().into_bytes(), "oversized")
        }
        87..=93 => (long_unicode_error_body(rng, clean), "long-unicode-error"),
        _ => (if clean == "/search" { hostile_search(rng) } else { valid_body(rng, clean) }, if clean == "/search" { "core-error" } else { "valid" }),
      };
      let ctype = if rng.chance(0.75) {
        if clean == "/add" { "application/x-ndjson" } else { "application/json" }
      } else {
        *rng.pick(CTYPES)
      };
      let chunked = rng.chance(0.2) && !body.is_empty();
      let raw = build_request(&method, &path, ctype, &body, chunked);
      // expectations only where the property pins the class
      // JSON routes require application/json; /add reads the raw body whatever the content type
      let is_default_ct = ctype.to_ascii_lowercase().starts_with("application/json") || clean == "/add" || matches!(clean, "/commit" | "/refresh" | "/compact" | "/healthz" | "/inspect" | "/stats");
      let expect: Option<Vec<u16>> = if !right_method {
        None // judged by the envelope rule only (404/405 are both non-2xx)
      } else if body_class == "oversized" && !chunked && !body.is_empty() && path != "/healthz" && ROUTES.iter().any(|r| r.1 == path && r.0 == "POST") && matches!(clean, "/init" | "/add" | "/bulk" | "/delete" | "/search") {
        Some(vec![413])
      } else if matches!(body_class, "mutated" | "random-bytes" | "non-utf8" | "truncated-json") && matches!(clean, "/bulk" | "/delete" | "/search") && initialised {
        // malformed input to a JSON route is a client error or - when the mutation happened to stay valid - a success
        Some(vec![200, 400, 404, 409, 413, 415, 422])
      } else if body_class == "core-error" && is_default_ct {
        Some(vec![400, 404, 409, 422, 200])
      } else if body_class == "valid" && is_default_ct && clean != "/init" && initialised {
        Some(vec![200])
      } else if clean == "/init" && initialised && body_class == "valid" && is_default_ct {
        Some(vec![409])
      } else {
        None
      };
      judge(l, &method, &path, path_class, body_class, chunked, &raw, expect.as_deref(), initialised);
      if i % 8 == 7 {
        l.eval();
        if !server.healthy() {
          l.fail("healthz-not-ok", "GET /healthz did not return 200 after a request stream", json!({"after_request": i, "last": {"method": method, "path": path, "body_class": body_class}}));
          if !server.alive() {
            l.fail("server-died", "the server process exited", json!({"after_request": i, "last": {"method": method, "path": path, "body_class": body_class}}));
            return;
          }
        }
      }
    }
    l.eval();
    if !server.alive() || !server.healthy() {
      l.fail("server-down-at-end", "server not alive / healthy at the end of the stream", json!(null));
    }
    if l.samples.is_empty() {
      l.sample(json!({"requests_sent": per_server, "max_body_bytes": MAX_BODY, "example": {"method": "PUT", "path": "/%73earch", "body": "mutated"}}));
    }
    server.stop();
    let _ = std::fs::remove_dir_all(&dir);
  });
  std::process::exit(ctx.finish());
}
