//! C12 — Aggregations are exact and independent of segmentation.
//! Two oracles on every request: (1) the same documents indexed under several commit layouts must
//! give equal aggregation responses; (2) an independent computation over the matched documents.
use serde_json::{json, Map, Value};
use vcore::{idx, Ctx, Local, Rng};

#[path = "../shared/aggs.rs"]
mod aggs;
use aggs::{Mismatch, Oracle, Plan};

use searchlite_core::api::IndexReader;

fn run(reader: &IndexReader, req: &Value) -> Result<Value, String> {
  match vcore::ctx::catch(|| idx::search(reader, req.clone())) {
    Err(p) => Err(format!("panic:{}", vcore::ctx::panic_site(&p))),
    Ok(Err(e)) => Err(format!("error:{}", format!("{e:#}").chars().take(160).collect::<String>())),
    Ok(Ok(res)) => Ok(serde_json::to_value(&res.aggregations).unwrap_or(Value::Null)),
  }
}

fn request(base: &Value, specs: &Map<String, Value>) -> Value {
  let mut r = base.clone();
  r["aggs"] = Value::Object(specs.clone());
  r
}

/// All mismatches against the oracle under the fixed-interval date_histogram convention `conv`
/// (false = keyed by interval start, true = keyed by interval end).
fn judge(specs: &Map<String, Value>, docs: &[&Value], act: &Value, conv: bool) -> Vec<Mismatch> {
  let e = Oracle { dh_ceil: conv }.aggs(specs, docs);
  let mut out = vec![];
  aggs::compare_all(specs, &e, act, &mut vec![], &mut out);
  out
}

/// Which way does this build key a timestamp inside a fixed interval? (not documented, either is
/// accepted, but it has to be the same everywhere)
fn probe_convention() -> bool {
  let dir = std::env::temp_dir().join(format!("c12-conv-{}", std::process::id()));
  let _ = std::fs::remove_dir_all(&dir);
  let docs = vec![json!({"_id": "1", "ts": aggs::TS_BASE + 7_200_000})];
  let mut ceil = false;
  if let Ok(index) = idx::build(&dir, true, &aggs::schema_json(), &docs, &[1]) {
    if let Ok(reader) = index.reader() {
      let req = json!({"query": {"type": "match_all"}, "limit": 1, "return_stored": false,
        "aggs": {"h": {"type": "date_histogram", "field": "ts", "fixed_interval": "1d"}}});
      if let Ok(r) = run(&reader, &req) {
        ceil = r["h"]["buckets"][0]["key"].as_i64() == Some(aggs::TS_BASE + 86_400_000);
      }
    }
  }
  let _ = std::fs::remove_dir_all(&dir);
  ceil
}

/// parameters of a node that limit / threshold buckets, with the value that neutralises them
fn threshold_params(kind: &str) -> Vec<(&'static str, Value)> {
  match kind {
    "terms" => vec![("size", Value::Null), ("min_doc_count", Value::Null)],
    "rare_terms" => vec![("max_doc_count", json!(1_000_000)), ("size", Value::Null)],
    "histogram" | "date_histogram" => vec![("min_doc_count", json!(1))],
    "top_hits" => vec![("from", json!(0))],
    _ => vec![],
  }
}

fn neutralise(specs: &Map<String, Value>, path: &[String], params: &[(&'static str, Value)]) -> Map<String, Value> {
  let mut s = specs.clone();
  if let Some(node) = aggs::spec_at_mut(&mut s, path) {
    if let Some(o) = node.as_object_mut() {
      for (p, v) in params {
        if v.is_null() {
          o.remove(*p);
        } else {
          o.insert(p.to_string(), v.clone());
        }
      }
    }
  }
  s
}

/// The single-commit layout agrees with the oracle and this multi-commit layout does not:
/// find the bucket limit / threshold of the failing node whose removal makes the layout agree.
fn classify_multi(specs: &Map<String, Value>, m: &Mismatch, reader: &IndexReader, base: &Value, docs: &[&Value], conv: bool) -> (Vec<String>, Value) {
  let Some(node) = aggs::spec_at(specs, &m.path) else {
    return (vec![format!("multi-segment-only:{}", m.kind)], json!(null));
  };
  let present: Vec<(&'static str, Value)> = threshold_params(&m.kind)
    .into_iter()
    // rare_terms has an implicit max_doc_count of 1
    .filter(|(p, _)| (m.kind == "rare_terms" && *p == "max_doc_count") || node.get(*p).map(|v| !v.is_null()).unwrap_or(false))
    // a `from` of 0 or a min_doc_count of 1 is already neutral
    .filter(|(p, neutral)| node.get(*p) != Some(neutral))
    .collect();
  let still_fails_here = |s: &Map<String, Value>| -> bool {
    match run(reader, &request(base, s)) {
      Ok(act) => judge(s, docs, &act, conv).iter().any(|m2| m2.path == m.path),
      Err(_) => true,
    }
  };
  if m.kind == "range" || m.kind == "date_range" {
    // two ranges reporting the same bucket key: does giving every range its own key cure it?
    let mut s = specs.clone();
    let mut dup = false;
    if let Some(n) = aggs::spec_at_mut(&mut s, &m.path) {
      let mut seen = std::collections::BTreeSet::new();
      if let Some(rs) = n["ranges"].as_array_mut() {
        for (i, r) in rs.iter_mut().enumerate() {
          let k = match r.get("key").and_then(|k| k.as_str()) {
            Some(k) => k.to_string(),
            None => format!("{:?}/{:?}", r.get("from"), r.get("to")),
          };
          if !seen.insert(k) {
            dup = true;
          }
          r["key"] = json!(format!("unique{i}"));
        }
      }
    }
    if dup && !still_fails_here(&s) {
      return (vec![format!("{}.duplicate-bucket-keys:merged-by-key-across-segments", m.kind)], json!({"made_keys_unique": true}));
    }
  }
  for (p, v) in present.iter() {
    let s = neutralise(specs, &m.path, &[(*p, v.clone())]);
    if !still_fails_here(&s) {
      return (vec![format!("{}.{}:applied-per-segment-before-merge", m.kind, p)], json!({"neutralised": p}));
    }
  }
  if present.len() > 1 {
    // each of the limits alone still leaves a difference, all of them together do not: both are
    // applied per segment (one signature per (aggregation kind, parameter))
    let s = neutralise(specs, &m.path, &present);
    if !still_fails_here(&s) {
      let names: Vec<&str> = present.iter().map(|(p, _)| *p).collect();
      return (names.iter().map(|p| format!("{}.{}:applied-per-segment-before-merge", m.kind, p)).collect(), json!({"neutralised": names}));
    }
  }
  let names: Vec<&str> = present.iter().map(|(p, _)| *p).collect();
  (vec![format!("multi-segment-only:{}[{}]", m.kind, names.join(","))], json!(null))
}

/// The single-commit layout already disagrees with the independent computation.
fn classify_single(specs: &Map<String, Value>, m: &Mismatch, reader: &IndexReader, base: &Value, docs: &[&Value], conv: bool) -> String {
  let node = aggs::spec_at(specs, &m.path).cloned().unwrap_or(Value::Null);
  match m.kind.as_str() {
    "composite" => {
      // histogram source over an i64 field: does the mismatch vanish once those sources are dropped?
      let srcs = node["sources"].as_array().cloned().unwrap_or_default();
      let is_i64_hist = |s: &Value| s["type"] == "histogram" && aggs::field_kind(s["field"].as_str().unwrap_or("")) == aggs::FK::I64;
      if srcs.iter().any(is_i64_hist) {
        let act_empty = run(reader, &request(base, specs))
          .ok()
          .and_then(|a| {
            let mut cur = a;
            // walk to the node: only decidable cheaply for a top-level node
            if m.path.len() == 1 {
              cur = cur.get(&m.path[0]).cloned().unwrap_or(Value::Null);
              Some(cur["buckets"].as_array().map(|b| b.is_empty()).unwrap_or(false))
            } else {
              None
            }
          })
          .unwrap_or(true);
        let kept: Vec<Value> = srcs.iter().filter(|s| !is_i64_hist(s)).cloned().collect();
        let mut ok_without = true;
        if !kept.is_empty() {
          let mut s = specs.clone();
          if let Some(n) = aggs::spec_at_mut(&mut s, &m.path) {
            n["sources"] = json!(kept);
          }
          ok_without = match run(reader, &request(base, &s)) {
            Ok(act) => !judge(&s, docs, &act, conv).iter().any(|m2| m2.path == m.path),
            Err(_) => false,
          };
        }
        if act_empty && ok_without {
          return "composite.histogram-source:i64-field-yields-no-buckets".into();
        }
      }
      "oracle-mismatch:composite".into()
    }
    "date_histogram" => {
      let cal = node.get("calendar_interval").map(|v| !v.is_null()).unwrap_or(false);
      let off = node.get("offset").map(|v| !v.is_null()).unwrap_or(false);
      let ext = node.get("extended_bounds").map(|v| !v.is_null()).unwrap_or(false);
      if cal && off && ext {
        // does it agree once the forced range is dropped?
        let mut s = specs.clone();
        if let Some(n) = aggs::spec_at_mut(&mut s, &m.path) {
          n.as_object_mut().map(|o| o.remove("extended_bounds"));
        }
        let ok = match run(reader, &request(base, &s)) {
          Ok(act) => !judge(&s, docs, &act, conv).iter().any(|m2| m2.path == m.path),
          Err(_) => false,
        };
        if ok {
          return "date_histogram.calendar_interval+offset+extended_bounds:forced-empty-buckets-lose-offset".into();
        }
      }
      format!("oracle-mismatch:date_histogram[{}{}{}]", if cal { "calendar" } else { "fixed" }, if off { ",offset" } else { "" }, if ext { ",extended_bounds" } else { "" })
    }
    k => format!("oracle-mismatch:{k}"),
  }
}

/// `c12 --probe`: the minimal reproductions listed in /verif/findings.d/C12.json, run against the
/// engine; prints expected (independent computation) and actual responses.
fn probe() {
  let dir = std::env::temp_dir().join(format!("c12-probe-{}", std::process::id()));
  let mut n = 0;
  let mut show = |name: &str, docs: Vec<Value>, layout: Vec<usize>, specs: Value| {
    n += 1;
    let p = dir.join(format!("p{n}"));
    let _ = std::fs::remove_dir_all(&p);
    let index = idx::build(&p, true, &aggs::schema_json(), &docs, &layout).expect("build");
    let reader = index.reader().expect("reader");
    let specs = specs.as_object().cloned().unwrap();
    let req = json!({"query": {"type": "match_all"}, "limit": 1, "return_stored": false, "aggs": specs});
    let act = run(&reader, &req).unwrap_or_else(|e| json!(e));
    let refs: Vec<&Value> = docs.iter().collect();
    let exp = Oracle { dh_ceil: false }.aggs(&specs, &refs);
    let mut mm = judge(&specs, &refs, &act, false);
    if !mm.is_empty() && judge(&specs, &refs, &act, true).is_empty() {
      mm.clear();
    }
    println!("== {name}\n   docs     {}\n   commits  {:?}\n   aggs     {}\n   expected {}\n   actual   {}\n   verdict  {}", json!(docs), layout, json!(specs), exp, act,
      if mm.is_empty() { "agrees".to_string() } else { format!("DIFFERS: {}", mm[0].what) });
  };
  let k = |id: &str, k1: &str| json!({"_id": id, "k1": k1});
  show("terms.min_doc_count (1 doc per commit)", vec![k("1", "a"), k("2", "a"), k("3", "a")], vec![1, 1, 1], json!({"t": {"type": "terms", "field": "k1", "min_doc_count": 2}}));
  show("terms.min_doc_count (one commit)", vec![k("1", "a"), k("2", "a"), k("3", "a")], vec![3], json!({"t": {"type": "terms", "field": "k1", "min_doc_count": 2}}));
  show("terms.size", vec![k("1", "a"), k("2", "a"), k("3", "b"), k("4", "b"), k("5", "b")], vec![3, 2], json!({"t": {"type": "terms", "field": "k1", "size": 1}}));
  show("terms.size (one commit)", vec![k("1", "a"), k("2", "a"), k("3", "b"), k("4", "b"), k("5", "b")], vec![5], json!({"t": {"type": "terms", "field": "k1", "size": 1}}));
  show("rare_terms.max_doc_count", vec![k("1", "a"), k("2", "a"), k("3", "a"), k("4", "b")], vec![2, 2], json!({"t": {"type": "rare_terms", "field": "k1", "max_doc_count": 1}}));
  show("rare_terms.max_doc_count (one commit)", vec![k("1", "a"), k("2", "a"), k("3", "a"), k("4", "b")], vec![4], json!({"t": {"type": "rare_terms", "field": "k1", "max_doc_count": 1}}));
  show("rare_terms.size", vec![k("1", "a"), k("2", "b"), k("3", "a")], vec![2, 1], json!({"t": {"type": "rare_terms", "field": "k1", "max_doc_count": 5, "size": 1}}));
  show("rare_terms.size (one commit)", vec![k("1", "a"), k("2", "b"), k("3", "a")], vec![3], json!({"t": {"type": "rare_terms", "field": "k1", "max_doc_count": 5, "size": 1}}));
  let x = |id: &str, v: f64| json!({"_id": id, "x1": v});
  show("histogram.min_doc_count", vec![x("1", 1.0), x("2", 1.5)], vec![1, 1], json!({"h": {"type": "histogram", "field": "x1", "interval": 1.0, "min_doc_count": 2}}));
  show("histogram.min_doc_count (one commit)", vec![x("1", 1.0), x("2", 1.5)], vec![2], json!({"h": {"type": "histogram", "field": "x1", "interval": 1.0, "min_doc_count": 2}}));
  let t = |id: &str, v: i64| json!({"_id": id, "ts": v});
  show("date_histogram.min_doc_count", vec![t("1", aggs::TS_BASE), t("2", aggs::TS_BASE)], vec![1, 1], json!({"h": {"type": "date_histogram", "field": "ts", "calendar_interval": "day", "min_doc_count": 2}}));
  show("date_histogram.min_doc_count (one commit)", vec![t("1", aggs::TS_BASE), t("2", aggs::TS_BASE)], vec![2], json!({"h": {"type": "date_histogram", "field": "ts", "calendar_interval": "day", "min_doc_count": 2}}));
  let q = |id: &str, v: i64| json!({"_id": id, "seq": v});
  let th = json!({"h": {"type": "top_hits", "size": 2, "from": 1, "sort": [{"field": "seq", "order": "asc"}]}});
  show("top_hits.from", vec![q("1", 0), q("2", 1), q("3", 2), q("4", 3)], vec![2, 2], th.clone());
  show("top_hits.from (one commit)", vec![q("1", 0), q("2", 1), q("3", 2), q("4", 3)], vec![4], th);
  show("composite histogram source over an i64 field", vec![json!({"_id": "1", "n1": 3, "x1": 3.0})], vec![1], json!({"c": {"type": "composite", "size": 10, "sources": [{"type": "histogram", "name": "s", "field": "n1", "interval": 1.0}]}}));
  show("composite histogram source over an f64 field", vec![json!({"_id": "1", "n1": 3, "x1": 3.0})], vec![1], json!({"c": {"type": "composite", "size": 10, "sources": [{"type": "histogram", "name": "s", "field": "x1", "interval": 1.0}]}}));
  let ext = json!({"min": aggs::rfc3339(aggs::TS_BASE + 7_200_000, 0), "max": aggs::rfc3339(aggs::TS_BASE + 2 * 86_400_000 + 7_200_000, 0)});
  show("date_histogram calendar_interval + offset + extended_bounds", vec![t("1", aggs::TS_BASE + 7_200_000)], vec![1],
    json!({"h": {"type": "date_histogram", "field": "ts", "calendar_interval": "day", "offset": "1h", "min_doc_count": 0, "extended_bounds": ext}}));
  show("date_histogram calendar_interval + extended_bounds, no offset", vec![t("1", aggs::TS_BASE + 7_200_000)], vec![1],
    json!({"h": {"type": "date_histogram", "field": "ts", "calendar_interval": "day", "min_doc_count": 0, "extended_bounds": ext}}));
  show("(not judged) fixed_interval key convention", vec![t("1", aggs::TS_BASE + 7_200_000)], vec![1], json!({"h": {"type": "date_histogram", "field": "ts", "fixed_interval": "1d"}}));
  show("(not judged) range `to` bound", vec![x("1", 10.0)], vec![1], json!({"r": {"type": "range", "field": "x1", "keyed": false, "ranges": [{"from": 0.0, "to": 10.0}, {"from": 10.0, "to": 20.0}]}}));
  let dup = json!({"r": {"type": "range", "field": "x1", "keyed": false, "ranges": [{"to": 5.5}, {"to": 5.5}]}});
  show("range with two ranges reporting the same key", vec![x("1", 1.0), x("2", 2.0)], vec![1, 1], dup.clone());
  show("range with two ranges reporting the same key (one commit)", vec![x("1", 1.0), x("2", 2.0)], vec![2], dup);
  let _ = std::fs::remove_dir_all(&dir);
}

fn main() {
  let args: Vec<String> = std::env::args().skip(1).collect();
  if args.iter().any(|a| a == "--probe") {
    probe();
    return;
  }
  let mut ctx = Ctx::from_args("C12", "exploration", &args);
  ctx.rule = "per case: a seeded corpus of 20-200 documents (single/multi-valued/missing keyword, i64, f64 fast fields, zipf keys) is indexed in-memory under 4-5 commit layouts (one commit; 2-6 commits; ~1 document per commit; commits with interleaved deletes, re-adds, upserts and ghost documents; compacted); 15-40 requests (match_all / term query / request filter, limit and execution strategy varied) carry random aggregation forests up to depth 3. evaluations = (request, layout) responses compared with the independent computation plus (request, layout) responses compared with the single-commit response. A request is non-trivial (counted once by hash of corpus + request) when it matches at least one document and at least one layout has >= 2 segments.".into();
  ctx.assumptions = vec![
    "terms buckets are ordered doc_count desc then key asc, rare_terms doc_count asc then key asc (the engine's deterministic order; ES default)".into(),
    "range / date_range / hard_bounds boundaries never coincide with a field value (inclusive vs exclusive `to` is not documented and not judged; the engine treats `to` as inclusive)".into(),
    "fixed_interval date_histogram: the README does not say whether a timestamp is keyed by the start or the end of its interval and the repository's own test pins the rounded-up key, so either convention is accepted if applied consistently".into(),
    "percentiles: the interpolation rule of the exact mode is not documented; the value must lie within the order statistics bracketing every common quantile definition, and must not depend on the layout; only fields with <= 256 values are used so the exact mode applies".into(),
    "empty histogram / date_histogram buckets are required only inside extended_bounds when min_doc_count is 0 or omitted; elsewhere they are neither required nor forbidden unless min_doc_count >= 1; sub-aggregations of empty buckets, and min/max/avg of an empty stats, are not judged".into(),
    "extended_stats variance is the population variance; top_hits always sorts on a unique field last (scores and tie order are layout dependent by design) and scores are not compared".into(),
    "no sampling, shard_size, significant_terms, pipeline aggregations, -0.0 values or mixed-case keyword keys".into(),
  ];
  let quick = ctx.quick();
  let conv = probe_convention();
  ctx.set("fixed_interval_keys_observed", json!(if conv { "interval end (rounded up)" } else { "interval start (rounded down)" }));
  let n = ctx.n(80, 10_000);
  ctx.run_cases("aggs", n, |rng: &mut Rng, l: &mut Local, scratch: &std::path::PathBuf| {
    let ndocs = if rng.chance(0.5) { rng.urange(20, 60) } else { rng.urange(60, 200) };
    let docs = aggs::gen_corpus(rng, ndocs);
    let mut info = aggs::corpus_info(&docs);
    let mut plans: Vec<Plan> = vec![aggs::plan_single(&docs), aggs::plan_commits(rng, &docs, 6)];
    let mut extra: Vec<Plan> = vec![aggs::plan_one_per_commit(rng, &docs), aggs::plan_churn(rng, &docs), aggs::plan_compacted(rng, &docs)];
    if quick {
      extra.remove(rng.usize(extra.len()));
    }
    plans.extend(extra);
    let mut readers: Vec<(Plan, searchlite_core::api::Index, IndexReader)> = Vec::new();
    for (i, p) in plans.into_iter().enumerate() {
      let dir = scratch.join(format!("l{i}"));
      let _ = std::fs::remove_dir_all(&dir);
      let built = vcore::ctx::catch(|| -> anyhow::Result<_> {
        let index = aggs::build_plan(&dir, &docs, &p, &mut rng.fork())?;
        let reader = index.reader()?;
        Ok((index, reader))
      });
      match built {
        Ok(Ok((index, reader))) => {
          // the layouts must hold the same live documents, otherwise nothing below means anything
          let live = idx::all_docs(&reader).map(|v| v.len()).unwrap_or(usize::MAX);
          if live != docs.len() {
            l.inconclusive(format!("layout {} holds {live} live documents instead of {} (write-path issue, not judged here)", p.name, docs.len()));
            continue;
          }
          let (commits, dels, ghosts) = aggs::plan_stats(&p);
          l.count(&format!("layout[{}]", p.name), 1);
          l.count("commits_total", commits as u64);
          l.count("deletes_total", dels as u64);
          l.count("ghost_docs_total", ghosts as u64);
          readers.push((p, index, reader));
        }
        Ok(Err(e)) => l.inconclusive(format!("layout {} could not be built: {e:#}", p.name)),
        Err(p2) => l.inconclusive(format!("layout {} panicked while building: {p2}", p.name)),
      }
    }
    if readers.len() < 2 || readers[0].0.name != "single" {
      return;
    }
    l.count("corpora", 1);
    l.count("documents", docs.len() as u64);
    let multi = readers.iter().any(|(p, _, _)| !p.compact && p.commits.len() >= 2);
    let nreq = if quick { 15 } else { 40 };
    for _ in 0..nreq {
      let (q, f) = aggs::gen_query(rng);
      info.clean = rng.chance(0.4);
      if info.clean {
        l.count("requests_avoiding_known_triggers", 1);
      }
      let mut specs = Map::new();
      for i in 0..[1usize, 1, 2][rng.usize(3)] {
        specs.insert(format!("a{i}"), aggs::gen_node(rng, 3, &info));
      }
      let mut base = json!({"query": q, "limit": *rng.pick(&[1usize, 3, 10]), "execution": *rng.pick(&["wand", "bm25", "bmw"]), "return_stored": false});
      if let Some(f) = f.as_ref() {
        base["filter"] = f.clone();
      }
      if rng.chance(0.15) {
        base["return_hits"] = json!(false);
      }
      let matched: Vec<&Value> = docs.iter().filter(|d| aggs::matches(d, &q, f.as_ref())).collect();
      let req = request(&base, &specs);
      let mut kinds = vec![];
      aggs::walk_kinds(&specs, 0, &mut kinds);
      l.count("requests", 1);
      for (d, k) in kinds.iter() {
        l.count(&format!("nodes[{k}]"), 1);
        if *d == 2 {
          l.count("nodes_at_depth_3", 1);
        }
      }
      if !matched.is_empty() && multi {
        l.nontrivial(&(serde_json::to_string(&docs).unwrap_or_default(), req.to_string()));
      }
      if matched.is_empty() {
        l.count("requests_matching_nothing", 1);
      }
      if l.samples.is_empty() && !matched.is_empty() {
        l.sample(json!({"documents": docs.len(), "matched": matched.len(), "request": req,
          "layouts": readers.iter().map(|(p, _, _)| json!({"name": p.name, "commits": p.commits.len(), "compacted": p.compact})).collect::<Vec<_>>()}));
      }
      let mut single_resp: Option<Value> = None;
      let mut single_mm: Vec<Mismatch> = vec![];
      for (li, (plan, _index, reader)) in readers.iter().enumerate() {
        let case = |extra: Value| -> Value {
          json!({"layout": {"name": plan.name, "commits": plan.commits.len(), "compacted": plan.compact,
                  "commit_sizes": plan.commits.iter().map(|c| c.len()).take(12).collect::<Vec<_>>()},
                 "documents": docs.len(), "matched": matched.len(), "request": req, "detail": extra})
        };
        let act = match run(reader, &req) {
          Ok(a) => a,
          Err(e) => {
            l.eval();
            let stem: String = e.split(|c: char| c.is_ascii_digit()).next().unwrap_or("").chars().take(60).collect();
            l.fail(format!("engine-{stem}"), format!("aggregation request failed on layout {}: {e}", plan.name), case(json!(e)));
            if li == 0 {
              break;
            }
            continue;
          }
        };
        l.eval();
        let c = conv;
        let mms = judge(&specs, &matched, &act, c);
        if li == 0 {
          single_mm = mms.clone();
          single_resp = Some(act.clone());
        }
        for m in mms.iter() {
          let in_single = single_mm.iter().any(|s| s.path == m.path);
          if li > 0 && in_single {
            // attributed once, on the single-commit layout
            l.count("mismatch_also_on_single_commit_layout", 1);
            continue;
          }
          let (sigs, extra) = if li > 0 {
            classify_multi(&specs, m, reader, &base, &matched, c)
          } else {
            (vec![classify_single(&specs, m, reader, &base, &matched, c)], json!(null))
          };
          for sig in sigs {
            l.fail(
              sig,
              format!("{} at {} differs from the independent computation on layout {}: {}", m.kind, m.path.join("/"), plan.name, m.what),
              case(json!({"path": m.path, "what": m.what, "single_commit_layout_agrees_here": !in_single, "classifier": extra,
                          "node": aggs::spec_at(&specs, &m.path)})),
            );
          }
        }
        if mms.is_empty() {
          l.count("responses_fully_agreeing_with_oracle", 1);
          if li > 0 && plan.commits.len() >= 2 && !plan.compact {
            l.count("multi_segment_responses_fully_agreeing", 1);
          }
        }
        // layout invariance (also covers what the oracle does not judge)
        if li > 0 {
          if let Some(s) = single_resp.as_ref() {
            l.eval();
            if let Some(diff) = aggs::json_close(s, &act, &mut vec![]) {
              if mms.is_empty() && single_mm.is_empty() {
                l.fail(
                  "layout-variance:not-judged-by-oracle",
                  format!("response differs between the single-commit layout and layout {}: {diff}", plan.name),
                  case(json!({"diff": diff})),
                );
              } else {
                l.count("layout_variance_with_oracle_mismatch", 1);
              }
            }
          }
        }
      }
    }
    drop(readers);
  });
  std::process::exit(ctx.finish());
}
