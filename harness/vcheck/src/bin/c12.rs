//! C12 — Aggregations are exact and independent of segmentation.
//! Two oracles on every request: (1) the same documents indexed under several commit layouts must
//! give equal aggregation responses; (2) an independent computation over the matched documents.
use serde_json::{json, Map, Value};
use vcore::{idx, Ctx, Local, Rng};

#[path = "../shared/aggs.rs"]
mod aggs;
use aggs::{Mismatch, Oracle, Plan};

use searchlite_core::api::IndexReader;

fn run(reader: &IndexReader, req: &Value) -> Result<Value, String> {
  match vcore::ctx::catch(|| idx::search(reader, req.clone())) {
    Err(p) => Err(format!("panic:{}", vcore::ctx::panic_site(&p))),
    Ok(Err(e)) => Err(format!("error:{}", format!("{e:#}").chars().take(160).collect::<String>())),
    Ok(Ok(res)) => Ok(serde_json::to_value(&res.aggregations).unwrap_or(Value::Null)),
  }
}

fn request(base: &Value, specs: &Map<String, Value>) -> Value {
  let mut r = base.clone();
  r["aggs"] = Value::Object(specs.clone());
  r
}

/// All mismatches against the oracle. `conv`: fixed-interval date_histogram convention
/// (false = interval start, true = interval end); None = use whichever fits this response better.
fn judge(specs: &Map<String, Value>, docs: &[&Value], act: &Value, conv: Option<bool>) -> (Vec<Mismatch>, bool) {
  let with = |ceil: bool| -> Vec<Mismatch> {
    let e = Oracle { dh_ceil: ceil }.aggs(specs, docs);
    let mut out = vec![];
    aggs::compare_all(specs, &e, act, &mut vec![], &mut out);
    out
  };
  if let Some(c) = conv {
    return (with(c), c);
  }
  let floor = with(false);
  if floor.is_empty() {
    return (floor, false);
  }
  let mut kinds = vec![];
  aggs::walk_kinds(specs, 0, &mut kinds);
  if kinds.iter().any(|(_, k)| k == "date_histogram") {
    let ceil = with(true);
    if ceil.len() < floor.len() {
      return (ceil, true);
    }
  }
  (floor, false)
}

/// parameters of a node that limit / threshold buckets, with the value that neutralises them
fn threshold_params(kind: &str) -> Vec<(&'static str, Value)> {
  match kind {
    "terms" => vec![("size", Value::Null), ("min_doc_count", Value::Null)],
    "rare_terms" => vec![("max_doc_count", json!(1_000_000)), ("size", Value::Null)],
    "histogram" | "date_histogram" => vec![("min_doc_count", json!(1))],
    "top_hits" => vec![("from", json!(0))],
    _ => vec![],
  }
}

fn neutralise(specs: &Map<String, Value>, path: &[String], params: &[(&'static str, Value)]) -> Map<String, Value> {
  let mut s = specs.clone();
  if let Some(node) = aggs::spec_at_mut(&mut s, path) {
    if let Some(o) = node.as_object_mut() {
      for (p, v) in params {
        if v.is_null() {
          o.remove(*p);
        } else {
          o.insert(p.to_string(), v.clone());
        }
      }
    }
  }
  s
}

/// The single-commit layout agrees with the oracle and this multi-commit layout does not:
/// find the bucket limit / threshold of the failing node whose removal makes the layout agree.
fn classify_multi(specs: &Map<String, Value>, m: &Mismatch, reader: &IndexReader, base: &Value, docs: &[&Value], conv: bool) -> (String, Value) {
  let Some(node) = aggs::spec_at(specs, &m.path) else {
    return (format!("multi-segment-only:{}", m.kind), json!(null));
  };
  let present: Vec<(&'static str, Value)> = threshold_params(&m.kind)
    .into_iter()
    // rare_terms has an implicit max_doc_count of 1
    .filter(|(p, _)| (m.kind == "rare_terms" && *p == "max_doc_count") || node.get(*p).map(|v| !v.is_null()).unwrap_or(false))
    // a `from` of 0 or a min_doc_count of 1 is already neutral
    .filter(|(p, neutral)| node.get(*p) != Some(neutral))
    .collect();
  let still_fails_here = |s: &Map<String, Value>| -> bool {
    match run(reader, &request(base, s)) {
      Ok(act) => judge(s, docs, &act, Some(conv)).0.iter().any(|m2| m2.path == m.path),
      Err(_) => true,
    }
  };
  for (p, v) in present.iter() {
    let s = neutralise(specs, &m.path, &[(*p, v.clone())]);
    if !still_fails_here(&s) {
      return (format!("{}.{}:applied-per-segment-before-merge", m.kind, p), json!({"neutralised": p}));
    }
  }
  if present.len() > 1 {
    let s = neutralise(specs, &m.path, &present);
    if !still_fails_here(&s) {
      let names: Vec<&str> = present.iter().map(|(p, _)| *p).collect();
      return (format!("{}.{}:applied-per-segment-before-merge", m.kind, names.join("+")), json!({"neutralised": names}));
    }
  }
  let names: Vec<&str> = present.iter().map(|(p, _)| *p).collect();
  (format!("multi-segment-only:{}[{}]", m.kind, names.join(",")), json!(null))
}

/// The single-commit layout already disagrees with the independent computation.
fn classify_single(specs: &Map<String, Value>, m: &Mismatch, reader: &IndexReader, base: &Value, docs: &[&Value], conv: bool) -> String {
  let node = aggs::spec_at(specs, &m.path).cloned().unwrap_or(Value::Null);
  match m.kind.as_str() {
    "composite" => {
      // histogram source over an i64 field: does the mismatch vanish once those sources are dropped?
      let srcs = node["sources"].as_array().cloned().unwrap_or_default();
      let is_i64_hist = |s: &Value| s["type"] == "histogram" && aggs::field_kind(s["field"].as_str().unwrap_or("")) == aggs::FK::I64;
      if srcs.iter().any(is_i64_hist) {
        let act_empty = run(reader, &request(base, specs))
          .ok()
          .and_then(|a| {
            let mut cur = a;
            // walk to the node: only decidable cheaply for a top-level node
            if m.path.len() == 1 {
              cur = cur.get(&m.path[0]).cloned().unwrap_or(Value::Null);
              Some(cur["buckets"].as_array().map(|b| b.is_empty()).unwrap_or(false))
            } else {
              None
            }
          })
          .unwrap_or(true);
        let kept: Vec<Value> = srcs.iter().filter(|s| !is_i64_hist(s)).cloned().collect();
        let mut ok_without = true;
        if !kept.is_empty() {
          let mut s = specs.clone();
          if let Some(n) = aggs::spec_at_mut(&mut s, &m.path) {
            n["sources"] = json!(kept);
          }
          ok_without = match run(reader, &request(base, &s)) {
            Ok(act) => !judge(&s, docs, &act, Some(conv)).0.iter().any(|m2| m2.path == m.path),
            Err(_) => false,
          };
        }
        if act_empty && ok_without {
          return "composite.histogram-source:i64-field-yields-no-buckets".into();
        }
      }
      "oracle-mismatch:composite".into()
    }
    "date_histogram" => {
      let cal = node.get("calendar_interval").map(|v| !v.is_null()).unwrap_or(false);
      let off = node.get("offset").map(|v| !v.is_null()).unwrap_or(false);
      let ext = node.get("extended_bounds").map(|v| !v.is_null()).unwrap_or(false);
      if cal && off && ext {
        // does it agree once the forced range is dropped?
        let mut s = specs.clone();
        if let Some(n) = aggs::spec_at_mut(&mut s, &m.path) {
          n.as_object_mut().map(|o| o.remove("extended_bounds"));
        }
        let ok = match run(reader, &request(base, &s)) {
          Ok(act) => !judge(&s, docs, &act, Some(conv)).0.iter().any(|m2| m2.path == m.path),
          Err(_) => false,
        };
        if ok {
          return "date_histogram.calendar_interval+offset+extended_bounds:forced-empty-buckets-lose-offset".into();
        }
      }
      format!("oracle-mismatch:date_histogram[{}{}{}]", if cal { "calendar" } else { "fixed" }, if off { ",offset" } else { "" }, if ext { ",extended_bounds" } else { "" })
    }
    k => format!("oracle-mismatch:{k}"),
  }
}

fn main() {
  let args: Vec<String> = std::env::args().skip(1).collect();
  let mut ctx = Ctx::from_args("C12", "exploration", &args);
  ctx.rule = "per case: a seeded corpus of 20-200 documents (single/multi-valued/missing keyword, i64, f64 fast fields, zipf keys) is indexed in-memory under 4-5 commit layouts (one commit; 2-6 commits; ~1 document per commit; commits with interleaved deletes, re-adds, upserts and ghost documents; compacted); 15-40 requests (match_all / term query / request filter, limit and execution strategy varied) carry random aggregation forests up to depth 3. evaluations = (request, layout) responses compared with the independent computation plus (request, layout) responses compared with the single-commit response. A request is non-trivial (counted once by hash of corpus + request) when it matches at least one document and at least one layout has >= 2 segments.".into();
  ctx.assumptions = vec![
    "terms buckets are ordered doc_count desc then key asc, rare_terms doc_count asc then key asc (the engine's deterministic order; ES default)".into(),
    "range / date_range / hard_bounds boundaries never coincide with a field value (inclusive vs exclusive `to` is not documented and not judged; the engine treats `to` as inclusive)".into(),
    "fixed_interval date_histogram: the README does not say whether a timestamp is keyed by the start or the end of its interval and the repository's own test pins the rounded-up key, so either convention is accepted if applied consistently".into(),
    "percentiles: the interpolation rule of the exact mode is not documented; the value must lie within the order statistics bracketing every common quantile definition, and must not depend on the layout; only fields with <= 256 values are used so the exact mode applies".into(),
    "empty histogram / date_histogram buckets are required only inside extended_bounds when min_doc_count is 0 or omitted; elsewhere they are neither required nor forbidden unless min_doc_count >= 1; sub-aggregations of empty buckets, and min/max/avg of an empty stats, are not judged".into(),
    "extended_stats variance is the population variance; top_hits always sorts on a unique field last (scores and tie order are layout dependent by design) and scores are not compared".into(),
    "no sampling, shard_size, significant_terms, pipeline aggregations, -0.0 values or mixed-case keyword keys".into(),
  ];
  let quick = ctx.quick();
  let n = ctx.n(80, 1500);
  ctx.run_cases("aggs", n, |rng: &mut Rng, l: &mut Local, scratch: &std::path::PathBuf| {
    let ndocs = if rng.chance(0.5) { rng.urange(20, 60) } else { rng.urange(60, 200) };
    let docs = aggs::gen_corpus(rng, ndocs);
    let mut info = aggs::corpus_info(&docs);
    let mut plans: Vec<Plan> = vec![aggs::plan_single(&docs), aggs::plan_commits(rng, &docs, 6)];
    let mut extra: Vec<Plan> = vec![aggs::plan_one_per_commit(rng, &docs), aggs::plan_churn(rng, &docs), aggs::plan_compacted(rng, &docs)];
    if quick {
      extra.remove(rng.usize(extra.len()));
    }
    plans.extend(extra);
    let mut readers: Vec<(Plan, searchlite_core::api::Index, IndexReader)> = Vec::new();
    for (i, p) in plans.into_iter().enumerate() {
      let dir = scratch.join(format!("l{i}"));
      let _ = std::fs::remove_dir_all(&dir);
      let built = vcore::ctx::catch(|| -> anyhow::Result<_> {
        let index = aggs::build_plan(&dir, &docs, &p, &mut rng.fork())?;
        let reader = index.reader()?;
        Ok((index, reader))
      });
      match built {
        Ok(Ok((index, reader))) => {
          // the layouts must hold the same live documents, otherwise nothing below means anything
          let live = idx::all_docs(&reader).map(|v| v.len()).unwrap_or(usize::MAX);
          if live != docs.len() {
            l.inconclusive(format!("layout {} holds {live} live documents instead of {} (write-path issue, not judged here)", p.name, docs.len()));
            continue;
          }
          let (commits, dels, ghosts) = aggs::plan_stats(&p);
          l.count(&format!("layout[{}]", p.name), 1);
          l.count("commits_total", commits as u64);
          l.count("deletes_total", dels as u64);
          l.count("ghost_docs_total", ghosts as u64);
          readers.push((p, index, reader));
        }
        Ok(Err(e)) => l.inconclusive(format!("layout {} could not be built: {e:#}", p.name)),
        Err(p2) => l.inconclusive(format!("layout {} panicked while building: {p2}", p.name)),
      }
    }
    if readers.len() < 2 || readers[0].0.name != "single" {
      return;
    }
    l.count("corpora", 1);
    l.count("documents", docs.len() as u64);
    let multi = readers.iter().any(|(p, _, _)| !p.compact && p.commits.len() >= 2);
    let nreq = if quick { 15 } else { 40 };
    for _ in 0..nreq {
      let (q, f) = aggs::gen_query(rng);
      info.clean = rng.chance(0.4);
      if info.clean {
        l.count("requests_avoiding_known_triggers", 1);
      }
      let mut specs = Map::new();
      for i in 0..[1usize, 1, 2][rng.usize(3)] {
        specs.insert(format!("a{i}"), aggs::gen_node(rng, 3, &info));
      }
      let mut base = json!({"query": q, "limit": *rng.pick(&[1usize, 3, 10]), "execution": *rng.pick(&["wand", "bm25", "bmw"]), "return_stored": false});
      if let Some(f) = f.as_ref() {
        base["filter"] = f.clone();
      }
      if rng.chance(0.15) {
        base["return_hits"] = json!(false);
      }
      let matched: Vec<&Value> = docs.iter().filter(|d| aggs::matches(d, &q, f.as_ref())).collect();
      let req = request(&base, &specs);
      let mut kinds = vec![];
      aggs::walk_kinds(&specs, 0, &mut kinds);
      l.count("requests", 1);
      for (d, k) in kinds.iter() {
        l.count(&format!("nodes[{k}]"), 1);
        if *d == 2 {
          l.count("nodes_at_depth_3", 1);
        }
      }
      if !matched.is_empty() && multi {
        l.nontrivial(&(serde_json::to_string(&docs).unwrap_or_default(), req.to_string()));
      }
      if matched.is_empty() {
        l.count("requests_matching_nothing", 1);
      }
      if l.samples.is_empty() && !matched.is_empty() {
        l.sample(json!({"documents": docs.len(), "matched": matched.len(), "request": req,
          "layouts": readers.iter().map(|(p, _, _)| json!({"name": p.name, "commits": p.commits.len(), "compacted": p.compact})).collect::<Vec<_>>()}));
      }
      let mut single_resp: Option<Value> = None;
      let mut single_mm: Vec<Mismatch> = vec![];
      let mut conv: Option<bool> = None;
      for (li, (plan, _index, reader)) in readers.iter().enumerate() {
        let case = |extra: Value| -> Value {
          json!({"layout": {"name": plan.name, "commits": plan.commits.len(), "compacted": plan.compact,
                  "commit_sizes": plan.commits.iter().map(|c| c.len()).take(12).collect::<Vec<_>>()},
                 "documents": docs.len(), "matched": matched.len(), "request": req, "detail": extra})
        };
        let act = match run(reader, &req) {
          Ok(a) => a,
          Err(e) => {
            l.eval();
            let stem: String = e.split(|c: char| c.is_ascii_digit()).next().unwrap_or("").chars().take(60).collect();
            l.fail(format!("engine-{stem}"), format!("aggregation request failed on layout {}: {e}", plan.name), case(json!(e)));
            if li == 0 {
              break;
            }
            continue;
          }
        };
        l.eval();
        let (mms, c) = judge(&specs, &matched, &act, conv);
        if li == 0 {
          conv = Some(c);
          if c {
            l.count("requests_judged_with_interval_end_keys", 1);
          }
          single_mm = mms.clone();
          single_resp = Some(act.clone());
        }
        for m in mms.iter() {
          let in_single = single_mm.iter().any(|s| s.path == m.path);
          if li > 0 && in_single {
            // attributed once, on the single-commit layout
            l.count("mismatch_also_on_single_commit_layout", 1);
            continue;
          }
          let (sig, extra) = if li > 0 {
            classify_multi(&specs, m, reader, &base, &matched, c)
          } else {
            (classify_single(&specs, m, reader, &base, &matched, c), json!(null))
          };
          l.fail(
            sig,
            format!("{} at {} differs from the independent computation on layout {}: {}", m.kind, m.path.join("/"), plan.name, m.what),
            case(json!({"path": m.path, "what": m.what, "single_commit_layout_agrees_here": !in_single, "classifier": extra,
                        "node": aggs::spec_at(&specs, &m.path)})),
          );
        }
        if mms.is_empty() {
          l.count("responses_fully_agreeing_with_oracle", 1);
          if li > 0 && plan.commits.len() >= 2 && !plan.compact {
            l.count("multi_segment_responses_fully_agreeing", 1);
          }
        }
        // layout invariance (also covers what the oracle does not judge)
        if li > 0 {
          if let Some(s) = single_resp.as_ref() {
            l.eval();
            if let Some(diff) = aggs::json_close(s, &act, &mut vec![]) {
              if mms.is_empty() && single_mm.is_empty() {
                l.fail(
                  "layout-variance:not-judged-by-oracle",
                  format!("response differs between the single-commit layout and layout {}: {diff}", plan.name),
                  case(json!({"diff": diff})),
                );
              } else {
                l.count("layout_variance_with_oracle_mismatch", 1);
              }
            }
          }
        }
      }
    }
    drop(readers);
  });
  std::process::exit(ctx.finish());
}
