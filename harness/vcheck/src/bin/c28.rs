//! C28 — A copied index directory is self-contained.
//! Monitors: (1) result equality between the original and the copy; (2) dependency test: the
//! original is renamed away (or modified) before the copy is used; (3) syscall monitor: the
//! operations on the copy run in a worker under `strace -f -e trace=%file`; any syscall whose
//! path lies under the original directory is a violation; (4) tamper test: listing + content
//! hashes of the original before and after.
use searchlite_core::api::Index;
use serde_json::{json, Value};
use std::collections::BTreeMap;
use std::path::{Path, PathBuf};
use std::process::Command;
use std::time::Duration;
use vcheck::hist;
use vcore::{gen, idx, sandbox, Ctx, Local, Rng};

fn battery() -> Vec<Value> {
  vec![
    json!({"query":{"type":"match_all"},"limit":1000,"return_stored":true,"execution":"bm25"}),
    json!({"query":{"type":"term","field":"body","value":"rust"},"limit":1000,"return_stored":false,"execution":"bm25"}),
    json!({"query":{"type":"match_all"},"filter":{"I64Range":{"field":"n","min":0,"max":9}},"limit":1000,"return_stored":false}),
    json!({"query":{"type":"match_all"},"sort":[{"field":"n","order":"desc"}],"limit":1000,"return_stored":false}),
    json!({"query":{"type":"match_all"},"limit":1,"return_stored":false,"aggs":{"tags":{"type":"terms","field":"tag","size":10}}}),
  ]
}

fn answers(root: &Path) -> Result<Value, String> {
  let r = vcore::ctx::catch(|| -> anyhow::Result<Value> {
    let index = Index::open(idx::opts(root, false))?;
    let reader = index.reader()?;
    let mut out = Vec::new();
    for b in battery() {
      let mut v = serde_json::to_value(idx::search(&reader, b)?)?;
      if let Some(o) = v.as_object_mut() {
        o.remove("profile");
      }
      out.push(v);
    }
    Ok(Value::Array(out))
  });
  match r {
    Err(p) => Err(format!("panic: {p}")),
    Ok(Err(e)) => Err(format!("{e:#}")),
    Ok(Ok(v)) => Ok(v),
  }
}

fn build(root: &Path, rng: &mut Rng) -> anyhow::Result<()> {
  let _ = std::fs::remove_dir_all(root);
  let schema = hist::schema();
  let index = Index::create(root, idx::schema(&schema.to_json())?, idx::opts(root, false))?;
  let mut w = index.writer()?;
  let segs = rng.urange(1, 4);
  let mut k = 0;
  for s in 0..segs {
    for _ in 0..rng.urange(1, 5) {
      let id = format!("d{k}");
      let mut d = gen::simple_doc(rng, &id, &format!("v{k}"));
      d["n"] = json!(rng.range(0, 15));
      d["tag"] = json!(rng.pick(gen::TAGS));
      d["body"] = json!(format!("v{k} rust {}", gen::sentence(rng, 1, 4)));
      w.add_document(&idx::doc(&d))?;
      k += 1;
    }
    w.commit()?;
    if s == 1 && rng.chance(0.6) {
      w.delete_document("d0")?;
      w.commit()?;
    }
  }
  if rng.chance(0.5) {
    w.add_document(&idx::doc(&gen::simple_doc(rng, "pending1", "pend")))?;
  }
  drop(w);
  Ok(())
}

fn copy_dir(a: &Path, b: &Path) -> std::io::Result<()> {
  std::fs::create_dir_all(b)?;
  for e in std::fs::read_dir(a)? {
    let e = e?;
    let to = b.join(e.file_name());
    if e.path().is_dir() {
      copy_dir(&e.path(), &to)?;
    } else {
      std::fs::copy(e.path(), &to)?;
    }
  }
  Ok(())
}

fn snapshot(a: &Path) -> BTreeMap<String, (u64, u64)> {
  let mut m = BTreeMap::new();
  if let Ok(rd) = std::fs::read_dir(a) {
    for e in rd.flatten() {
      if e.path().is_file() {
        let data = std::fs::read(e.path()).unwrap_or_default();
        m.insert(e.file_name().to_string_lossy().to_string(), (data.len() as u64, vcore::rng::hash_bytes(&data)));
      }
    }
  }
  m
}

/// `c28 worker <copy_dir> <out.json>`: everything a user would do with a restored backup.
fn worker(a: &[String]) -> i32 {
  vcore::ctx::install_panic_hook();
  let b = PathBuf::from(&a[0]);
  let out = PathBuf::from(&a[1]);
  let mut steps: Vec<Value> = Vec::new();
  let mut step = |name: &str, r: Result<Value, String>| {
    steps.push(match r {
      Ok(v) => json!({"step": name, "ok": v}),
      Err(e) => json!({"step": name, "err": e}),
    });
  };
  step("answers-before", answers(&b));
  let r = vcore::ctx::catch(|| -> anyhow::Result<Value> {
    let index = Index::open(idx::opts(&b, false))?;
    let mut w = index.writer()?;
    w.add_document(&idx::doc(&json!({"_id": "copy-new", "body": "added through the copy rust", "n": 3, "tag": "red"})))?;
    w.commit()?;
    w.delete_document("d1")?;
    w.commit()?;
    drop(w);
    index.compact()?;
    let reader = index.reader()?;
    let ids: Vec<String> = idx::all_docs(&reader)?.into_iter().map(|d| d.0).collect();
    Ok(json!(ids))
  });
  step(
    "write-compact",
    match r {
      Err(p) => Err(format!("panic: {p}")),
      Ok(Err(e)) => Err(format!("{e:#}")),
      Ok(Ok(v)) => Ok(v),
    },
  );
  step("answers-after-reopen", answers(&b).map(|v| json!(v[0]["hits"].as_array().map(|h| h.len()))));
  std::fs::write(&out, json!({"steps": steps}).to_string()).unwrap();
  0
}

fn main() {
  let args: Vec<String> = std::env::args().skip(1).collect();
  if args.first().map(|s| s.as_str()) == Some("worker") {
    std::process::exit(worker(&args[1..]));
  }
  let mut ctx = Ctx::from_args("C28", "exploration", &args);
  ctx.rule = "each scenario builds a random committed index A (1-4 segments, deletions, optional queued log records), copies the directory to B and then, in one of four variants {original kept, original renamed away, original modified by a further commit + compaction, original deleted}, runs a worker process on B under `strace -f -e trace=%file`: open + 5-request battery, add+commit, delete+commit, compact, reopen + battery. Judged: B's initial answers equal A's pre-copy answers; every step succeeds; no traced syscall names a path under A; A's listing and content hashes are unchanged by the worker. evaluations = judgements made; distinct_nontrivial = distinct (variant, #segments, has deletions, has queued records) scenario shapes x steps.".into();
  ctx.assumptions = vec![
    "the copy is a plain recursive file copy of a quiescent index (no writer open), as the README suggests for backups".into(),
    "strace sees every path-taking syscall of the worker and its threads".into(),
  ];
  let exe = sandbox::self_exe();
  ctx.threads = ctx.threads.min(8);
  let n = ctx.n(48, 1600);
  ctx.run_cases("scenario", n, |rng: &mut Rng, l: &mut Local, scratch| {
    // directory names: unrelated, and the textual-prefix relations that real backup names have
    // (catalog-2024 -> catalog, idx -> idx.bak, idx2 -> idx): a path comparison by string prefix
    // instead of by component confuses exactly these
    let (name_a, name_b) = [("orig-index-A", "copy-index-B"), ("catalog-2024", "catalog"), ("idx", "idx.bak"), ("idx2", "idx")][((l.case_idx / 4) % 4) as usize];
    l.count(&format!("naming[{name_a}->{name_b}]"), 1);
    let a = scratch.join(name_a);
    let b = scratch.join(name_b);
    let moved = scratch.join(format!("{name_a}.moved-away"));
    for p in [&a, &b, &moved] {
      let _ = std::fs::remove_dir_all(p);
    }
    if let Err(e) = build(&a, rng) {
      l.inconclusive(format!("build: {e:#}"));
      return;
    }
    let ans_a = match answers(&a) {
      // same text round trip as the worker's answers go through (serde_json's default float
      // parser is not bit-exact, so both sides must take the same path)
      Ok(v) => serde_json::from_str::<Value>(&v.to_string()).unwrap_or(v),
      Err(e) => {
        l.inconclusive(format!("answers on the original: {e}"));
        return;
      }
    };
    let manifest_a: Value = serde_json::from_slice(&std::fs::read(a.join("MANIFEST.json")).unwrap_or_default()).unwrap_or(Value::Null);
    let segs = manifest_a["segments"].as_array().map(|s| s.len()).unwrap_or(0);
    let has_del = manifest_a["segments"].as_array().map(|s| s.iter().any(|x| x["deleted_docs"].as_array().map(|d| !d.is_empty()).unwrap_or(false))).unwrap_or(false);
    let has_wal = std::fs::metadata(a.join("wal.log")).map(|m| m.len() > 0).unwrap_or(false);
    if let Err(e) = copy_dir(&a, &b) {
      l.inconclusive(format!("copy: {e}"));
      return;
    }
    let variant = ["kept", "renamed-away", "modified", "deleted"][(l.case_idx % 4) as usize];
    let mut a_now = a.clone();
    match variant {
      "renamed-away" => {
        std::fs::rename(&a, &moved).unwrap();
        a_now = moved.clone();
      }
      "deleted" => {
        std::fs::remove_dir_all(&a).unwrap();
      }
      "modified" => {
        let r = (|| -> anyhow::Result<()> {
          let index = Index::open(idx::opts(&a, false))?;
          let mut w = index.writer()?;
          w.add_document(&idx::doc(&json!({"_id": "orig-extra", "body": "only in the original rust", "n": 1, "tag": "blue"})))?;
          w.commit()?;
          drop(w);
          index.compact()?;
          Ok(())
        })();
        if let Err(e) = r {
          l.inconclusive(format!("modifying the original: {e:#}"));
          return;
        }
      }
      _ => {}
    }
    let snap_before = if variant == "deleted" { BTreeMap::new() } else { snapshot(&a_now) };
    // worker on B under strace
    let tp = scratch.join("trace.txt");
    let op = scratch.join("worker.json");
    let _ = std::fs::remove_file(&op);
    let mut cmd = Command::new("strace");
    cmd.arg("-f").arg("-e").arg("trace=%file").arg("-s").arg("4096").arg("-o").arg(&tp).arg(&exe).arg("worker").arg(&b).arg(&op);
    let o = match sandbox::run(cmd, None, Duration::from_secs(180)) {
      Ok(o) => o,
      Err(e) => {
        l.inconclusive(format!("strace: {e}"));
        return;
      }
    };
    let case = |extra: Value| json!({"variant": variant, "naming": format!("{name_a}->{name_b}"), "segments": segs, "has_deletions": has_del, "has_queued_records": has_wal, "original": a.to_string_lossy(), "copy": b.to_string_lossy(), "extra": extra});
    if !o.ok() || !op.exists() {
      l.fail(format!("worker-died:{variant}"), format!("using the copy crashed the process: code {:?} signal {:?} {}", o.code, o.signal, o.stderr_str().chars().take(300).collect::<String>()), case(json!(null)));
      return;
    }
    let res: Value = serde_json::from_str(&std::fs::read_to_string(&op).unwrap_or_default()).unwrap_or(Value::Null);
    let steps = res["steps"].as_array().cloned().unwrap_or_default();
    let manifest_b_paths: Vec<String> = manifest_a["segments"].as_array().map(|s| s.iter().flat_map(|x| x["paths"].as_object().map(|p| p.values().filter_map(|v| v.as_str().map(|s| s.to_string())).collect::<Vec<_>>()).unwrap_or_default()).collect()).unwrap_or_default();
    for st in steps.iter() {
      l.eval();
      l.nontrivial(&(variant, segs, has_del, has_wal, st["step"].as_str().unwrap_or("")));
      if let Some(e) = st.get("err") {
        let es = e.as_str().unwrap_or("");
        let names_original = es.contains(&*a.to_string_lossy());
        l.fail(
          if names_original { format!("copy-depends-on-original-path:{}:{variant}", st["step"].as_str().unwrap_or("")) } else { format!("copy-unusable:{}:{variant}", st["step"].as_str().unwrap_or("")) },
          format!("step {} on the copy failed: {es}", st["step"]),
          case(json!({"step": st})),
        );
      }
    }
    // (1) equality of the initial answers
    if let Some(first) = steps.first().and_then(|s| s.get("ok")) {
      l.eval();
      if *first != ans_a {
        l.fail(format!("copy-answers-differ:{variant}"), "the copy does not serve the results the original served at copy time".to_string(), case(json!({"original_answers": ans_a, "copy_answers": first})));
      }
    }
    // (3) syscall monitor
    let trace = std::fs::read_to_string(&tp).unwrap_or_default();
    let needle = a.to_string_lossy().to_string();
    let mut touched: Vec<String> = Vec::new();
    let mut file_syscalls = 0u64;
    for line in trace.lines() {
      if line.contains("execve(") {
        continue;
      }
      if line.contains(&*b.to_string_lossy()) || line.contains(&needle) {
        file_syscalls += 1;
      }
      // `needle` is a prefix of the moved-away name too; a hit on the exact old path or below it counts
      // every occurrence: the copy's own name may contain the original's name as a textual prefix
      let mut from = 0;
      while let Some(off) = line[from..].find(&needle) {
        let pos = from + off;
        let rest = &line[pos + needle.len()..];
        if rest.starts_with('/') || rest.starts_with('"') {
          touched.push(line.chars().take(220).collect());
          break;
        }
        from = pos + needle.len();
      }
    }
    l.eval();
    l.count("file_syscalls_on_index_paths", file_syscalls);
    if !touched.is_empty() {
      let from_manifest = touched.iter().any(|t| manifest_b_paths.iter().any(|p| t.contains(p)));
      let mutating = touched.iter().any(|t| t.contains("unlink") || t.contains("O_WRONLY") || t.contains("O_RDWR") || t.contains("rename") || t.contains("O_CREAT"));
      l.fail(
        if from_manifest { format!("syscall-on-original-path:absolute-path-from-manifest:{}", if mutating { "mutating" } else { "read-only" }) } else { "syscall-on-original-path:other".to_string() },
        format!("{} syscalls issued through the copy name paths under the original directory, e.g. {}", touched.len(), touched[0]),
        case(json!({"syscalls": touched.iter().take(8).collect::<Vec<_>>()})),
      );
    }
    // (4) tamper test
    if variant != "deleted" {
      l.eval();
      let snap_after = snapshot(&a_now);
      if snap_after != snap_before {
        let gone: Vec<&String> = snap_before.keys().filter(|k| !snap_after.contains_key(*k)).collect();
        l.fail(format!("original-modified-through-copy:{variant}"), format!("files of the original changed while only the copy was used; removed: {gone:?}"), case(json!({"before": snap_before.keys().collect::<Vec<_>>(), "after": snap_after.keys().collect::<Vec<_>>()})));
      }
    }
    if l.samples.is_empty() {
      l.sample(case(json!({"steps": steps.iter().map(|s| s["step"].clone()).collect::<Vec<_>>(), "file_syscalls_on_index_paths": file_syscalls})));
    }
    for p in [&a, &b, &moved] {
      let _ = std::fs::remove_dir_all(p);
    }
  });
  std::process::exit(ctx.finish());
}
