//! C25 — CLI, HTTP and FFI agree with the Rust API.
//! One generated scenario (schema, document batches, deletes, commit layout, compaction,
//! 10-30 requests) is executed through four drivers into four directories: the library, the
//! `searchlite-cli` binary (subprocesses), a live `searchlite-http` server, and the C ABI
//! (searchlite-ffi rlib, called in-process). Final contents and every response are compared
//! after parsing (profile timings dropped).
use searchlite_core::api::Index;
use searchlite_ffi::{searchlite_add_json, searchlite_commit, searchlite_index_close, searchlite_index_open, searchlite_search};
use serde_json::{json, Value};
use std::ffi::CString;
use std::os::raw::c_char;
use std::path::{Path, PathBuf};
use std::process::Command;
use std::time::Duration;
use vcheck::http;
use vcore::{gen, idx, sandbox, Ctx, Local, Rng};

fn schema() -> Value {
  json!({
    "doc_id_field": "_id",
    "analyzers": [{"name": "eng", "tokenizer": "default", "filters": [{"stopwords": "en"}, {"stemmer": "english"}]}],
    "text_fields": [
      {"name": "body", "analyzer": "default", "stored": true, "indexed": true},
      {"name": "title", "analyzer": "eng", "stored": true, "indexed": true, "nullable": true}
    ],
    "keyword_fields": [{"name": "tag", "stored": true, "indexed": true, "fast": true, "nullable": true}],
    "numeric_fields": [{"name": "n", "i64": true, "fast": true, "stored": true, "nullable": true}, {"name": "x", "i64": false, "fast": true, "stored": true, "nullable": true}]
  })
}

#[derive(Clone, Debug)]
enum Step {
  Add(Vec<Value>),
  Delete(Vec<String>),
  Commit,
  Compact,
}

fn gen_doc(rng: &mut Rng, ids: usize, v: &mut u64) -> Value {
  *v += 1;
  let mut d = json!({"_id": format!("d{}", rng.usize(ids)), "body": format!("v{} {}", *v, gen::sentence(rng, 1, 7))});
  if rng.chance(0.6) {
    d["title"] = json!(gen::sentence(rng, 1, 3));
  }
  if rng.chance(0.7) {
    d["tag"] = if rng.chance(0.3) { json!([rng.pick(gen::TAGS), rng.pick(gen::TAGS)]) } else { json!(rng.pick(gen::TAGS)) };
  }
  if rng.chance(0.7) {
    d["n"] = json!(rng.range(-3, 30));
  }
  if rng.chance(0.5) {
    d["x"] = json!((rng.range(-100, 100) as f64) / 4.0);
  }
  d
}

/// A search in its two CLI spellings: full request JSON, and (when expressible) flags.
#[derive(Clone, Debug)]
struct Req {
  json: Value,
  flags: Option<Vec<String>>,
}

fn gen_req(rng: &mut Rng, cursor: &Option<String>) -> Req {
  if rng.chance(0.4) {
    // flag-expressible: string query + simple options
    let q = format!("{} {}", gen::ascii_word(rng), if rng.chance(0.5) { gen::ascii_word(rng) } else { String::new() }).trim().to_string();
    let limit = rng.urange(1, 9);
    let exec = ["bm25", "wand", "bmw"][rng.usize(3)];
    let mut j = json!({"query": q, "limit": limit, "execution": exec, "return_stored": false});
    let mut f = vec!["-q".to_string(), q.clone(), "--limit".into(), limit.to_string(), "--execution".into(), exec.into()];
    if rng.chance(0.6) {
      j["return_stored"] = json!(true);
      f.push("--return-stored".into());
    }
    if rng.chance(0.3) {
      j["sort"] = json!([{"field": "n", "order": "desc"}, {"field": "tag", "order": "asc"}]);
      f.push("--sort".into());
      f.push("n:desc,tag:asc".into());
    }
    if rng.chance(0.3) {
      j["fields"] = json!(["body", "title"]);
      f.push("--fields".into());
      f.push("body,title".into());
    }
    if rng.chance(0.3) {
      j["highlight_field"] = json!("body");
      f.push("--highlight".into());
      f.push("body".into());
    }
    if rng.chance(0.3) {
      let a = json!({"t": {"type": "terms", "field": "tag", "size": 4}, "s": {"type": "stats", "field": "n"}});
      j["aggs"] = a.clone();
      f.push("--aggs".into());
      f.push(a.to_string());
    }
    if exec == "bmw" && rng.chance(0.5) {
      j["bmw_block_size"] = json!(8);
      f.push("--bmw-block-size".into());
      f.push("8".into());
    }
    if let (Some(c), true) = (cursor, rng.chance(0.15)) {
      if j.get("sort").is_none() {
        j["cursor"] = json!(c);
        f.push("--cursor".into());
        f.push(c.clone());
      }
    }
    return Req { json: j, flags: Some(f) };
  }
  let q = match rng.below(6) {
    0 => json!({"type": "match_all"}),
    1 => json!({"type": "term", "field": "body", "value": gen::ascii_word(rng)}),
    2 => json!({"type": "bool", "must": [{"type": "term", "field": "body", "value": gen::ascii_word(rng)}], "should": [{"type": "term", "field": "title", "value": gen::ascii_word(rng)}], "filter": [{"I64Range": {"field": "n", "min": 0, "max": 20}}]}),
    3 => json!({"type": "multi_match", "query": format!("{} {}", gen::ascii_word(rng), gen::ascii_word(rng)), "fields": ["body", "title"], "match_type": "most_fields"}),
    4 => json!({"type": "function_score", "query": {"type": "match_all"}, "functions": [{"type": "field_value_factor", "field": "n", "missing": 1.0}], "boost_mode": "sum"}),
    _ => json!({"type": "prefix", "field": "body", "value": "se"}),
  };
  let mut j = json!({"query": q, "limit": rng.urange(1, 12), "return_stored": rng.chance(0.5), "execution": (["bm25", "wand", "bmw"][rng.usize(3)])});
  if rng.chance(0.3) {
    j["filter"] = json!({"Or": [{"KeywordEq": {"field": "tag", "value": rng.pick(gen::TAGS)}}, {"F64Range": {"field": "x", "min": -5.0, "max": 5.0}}]});
  }
  if rng.chance(0.3) {
    j["sort"] = json!([{"field": (["n", "x", "tag"][rng.usize(3)]), "order": (["asc", "desc"][rng.usize(2)])}]);
  }
  if rng.chance(0.3) {
    j["aggs"] = json!({"h": {"type": "histogram", "field": "n", "interval": 5.0}, "c": {"type": "cardinality", "field": "tag"}});
  }
  if rng.chance(0.2) {
    j["collapse"] = json!({"field": "tag"});
  }
  if rng.chance(0.2) {
    j["suggest"] = json!({"s": {"type": "completion", "field": "body", "prefix": "se", "size": 3}});
  }
  if rng.chance(0.15) {
    j["explain"] = json!(true);
  }
  Req { json: j, flags: None }
}

fn canon(mut v: Value) -> Value {
  if let Some(o) = v.as_object_mut() {
    o.remove("profile");
  }
  v
}

fn lib_search(root: &Path, req: &Value) -> Result<Value, String> {
  let r = vcore::ctx::catch(|| -> anyhow::Result<Value> {
    let index = Index::open(idx::opts(root, false))?;
    let reader = index.reader()?;
    let res = idx::search(&reader, req.clone())?;
    // same path as the front ends: serialise to text, parse back
    Ok(serde_json::from_str(&serde_json::to_string(&res)?)?)
  });
  match r {
    Err(p) => Err(format!("panic: {p}")),
    Ok(Err(e)) => Err(format!("{e:#}")),
    Ok(Ok(v)) => Ok(canon(v)),
  }
}

fn cli(args: &[&str]) -> Result<String, String> {
  let mut cmd = Command::new(http::repo_bin("searchlite-cli"));
  cmd.args(args).env("RUST_LOG", "off");
  let o = sandbox::run(cmd, None, Duration::from_secs(60)).map_err(|e| e.to_string())?;
  if o.ok() {
    Ok(o.stdout_str())
  } else {
    Err(format!("exit {:?}: {}", o.code, o.stderr_str().chars().take(300).collect::<String>()))
  }
}

fn contents_of(v: &Value) -> Vec<(String, Value)> {
  let mut out: Vec<(String, Value)> = v["hits"].as_array().cloned().unwrap_or_default().into_iter().map(|h| (h["doc_id"].as_str().unwrap_or("").to_string(), vcore::model::norm(&h["fields"]))).collect();
  out.sort_by(|a, b| a.0.cmp(&b.0));
  out
}

fn main() {
  let args: Vec<String> = std::env::args().skip(1).collect();
  let mut ctx = Ctx::from_args("C25", "exploration", &args);
  ctx.rule = "each scenario (schema with text/keyword/i64/f64 fields; 2-6 steps of add-batch / delete / commit / compact; 10-30 requests: full request JSON incl. filters, sorts, aggregations, collapse, suggest, explain, and flag-expressible requests in both spellings) is run through the library, searchlite-cli subprocesses (init/add|update/delete/commit/compact/search --request and flag form), a live searchlite-http server and - for the document-per-commit layout the C ABI implies - searchlite-ffi. evaluations = response comparisons (front end vs library on an identically laid out index); distinct_nontrivial = distinct (driver, request text) pairs whose library response has at least one hit or aggregation.".into();
  ctx.assumptions = vec![
    "library driver uses the options every front end hard-codes (k1 0.9, b 0.4, positions on) and the same commit layout, so responses are compared exactly after a text round trip".into(),
    "FFI arm: searchlite_add_json = add + commit per document; searchlite_search = query string or node JSON, return_stored=true, wand, optional cursor and aggs; requests are restricted to what that signature can express and the library arm is laid out one document per commit".into(),
    "CLI flag form is compared with the SearchRequest the README documents for those flags".into(),
  ];
  for b in ["searchlite-http", "searchlite-cli"] {
    if !http::repo_bin(b).exists() {
      eprintln!("{b} binary missing (pre-build step did not run)");
      std::process::exit(2);
    }
  }
  ctx.threads = ctx.threads.min(6);
  let n = ctx.n(10, 300);
  ctx.run_cases("scenario", n, |rng: &mut Rng, l: &mut Local, scratch| {
    let d_lib = scratch.join("lib");
    let d_cli = scratch.join("cli");
    let d_http = scratch.join("http");
    let d_ffi = scratch.join("ffi");
    let d_lib1 = scratch.join("lib-per-doc");
    let tmp = scratch.join("files");
    for d in [&d_lib, &d_cli, &d_http, &d_ffi, &d_lib1, &tmp] {
      let _ = std::fs::remove_dir_all(d);
    }
    std::fs::create_dir_all(&tmp).unwrap();
    std::fs::create_dir_all(&d_http).unwrap();
    // scenario
    let ids = rng.urange(4, 12);
    let mut v = 0u64;
    let mut steps: Vec<Step> = Vec::new();
    for _ in 0..rng.urange(2, 6) {
      match rng.below(10) {
        0..=5 => {
          let mut batch: Vec<Value> = (0..rng.urange(1, 6)).map(|_| gen_doc(rng, ids, &mut v)).collect();
          if rng.chance(0.35) {
            // a document changed and then reverted inside one batch (X, Y, X), or repeated verbatim:
            // order matters for upserts, byte-identical lines are still separate operations
            let x = batch[rng.usize(batch.len())].clone();
            if rng.chance(0.7) {
              let mut y = gen_doc(rng, ids, &mut v);
              y["_id"] = x["_id"].clone();
              batch.push(y);
            }
            batch.push(x);
          }
          steps.push(Step::Add(batch));
          steps.push(Step::Commit);
        }
        6..=7 => {
          steps.push(Step::Delete((0..rng.urange(1, 2)).map(|_| format!("d{}", rng.usize(ids))).collect()));
          steps.push(Step::Commit);
        }
        _ => steps.push(Step::Compact),
      }
    }
    if !steps.iter().any(|s| matches!(s, Step::Add(_))) {
      steps.insert(0, Step::Commit);
      steps.insert(0, Step::Add(vec![gen_doc(rng, ids, &mut v)]));
    }
    let steps_json: Vec<Value> = steps
      .iter()
      .map(|s| match s {
        Step::Add(d) => json!({"add": d}),
        Step::Delete(i) => json!({"delete": i}),
        Step::Commit => json!("commit"),
        Step::Compact => json!("compact"),
      })
      .collect();
    let case = |extra: Value| json!({"steps": steps_json, "extra": extra});
    let schema_path = tmp.join("schema.json");
    std::fs::write(&schema_path, schema().to_string()).unwrap();
    // ---- library
    let lib_r = vcore::ctx::catch(|| -> anyhow::Result<()> {
      let index = Index::create(&d_lib, idx::schema(&schema())?, idx::opts(&d_lib, false))?;
      for s in steps.iter() {
        match s {
          Step::Add(docs) => {
            let mut w = index.writer()?;
            for d in docs {
              w.add_document(&idx::doc(d))?;
            }
          }
          Step::Delete(ids) => {
            let mut w = index.writer()?;
            w.delete_documents(ids)?;
          }
          Step::Commit => {
            let mut w = index.writer()?;
            w.commit()?;
          }
          Step::Compact => index.compact()?,
        }
      }
      Ok(())
    });
    if !matches!(lib_r, Ok(Ok(()))) {
      l.inconclusive(format!("library driver failed: {lib_r:?}"));
      return;
    }
    // ---- CLI
    let sp = schema_path.to_string_lossy().to_string();
    let dc = d_cli.to_string_lossy().to_string();
    let mut cli_err: Option<String> = None;
    if let Err(e) = cli(&["init", &dc, &sp]) {
      cli_err = Some(format!("init: {e}"));
    }
    for (i, s) in steps.iter().enumerate() {
      if cli_err.is_some() {
        break;
      }
      let r = match s {
        Step::Add(docs) => {
          let p = tmp.join(format!("docs{i}.jsonl"));
          std::fs::write(&p, docs.iter().map(|d| d.to_string()).collect::<Vec<_>>().join("\n") + "\n").unwrap();
          cli(&[if i % 2 == 0 { "add" } else { "update" }, &dc, &p.to_string_lossy()])
        }
        Step::Delete(ids) => {
          let p = tmp.join(format!("ids{i}.txt"));
          std::fs::write(&p, ids.join("\n") + "\n").unwrap();
          cli(&["delete", &dc, &p.to_string_lossy()])
        }
        Step::Commit => cli(&["commit", &dc]),
        Step::Compact => cli(&["compact", &dc]),
      };
      if let Err(e) = r {
        cli_err = Some(format!("step {i} {:?}: {e}", steps_json[i]));
      }
    }
    if let Some(e) = &cli_err {
      l.fail("cli-driver-step-fails", format!("a CLI step failed where the library succeeded: {e}"), case(json!(null)));
    }
    // ---- HTTP
    let mut http_err: Option<String> = None;
    let mut server = match http::start_server(&d_http, &[]) {
      Ok(s) => s,
      Err(e) => {
        l.inconclusive(format!("server: {e}"));
        return;
      }
    };
    let post = |addr, path: &str, ct: &str, body: &[u8]| -> Result<http::Resp, String> {
      match http::request(addr, "POST", path, Some(ct), body, Duration::from_secs(60)) {
        Ok(Some(r)) if r.is_2xx() => Ok(r),
        Ok(Some(r)) => Err(format!("{path} -> {} {}", r.status, String::from_utf8_lossy(&r.body))),
        other => Err(format!("{path} -> {other:?}")),
      }
    };
    if let Err(e) = post(server.addr, "/init", "application/json", schema().to_string().as_bytes()) {
      http_err = Some(e);
    }
    for (i, s) in steps.iter().enumerate() {
      if http_err.is_some() {
        break;
      }
      // The queue lives in the index directory, not in the server process: now and then the service is
      // restarted before a /commit, or a batch is queued through the Rust API while the service is down
      // (the way a CLI `add` would), and the next /commit of the restarted service must apply it.
      let restart_before_commit = matches!(s, Step::Commit) && rng.chance(0.3);
      let queue_through_library = matches!(s, Step::Add(_)) && rng.chance(0.15);
      if restart_before_commit || queue_through_library {
        server.stop();
        if let (true, Step::Add(docs)) = (queue_through_library, s) {
          let r = (|| -> anyhow::Result<()> {
            let index = Index::open(idx::opts(&d_http, false))?;
            let mut w = index.writer()?;
            for d in docs.iter() {
              w.add_document(&idx::doc(d))?;
            }
            // dropped without commit: the operations stay queued in the log
            Ok(())
          })();
          if let Err(e) = r {
            l.inconclusive(format!("queueing through the library while the service is down: {e:#}"));
            return;
          }
          l.count("http_batches_queued_through_library_while_service_down", 1);
        }
        match http::start_server(&d_http, &[]) {
          Ok(sv) => server = sv,
          Err(e) if e.starts_with("slow:") => {
            l.inconclusive(format!("service restart: {e}"));
            return;
          }
          Err(e) => {
            l.fail("http-restart-fails", format!("the service does not come back on its own directory: {e}"), case(json!(null)));
            return;
          }
        }
        l.count("http_service_restarts", 1);
        if queue_through_library {
          continue;
        }
      }
      let r = match s {
        Step::Add(docs) => {
          if i % 2 == 0 {
            post(server.addr, "/add", "application/x-ndjson", (docs.iter().map(|d| d.to_string()).collect::<Vec<_>>().join("\n") + "\n").as_bytes())
          } else {
            post(server.addr, "/bulk", "application/json", json!({"docs": docs}).to_string().as_bytes())
          }
        }
        Step::Delete(ids) => post(server.addr, "/delete", "application/json", json!({"ids": ids}).to_string().as_bytes()),
        Step::Commit => post(server.addr, "/commit", "application/json", b""),
        Step::Compact => post(server.addr, "/compact", "application/json", b""),
      };
      if let Err(e) = r {
        http_err = Some(format!("step {i}: {e}"));
      }
    }
    if let Some(e) = &http_err {
      l.fail("http-driver-step-fails", format!("an HTTP step failed where the library succeeded: {e}"), case(json!(null)));
    }
    // ---- FFI (one document per commit) + matching library layout
    let all_docs: Vec<Value> = steps.iter().filter_map(|s| if let Step::Add(d) = s { Some(d.clone()) } else { None }).flatten().collect();
    let mut ffi_ok = true;
    let ffi_handle = unsafe {
      let r = vcore::ctx::catch(|| -> anyhow::Result<()> {
        for d in [&d_ffi, &d_lib1] {
          Index::create(d, idx::schema(&schema())?, idx::opts(d, false))?;
        }
        let index = Index::open(idx::opts(&d_lib1, false))?;
        for d in all_docs.iter() {
          let mut w = index.writer()?;
          w.add_document(&idx::doc(d))?;
          w.commit()?;
        }
        Ok(())
      });
      if !matches!(r, Ok(Ok(()))) {
        ffi_ok = false;
      }
      let p = CString::new(d_ffi.to_string_lossy().to_string()).unwrap();
      let h = searchlite_index_open(p.as_ptr(), false);
      if h.is_null() {
        ffi_ok = false;
      } else {
        for d in all_docs.iter() {
          let js = CString::new(d.to_string()).unwrap();
          let rc = searchlite_add_json(h, js.as_ptr(), js.as_bytes().len());
          if rc < 0 {
            l.fail("ffi-add-fails", format!("searchlite_add_json returned {rc} for a document the library accepts"), case(json!({"doc": d})));
            ffi_ok = false;
            break;
          }
        }
        if searchlite_commit(h) != 0 {
          l.fail("ffi-commit-fails", "searchlite_commit returned non-zero".to_string(), case(json!(null)));
        }
      }
      h
    };
    // ---- contents
    let all = json!({"query": {"type": "match_all"}, "limit": 10000, "return_stored": true, "execution": "bm25"});
    let lib_all = match lib_search(&d_lib, &all) {
      Ok(v) => v,
      Err(e) => {
        l.inconclusive(format!("library match_all: {e}"));
        return;
      }
    };
    let rp = tmp.join("all.json");
    std::fs::write(&rp, all.to_string()).unwrap();
    if cli_err.is_none() {
      l.eval();
      match cli(&["search", &dc, "--request", &rp.to_string_lossy()]).and_then(|s| serde_json::from_str::<Value>(&s).map_err(|e| format!("stdout is not JSON: {e}"))) {
        Ok(v) => {
          if contents_of(&v) != contents_of(&lib_all) {
            l.fail("cli-contents-differ", "index contents built through the CLI differ from the library's".to_string(), case(json!({"cli": contents_of(&v), "lib": contents_of(&lib_all)})));
          }
        }
        Err(e) => l.fail("cli-search-fails", format!("CLI match_all failed: {e}"), case(json!(null))),
      }
    }
    if http_err.is_none() {
      l.eval();
      match post(server.addr, "/search", "application/json", all.to_string().as_bytes()).map(|r| r.json().unwrap_or(Value::Null)) {
        Ok(v) => {
          if contents_of(&v) != contents_of(&lib_all) {
            l.fail("http-contents-differ", "index contents built through HTTP differ from the library's".to_string(), case(json!({"http": contents_of(&v), "lib": contents_of(&lib_all)})));
          }
        }
        Err(e) => l.fail("http-search-fails", format!("HTTP match_all failed: {e}"), case(json!(null))),
      }
    }
    // ---- requests
    let first_cursor = lib_search(&d_lib, &json!({"query": "rust search engine index", "limit": 1, "return_stored": false})).ok().and_then(|v| v["next_cursor"].as_str().map(|s| s.to_string()));
    let n_req = rng.urange(10, 30);
    let mut ffi_buf = vec![0u8; 1 << 20];
    for ri in 0..n_req {
      let req = gen_req(rng, &first_cursor);
      let lib = lib_search(&d_lib, &req.json);
      let nontrivial = lib.as_ref().map(|v| v["hits"].as_array().map(|h| !h.is_empty()).unwrap_or(false) || v.get("aggregations").is_some()).unwrap_or(false);
      let p = tmp.join(format!("req{ri}.json"));
      std::fs::write(&p, req.json.to_string()).unwrap();
      let compare = |l: &mut Local, driver: &str, got: Result<Value, String>| {
        l.eval();
        if nontrivial {
          l.nontrivial(&(driver, req.json.to_string()));
        }
        match (&lib, got) {
          (Ok(a), Ok(b)) => {
            if *a != canon(b.clone()) {
              l.fail(format!("{driver}-response-differs"), format!("{driver} and the library answer the same request differently"), case(json!({"request": req.json, "flags": req.flags, "library": a, driver: b})));
            }
          }
          (Err(_), Err(_)) => {}
          (Ok(_), Err(e)) => l.fail(format!("{driver}-fails-where-library-succeeds"), format!("{driver}: {e}"), case(json!({"request": req.json, "flags": req.flags}))),
          (Err(e), Ok(_)) => l.fail(format!("{driver}-succeeds-where-library-fails"), format!("library error: {e}"), case(json!({"request": req.json, "flags": req.flags}))),
        }
      };
      if cli_err.is_none() {
        let out = cli(&["search", &dc, "--request", &p.to_string_lossy()]).and_then(|s| serde_json::from_str::<Value>(&s).map_err(|e| format!("stdout is not JSON: {e}")));
        compare(l, "cli-request-file", out);
        if let Some(flags) = &req.flags {
          let mut a: Vec<&str> = vec!["search", &dc];
          a.extend(flags.iter().map(|s| s.as_str()));
          let out = cli(&a).and_then(|s| serde_json::from_str::<Value>(&s).map_err(|e| format!("stdout is not JSON: {e}")));
          compare(l, "cli-flags", out);
        }
      }
      if http_err.is_none() {
        let out = match http::request(server.addr, "POST", "/search", Some("application/json"), req.json.to_string().as_bytes(), Duration::from_secs(60)) {
          Ok(Some(r)) if r.is_2xx() => r.json().ok_or("body not JSON".to_string()),
          Ok(Some(r)) => Err(format!("status {}", r.status)),
          other => Err(format!("{other:?}")),
        };
        compare(l, "http", out);
      }
      // FFI: only what its signature can express
      if ffi_ok && !ffi_handle.is_null() {
        let q = &req.json["query"];
        let only_ffi_keys = req.json.as_object().map(|o| o.keys().all(|k| matches!(k.as_str(), "query" | "limit" | "aggs" | "cursor" | "return_stored" | "execution"))).unwrap_or(false);
        if only_ffi_keys && req.json.get("cursor").is_none() {
          let qs = if q.is_string() { q.as_str().unwrap().to_string() } else { q.to_string() };
          let mut rj = json!({"query": q, "limit": req.json["limit"], "return_stored": true, "execution": "wand"});
          if let Some(a) = req.json.get("aggs") {
            rj["aggs"] = a.clone();
          }
          let lib1 = lib_search(&d_lib1, &rj);
          let cq = CString::new(qs).unwrap();
          let aggs = req.json.get("aggs").map(|a| a.to_string());
          let n = unsafe {
            searchlite_search(
              ffi_handle,
              cq.as_ptr(),
              req.json["limit"].as_u64().unwrap_or(5) as usize,
              std::ptr::null(),
              aggs.as_ref().map(|a| a.as_ptr() as *const c_char).unwrap_or(std::ptr::null()),
              aggs.as_ref().map(|a| a.len()).unwrap_or(0),
              ffi_buf.as_mut_ptr() as *mut c_char,
              ffi_buf.len(),
            )
          };
          l.eval();
          let got: Result<Value, String> = if n == 0 { Err("returned 0".into()) } else { serde_json::from_slice(&ffi_buf[..n]).map_err(|e| format!("not JSON: {e}")) };
          if lib1.as_ref().map(|v| v["hits"].as_array().map(|h| !h.is_empty()).unwrap_or(false)).unwrap_or(false) {
            l.nontrivial(&("ffi", rj.to_string()));
          }
          match (&lib1, got) {
            (Ok(a), Ok(b)) => {
              if *a != canon(b.clone()) {
                l.fail("ffi-response-differs", "the C ABI and the library answer the same request differently".to_string(), case(json!({"request": rj, "library": a, "ffi": b})));
              }
            }
            (Err(_), Err(_)) => {}
            (Ok(_), Err(e)) => l.fail("ffi-fails-where-library-succeeds", format!("ffi: {e}"), case(json!({"request": rj}))),
            (Err(e), Ok(_)) => l.fail("ffi-succeeds-where-library-fails", format!("library error: {e}"), case(json!({"request": rj}))),
          }
        }
      }
    }
    unsafe {
      if !ffi_handle.is_null() {
        searchlite_index_close(ffi_handle);
      }
    }
    if l.samples.is_empty() {
      l.sample(case(json!({"requests": n_req})));
    }
    server.stop();
    for d in [&d_lib, &d_cli, &d_http, &d_ffi, &d_lib1, &tmp] {
      let _ = std::fs::remove_dir_all(d);
    }
  });
  std::process::exit(ctx.finish());
}
