//! C21 — Highlights are well-formed for any text.
//! Oracle: per returned fragment (`Hit.highlights[field]`) and legacy `Hit.snippet`, the stated
//! invariants are checked directly against the hit's stored field text; nothing of the engine's
//! highlighter is re-used (tags are drawn from characters the generated texts never contain).
use serde_json::{json, Value};
use std::collections::BTreeSet;
use vcore::{idx, Ctx, Local, Rng};

// ---------------------------------------------------------------------------------------------
// text generator. NEVER emits any of: < > * [ ] { } | ⟦ ⟧ (reserved for tags).
// ---------------------------------------------------------------------------------------------
const ASCII: &[&str] = &[
  "rust", "fox", "search", "engine", "Index", "QUERY", "token", "a", "of", "x1", "data2", "go", "Rust", "zebra", "quick", "brown",
];
const LATIN: &[&str] = &["café", "naïve", "über", "résumé", "señor", "Ünï", "Éclair", "smörgås", "ÀÉÎ", "ñu", "straße", "Åse"];
const COMBINING: &[&str] = &["e\u{301}cole", "a\u{308}rger", "n\u{303}o", "o\u{302}te", "re\u{301}sume\u{301}"];
const CJK: &[&str] = &["日本語", "東京", "検索", "中文", "カタカナ", "ひらがな", "한국어", "语", "全文検索"];
const SEP_PLAIN: &[&str] = &[" ", " ", " ", " ", ", ", ". ", " - ", "  ", "\n", "; "];
const SEP_WIDE: &[&str] = &[
  " 😀 ", "😀", " 👨\u{200d}👩\u{200d}👧 ", "、", "。", " 🎉🎉 ", " · ", " ¿", "… ", " — ", " 👍🏽 ", " 🇯🇵 ", " ❤\u{fe0f} ", "«", "» ",
];
const TAGS: &[(&str, &str)] = &[
  ("<em>", "</em>"),
  ("<b>", "</b>"),
  ("[[", "]]"),
  ("{{", "}}"),
  ("**", "**"),
  ("<mark class=\"h\">", "</mark>"),
  ("⟦", "⟧"),
  ("|", "|"),
];
const FIELDS: &[&str] = &["d", "u", "w", "wl"];

fn schema_json() -> Value {
  json!({
    "doc_id_field": "_id",
    "analyzers": [
      {"name": "uni", "tokenizer": "unicode", "filters": []},
      {"name": "ws", "tokenizer": "whitespace", "filters": []},
      {"name": "wsl", "tokenizer": "whitespace", "filters": ["lowercase"]},
    ],
    "text_fields": [
      {"name": "d", "analyzer": "default", "stored": true, "indexed": true},
      {"name": "u", "analyzer": "uni", "stored": true, "indexed": true},
      {"name": "w", "analyzer": "ws", "stored": true, "indexed": true},
      {"name": "wl", "analyzer": "wsl", "stored": true, "indexed": true},
    ],
    "keyword_fields": [], "numeric_fields": [], "nested_fields": []
  })
}

#[derive(Clone, Copy)]
struct Mix {
  ascii: u64,
  latin: u64,
  comb: u64,
  cjk: u64,
  wide_sep: f64,
}

fn pick_word(rng: &mut Rng, m: &Mix) -> String {
  let tot = m.ascii + m.latin + m.comb + m.cjk;
  let r = rng.below(tot.max(1));
  let w = if r < m.ascii {
    rng.pick(ASCII)
  } else if r < m.ascii + m.latin {
    rng.pick(LATIN)
  } else if r < m.ascii + m.latin + m.comb {
    rng.pick(COMBINING)
  } else {
    rng.pick(CJK)
  };
  w.to_string()
}

fn pick_sep(rng: &mut Rng, m: &Mix) -> &'static str {
  if rng.chance(m.wide_sep) {
    *rng.pick(SEP_WIDE)
  } else {
    *rng.pick(SEP_PLAIN)
  }
}

/// A text as a list of (word, separator-after) so that needles can be chosen from it.
struct Text {
  words: Vec<String>,
  seps: Vec<String>,
  lead: String,
}

impl Text {
  fn render(&self) -> String {
    let mut s = self.lead.clone();
    for (i, w) in self.words.iter().enumerate() {
      s.push_str(w);
      if i + 1 < self.words.len() {
        s.push_str(&self.seps[i]);
      } else if let Some(t) = self.seps.get(i) {
        s.push_str(t);
      }
    }
    s
  }
}

fn gen_text(rng: &mut Rng, needle: &[String], place: u64) -> Text {
  let mix = match rng.below(6) {
    0 => Mix { ascii: 10, latin: 0, comb: 0, cjk: 0, wide_sep: 0.0 },
    1 => Mix { ascii: 4, latin: 4, comb: 1, cjk: 1, wide_sep: 0.1 },
    2 => Mix { ascii: 2, latin: 1, comb: 1, cjk: 6, wide_sep: 0.3 },
    3 => Mix { ascii: 5, latin: 1, comb: 0, cjk: 1, wide_sep: 0.7 },
    4 => Mix { ascii: 1, latin: 2, comb: 4, cjk: 2, wide_sep: 0.2 },
    _ => Mix { ascii: 3, latin: 3, comb: 2, cjk: 3, wide_sep: 0.4 },
  };
  let target_chars = match rng.below(5) {
    0 => rng.urange(1, 12),
    1 => rng.urange(12, 60),
    2 | 3 => rng.urange(60, 200),
    _ => rng.urange(200, 400),
  };
  let mut words: Vec<String> = Vec::new();
  let mut seps: Vec<String> = Vec::new();
  let mut chars = needle.iter().map(|w| w.chars().count() + 1).sum::<usize>();
  let mut guard = 0;
  while chars < target_chars && guard < 400 {
    guard += 1;
    let w = pick_word(rng, &mix);
    let s = pick_sep(rng, &mix).to_string();
    chars += w.chars().count() + s.chars().count();
    if chars > 400 {
      break;
    }
    words.push(w);
    seps.push(s);
  }
  // plant the needle: 0 = start, 1 = end, else random position
  let at = match place {
    0 => 0,
    1 => words.len(),
    _ => rng.usize(words.len() + 1),
  };
  for (k, w) in needle.iter().enumerate() {
    words.insert(at + k, w.clone());
    let s = pick_sep(rng, &mix).to_string();
    seps.insert(at + k, s);
  }
  // last separator is a trailer (often empty so matches sit at the very end)
  if let Some(last) = seps.last_mut() {
    if rng.chance(0.7) {
      *last = String::new();
    }
  }
  let lead = if rng.chance(0.15) { pick_sep(rng, &mix).to_string() } else { String::new() };
  let mut t = Text { words, seps, lead };
  // hard cap at 400 characters: drop words from the far side of the needle
  let mut g = 0;
  while t.render().chars().count() > 400 && t.words.len() > needle.len() && g < 400 {
    g += 1;
    if at == 0 || (at + needle.len() < t.words.len() && rng.chance(0.5)) {
      t.words.pop();
      t.seps.pop();
    } else {
      t.words.remove(0);
      t.seps.remove(0);
    }
  }
  t
}

// ---------------------------------------------------------------------------------------------
// oracle helpers
// ---------------------------------------------------------------------------------------------
fn fold(s: &str) -> String {
  s.chars().flat_map(|c| c.to_lowercase()).collect()
}

/// Characters certainly in the regex crate's `\w` (Alphabetic ∪ Nd ∪ M ∪ Pc ∪ Join_Control):
/// deliberately a subset, so runs of NOT(is_w) over-estimate `\W+` runs.
fn is_w(c: char) -> bool {
  c.is_alphabetic() || c.is_ascii_digit() || c == '_'
}

/// Longest run (bytes) of characters that might be `\W`.
fn max_nonword_run(text: &str) -> usize {
  let mut best = 0;
  let mut cur = 0;
  for c in text.chars() {
    if is_w(c) {
      cur = 0;
    } else {
      cur += c.len_utf8();
      best = best.max(cur);
    }
  }
  best
}

/// Upper bound (bytes) on any text that matches `t` case-insensitively.
fn len_bound(t: &str) -> usize {
  t.chars()
    .map(|c| {
      let mut m = c.len_utf8();
      for x in c.to_lowercase().chain(c.to_uppercase()) {
        m = m.max(x.len_utf8());
      }
      // simple case folding never grows a character of our alphabet beyond 3 bytes
      m.max(if c.is_ascii() { 1 } else { 3 })
    })
    .sum()
}

fn strip_tags(frag: &str, pre: &str, post: &str) -> String {
  let mut s = frag.replace(pre, "");
  if post != pre {
    s = s.replace(post, "");
  }
  s
}

/// Tagged spans `pre … post` (non-overlapping, left to right). None when tags are unbalanced.
fn tagged_spans(frag: &str, pre: &str, post: &str) -> Option<Vec<String>> {
  let mut out = Vec::new();
  let mut rest = frag;
  loop {
    let Some(i) = rest.find(pre) else {
      if rest.contains(post) {
        return None;
      }
      return Some(out);
    };
    if pre != post && rest[..i].contains(post) {
      return None;
    }
    let after = &rest[i + pre.len()..];
    let j = after.find(post)?;
    out.push(after[..j].to_string());
    rest = &after[j + post.len()..];
  }
}

/// Byte offsets where `needle` occurs in `text` comparing characters case-insensitively
/// (used only to CLASSIFY empty fragments, never to judge).
fn ci_occurrences(text: &str, needle: &str) -> Vec<usize> {
  let t: Vec<(usize, char)> = text.char_indices().collect();
  let n: Vec<char> = needle.chars().collect();
  let eq = |a: char, b: char| a == b || a.to_lowercase().eq(b.to_lowercase());
  let mut out = Vec::new();
  if n.is_empty() {
    return out;
  }
  for i in 0..t.len() {
    if i + n.len() <= t.len() && (0..n.len()).all(|k| eq(t[i + k].1, n[k])) {
      out.push(t[i].0);
    }
  }
  out
}

/// Is there an occurrence of one of `firsts` whose byte window [s - size/2, +size) is cut
/// inside a multi-byte character?
fn window_splits_char(text: &str, firsts: &BTreeSet<String>, size: usize) -> bool {
  for f in firsts {
    for s in ci_occurrences(text, f) {
      let start = s.saturating_sub(size / 2);
      let end = usize::min(text.len(), start.saturating_add(size));
      if !text.is_char_boundary(start) || !text.is_char_boundary(end) {
        return true;
      }
    }
  }
  false
}

struct Judge<'a> {
  text: &'a str,
  pre: &'a str,
  post: &'a str,
  size: usize,
  /// folded strings a tagged term span may equal
  term_forms: &'a BTreeSet<String>,
  /// folded (first, last) tokens of phrases a tagged span may start/end with
  phrase_forms: &'a [(String, String)],
  /// first tokens of every pattern (classification of empty fragments)
  firsts: &'a BTreeSet<String>,
}

/// Returns (signature, what) for the first invariant the fragment breaks.
fn judge_fragment(j: &Judge<'_>, frag: &str, kind: &str) -> Option<(String, String)> {
  if frag.is_empty() {
    let sig = if window_splits_char(j.text, j.firsts, j.size) {
      format!("empty-{kind}:byte-window-cuts-multibyte-char")
    } else {
      format!("unclassified:empty-{kind}")
    };
    return Some((sig, format!("{kind} is the empty string")));
  }
  let spans = match tagged_spans(frag, j.pre, j.post) {
    None => return Some((format!("unbalanced-tags-in-{kind}"), format!("{kind} has unbalanced tags: {frag:?}"))),
    Some(s) => s,
  };
  if spans.is_empty() {
    return Some((format!("no-tagged-match-in-{kind}"), format!("{kind} contains no pre_tag…post_tag pair: {frag:?}")));
  }
  if spans.iter().any(|s| s.is_empty()) {
    return Some((format!("empty-tagged-span-in-{kind}"), format!("{kind} tags nothing: {frag:?}")));
  }
  let plain = strip_tags(frag, j.pre, j.post);
  if !j.text.contains(&plain) {
    return Some((
      format!("{kind}-not-substring-of-stored-text"),
      format!("{kind} without tags is not a substring of the stored text: {plain:?}"),
    ));
  }
  if plain.chars().count() > j.size {
    return Some((
      format!("{kind}-longer-than-fragment-size"),
      format!("{kind} without tags has {} chars > fragment_size {}", plain.chars().count(), j.size),
    ));
  }
  // every tagged span must be a match of the query: equal (case-insensitively) to a query term,
  // or starting with the first and ending with the last term of a phrase.
  for s in spans.iter() {
    let f = fold(s);
    let ok = j.term_forms.contains(&f)
      || j.phrase_forms.iter().any(|(a, b)| f.starts_with(a.as_str()) && f.ends_with(b.as_str()) && f.len() >= a.len().max(b.len()));
    if !ok {
      return Some((format!("tagged-span-is-not-a-query-match-in-{kind}"), format!("tagged text {s:?} is none of the query terms/phrases")));
    }
  }
  None
}

fn case_variant(rng: &mut Rng, w: &str) -> String {
  match rng.below(5) {
    0 => w.to_uppercase(),
    1 => w.to_lowercase(),
    _ => w.to_string(),
  }
}


struct Plan {
  req: Value,
  qkind: &'static str,
  raw_terms: Vec<String>,
  raw_phrases: Vec<Vec<String>>,
  /// (field, pre, post, size, count)
  cfgs: Vec<(String, String, String, usize, usize)>,
  snippet_field: Option<String>,
}

/// Run one request and judge every returned fragment list / snippet.
/// `an(field, text)` = tokens of the field's search analyzer (public analyzers of the schema).
fn run_request(
  l: &mut Local,
  reader: &searchlite_core::api::IndexReader,
  an: &dyn Fn(&str, &str) -> Option<Vec<String>>,
  plan: &Plan,
  docs: &[Value],
) {
  let req = &plan.req;
  let cfgs = &plan.cfgs;
  let raw_terms = &plan.raw_terms;
  let raw_phrases = &plan.raw_phrases;
  let snippet_field = plan.snippet_field.as_deref();
  let qkind = plan.qkind;
  let res = match vcore::ctx::catch(|| idx::search(reader, req.clone())) {
    Err(p) => {
      l.fail(
        format!("panic:search-with-highlight:{}", vcore::ctx::panic_site(&p)),
        format!("search with highlighting panicked: {p}"),
        json!({"request": req, "docs": docs}),
      );
      return;
    }
    Ok(Err(e)) => {
      l.fail("api-error:search", format!("{e:#}"), json!({"request": req}));
      return;
    }
    Ok(Ok(r)) => r,
  };
  l.count("requests", 1);
  l.count(&format!("requests_{qkind}"), 1);
  if res.hits.is_empty() {
    l.count("requests_without_hits", 1);
  }
  // forms a tagged span may take, per highlighted field
  for hit in res.hits.iter() {
    let Some(stored) = hit.fields.as_ref() else {
      l.fail("hit-without-stored-fields", "return_stored:true but Hit.fields is None", json!({"request": req}));
      continue;
    };
    // (field, pre, post, size, count, Some(frags)|None, kind)
    let mut jobs: Vec<(String, String, String, usize, usize, Vec<String>, &'static str)> = Vec::new();
    for (f, pre, post, size, cnt) in cfgs.iter() {
      let frags = hit.highlights.as_ref().and_then(|m| m.get(f)).cloned().unwrap_or_default();
      jobs.push((f.clone(), pre.clone(), post.clone(), *size, *cnt, frags, "fragment"));
    }
    if let Some(sf) = snippet_field {
      let frags: Vec<String> = hit.snippet.iter().cloned().collect();
      jobs.push((sf.to_string(), "**".into(), "**".into(), 120, 1, frags, "snippet"));
    }
    if let Some(m) = hit.highlights.as_ref() {
      for k in m.keys() {
        if !cfgs.iter().any(|c| &c.0 == k) {
          l.fail("highlights-for-unrequested-field", format!("highlights contains field {k} that was not requested"), json!({"request": req}));
        }
      }
    }
    for (f, pre, post, size, cnt, frags, kind) in jobs {
      let Some(text) = stored.get(&f).and_then(|v| v.as_str()) else { continue };
      // patterns the engine may highlight in field f: every query term analysed by any
      // field's search analyzer, re-analysed by f's; phrases only on their own field.
      let mut term_forms: BTreeSet<String> = BTreeSet::new();
      let mut firsts: BTreeSet<String> = BTreeSet::new();
      let mut lmax = 0usize;
      for rt in raw_terms.iter() {
        let mut lvl1: BTreeSet<String> = BTreeSet::new();
        lvl1.insert(rt.clone());
        for g in FIELDS {
          lvl1.extend(an(g, rt).unwrap_or_default());
        }
        let mut lvl2 = lvl1.clone();
        for x in lvl1.iter() {
          lvl2.extend(an(&f, x).unwrap_or_default());
        }
        for x in lvl2 {
          lmax = lmax.max(len_bound(&x));
          term_forms.insert(fold(&x));
          firsts.insert(x);
        }
      }
      let mut phrase_forms: Vec<(String, String)> = Vec::new();
      let gap = max_nonword_run(text);
      for ph in raw_phrases.iter() {
        // raw and analysed variants of the phrase
        let mut variants: Vec<Vec<String>> = vec![ph.clone()];
        let mut seq = Vec::new();
        for t in ph.iter() {
          seq.extend(an(&f, t).unwrap_or_default());
        }
        if !seq.is_empty() {
          variants.push(seq);
        }
        for v in variants {
          let b: usize = v.iter().map(|x| len_bound(x)).sum::<usize>() + gap * v.len().saturating_sub(1);
          lmax = lmax.max(b);
          phrase_forms.push((fold(&v[0]), fold(v.last().unwrap())));
          firsts.insert(v[0].clone());
        }
      }
      // count bound is unconditional
      if frags.len() > cnt {
        l.fail(
          format!("more-{kind}s-than-number_of_fragments"),
          format!("{} fragments returned for field {f}, number_of_fragments={cnt}", frags.len()),
          json!({"request": req, "doc_id": hit.doc_id, "field": f, "text": text, "fragments": frags}),
        );
      }
      if size < 2 * lmax || lmax == 0 {
        l.count("pairs_skipped_precondition", 1);
        continue;
      }
      if frags.is_empty() {
        l.count("pairs_without_fragments", 1);
        continue;
      }
      l.eval();
      l.count(if kind == "snippet" { "snippets_judged" } else { "fragment_lists_judged" }, 1);
      let multibyte = !text.is_ascii();
      if multibyte {
        l.count("judged_on_multibyte_text", 1);
      }
      l.count(&format!("fragments_per_list[{}]", frags.len()), 1);
      l.count(&format!("judged_field[{f}]"), 1);
      if window_splits_char(text, &firsts, size) {
        l.count("lists_where_a_window_cuts_a_multibyte_char", 1);
      }
      l.nontrivial(&(text, &f, req["query"].to_string(), size, cnt, kind));
      if l.samples.len() < 3 && multibyte && kind == "fragment" && frags.iter().all(|x| !x.is_empty()) {
        l.sample(json!({"field": f, "text": text, "query": req["query"], "pre_tag": pre, "post_tag": post,
          "fragment_size": size, "number_of_fragments": cnt, "fragments": frags}));
      }
      let judge = Judge { text, pre: &pre, post: &post, size, term_forms: &term_forms, phrase_forms: &phrase_forms, firsts: &firsts };
      for (k, fr) in frags.iter().enumerate() {
        l.count("fragments_checked", 1);
        if let Some((sig, what)) = judge_fragment(&judge, fr, kind) {
          l.fail(
            sig,
            what,
            json!({"request": req, "doc_id": hit.doc_id, "field": f, "stored_text": text, "text_bytes": text.len(),
              "fragment_index": k, "fragments": frags, "fragment_size": size, "number_of_fragments": cnt,
              "pre_tag": pre, "post_tag": post, "longest_possible_match_bytes": lmax}),
          );
        }
      }
    }
  }
}

fn main() {
  let args: Vec<String> = std::env::args().skip(1).collect();
  let mut ctx = Ctx::from_args("C21", "exploration", &args);
  ctx.rule = "each case builds one in-memory index of 4-10 documents whose four stored text fields (default / unicode / whitespace / whitespace+lowercase analyzers) hold generated texts of 1-400 characters mixing ASCII, Latin-1, combining marks, CJK and emoji/ZWJ sequences, with a query needle planted at the start, the end or a random offset; 24 requests per case (term, phrase, query_string) ask for `highlight` on 1-3 fields (8 tag pairs, fragment_size 2-300, number_of_fragments 0-5, or defaults) and/or the legacy `highlight_field` snippet. evaluations = (hit, field) fragment lists plus snippets judged (precondition fragment_size >= 2 x longest possible match held); every returned fragment must be non-empty, contain a balanced non-empty pre_tag..post_tag pair whose content is a query term/phrase, be a substring of the hit's stored text once tags are removed, have <= fragment_size characters, and there must be <= number_of_fragments of them. A pair is non-trivial (counted once by hash of text+field+query+size+count) when at least one fragment was returned.".into();
  ctx.assumptions = vec![
    "fragment length is judged in CHARACTERS (the lenient reading of 'no longer than the requested fragment size'); the precondition 'fragment size >= 2 x matched text' is applied in BYTES against an upper bound of the longest text any query term/phrase could match in that stored text (sum of term lengths plus the longest non-word run per phrase gap), so undecidable pairs are skipped, not judged".into(),
    "tags are drawn from characters the generated texts never contain, so removing every occurrence of the tags recovers the fragment's text".into(),
    "analyzers without synonyms/edge-ngrams/stemming, no fuzzy expansion: a tagged span must equal a query term case-insensitively (or start/end with a phrase's first/last term)".into(),
    "only string-valued stored fields are highlighted (arrays are not generated)".into(),
    "the legacy snippet is judged with tags `**`, fragment size 120, one fragment (highlight.rs make_snippet)".into(),
  ];
  let n = ctx.n(600, 60_000);
  let sch = schema_json();
  // ---------------- directed minimal cases (deterministic; same oracle)
  ctx.run_cases("directed", 1, |_rng: &mut Rng, l: &mut Local, scratch| {
    let schema = idx::schema(&sch).expect("schema");
    let analyzers = schema.build_analyzers().expect("analyzers");
    let an = |field: &str, text: &str| -> Option<Vec<String>> {
      analyzers.search_analyzer(field).map(|a| a.analyze(text).into_iter().map(|t| t.text).collect())
    };
    let long = format!("{} rust", "語".repeat(21));
    let docs = vec![
      json!({"_id":"m1","d":"日本語 rust","u":"x","w":"x","wl":"x"}),
      json!({"_id":"m2","d":"x","u":long,"w":"x","wl":"x"}),
      json!({"_id":"m3","d":"x","u":"x","w":"fox fox fox fox fox fox fox","wl":"x"}),
    ];
    let dir = scratch.join("i");
    let _ = std::fs::remove_dir_all(&dir);
    let index = idx::build(&dir, true, &sch, &docs, &[3]).expect("build");
    let reader = index.reader().expect("reader");
    let plans = vec![
      // match at byte 10, window start 10 - 10/2 = 5 lies inside U+672C (bytes 3..6)
      Plan {
        req: json!({"query":{"type":"term","field":"d","value":"rust"},"limit":5,"return_stored":true,
          "highlight":{"fields":{"d":{"pre_tag":"<em>","post_tag":"</em>","fragment_size":10,"number_of_fragments":1}}}}),
        qkind: "term", raw_terms: vec!["rust".into()], raw_phrases: vec![],
        cfgs: vec![("d".into(), "<em>".into(), "</em>".into(), 10, 1)], snippet_field: None,
      },
      // legacy snippet: match at byte 64, window start 64 - 60 = 4 lies inside the second character
      Plan {
        req: json!({"query":{"type":"term","field":"u","value":"rust"},"limit":5,"return_stored":true,"highlight_field":"u"}),
        qkind: "term", raw_terms: vec!["rust".into()], raw_phrases: vec![], cfgs: vec![], snippet_field: Some("u".into()),
      },
      // plain ASCII, many matches: fragment count and size bounds
      Plan {
        req: json!({"query":{"type":"term","field":"w","value":"fox"},"limit":5,"return_stored":true,"highlight_field":"w",
          "highlight":{"fields":{"w":{"pre_tag":"[[","post_tag":"]]","fragment_size":9,"number_of_fragments":3}}}}),
        qkind: "term", raw_terms: vec!["fox".into()], raw_phrases: vec![],
        cfgs: vec![("w".into(), "[[".into(), "]]".into(), 9, 3)], snippet_field: Some("w".into()),
      },
    ];
    for plan in plans.iter() {
      run_request(l, &reader, &an, plan, &docs);
    }
    drop(reader);
    drop(index);
    let _ = std::fs::remove_dir_all(&dir);
  });
  ctx.run_cases("hl", n, |rng: &mut Rng, l: &mut Local, scratch| {
    let schema = idx::schema(&sch).expect("schema");
    let analyzers = schema.build_analyzers().expect("analyzers");
    let an = |field: &str, text: &str| -> Option<Vec<String>> {
      analyzers.search_analyzer(field).map(|a| a.analyze(text).into_iter().map(|t| t.text).collect())
    };
    // ---------------- corpus
    let n_docs = rng.urange(4, 10);
    let mut docs = Vec::new();
    let mut texts: Vec<Vec<Text>> = Vec::new();
    for i in 0..n_docs {
      let mut m = serde_json::Map::new();
      m.insert("_id".into(), json!(format!("d{i}")));
      let mut per_field = Vec::new();
      for f in FIELDS {
        let nl = match rng.below(4) {
          0 => 1,
          1 => 2,
          2 => 3,
          _ => 1,
        };
        let mixn = Mix { ascii: 4, latin: 3, comb: 1, cjk: 3, wide_sep: 0.0 };
        let needle: Vec<String> = (0..nl).map(|_| pick_word(rng, &mixn)).collect();
        let place = rng.below(4);
        let t = gen_text(rng, &needle, place);
        m.insert(f.to_string(), json!(t.render()));
        per_field.push(t);
      }
      docs.push(Value::Object(m));
      texts.push(per_field);
    }
    let dir = scratch.join("i");
    let _ = std::fs::remove_dir_all(&dir);
    let layout = vcore::gen::layout(rng, n_docs, 2);
    let index = match idx::build(&dir, true, &sch, &docs, &layout) {
      Ok(i) => i,
      Err(e) => {
        l.fail("api-error:build", format!("{e:#}"), json!({"docs": docs}));
        return;
      }
    };
    let reader = match index.reader() {
      Ok(r) => r,
      Err(e) => {
        l.fail("api-error:reader", format!("{e:#}"), json!({}));
        return;
      }
    };
    // ---------------- requests
    for _ in 0..24 {
      let di = rng.usize(n_docs);
      let fi = rng.usize(FIELDS.len());
      let field = FIELDS[fi];
      let t = &texts[di][fi];
      if t.words.is_empty() {
        continue;
      }
      let qkind = rng.below(100);
      let start = rng.usize(t.words.len());
      let (query, raw_terms, raw_phrases): (Value, Vec<String>, Vec<Vec<String>>) = if qkind < 50 {
        let w = case_variant(rng, &t.words[start]);
        (json!({"type":"term","field":field,"value":w}), vec![w], vec![])
      } else if qkind < 75 {
        let len = rng.urange(1, 3).min(t.words.len() - start);
        let ws: Vec<String> = (0..len).map(|k| case_variant(rng, &t.words[start + k])).collect();
        (json!({"type":"phrase","field":field,"terms":ws}), vec![], vec![ws])
      } else {
        let k = rng.urange(1, 3);
        let ws: Vec<String> = (0..k)
          .map(|_| {
            let wi = rng.usize(t.words.len());
            case_variant(rng, &t.words[wi])
          })
          .collect();
        // query_string over the target field only; words of our alphabet have no query syntax
        let q = ws.join(" ");
        (json!({"type":"query_string","query":q,"fields":[field]}), ws, vec![])
      };
      // highlight configuration
      let mut hl_fields = serde_json::Map::new();
      let mut cfgs: Vec<(String, String, String, usize, usize)> = Vec::new();
      let want_highlight = rng.chance(0.9);
      if want_highlight {
        let mut fs: Vec<&str> = vec![field];
        for f in FIELDS {
          if *f != field && rng.chance(0.25) {
            fs.push(f);
          }
        }
        for f in fs {
          if rng.chance(0.08) {
            hl_fields.insert(f.to_string(), json!({}));
            cfgs.push((f.to_string(), "<em>".into(), "</em>".into(), 160, 1));
            continue;
          }
          let (pre, post) = *rng.pick(TAGS);
          let size = match rng.below(10) {
            0..=3 => rng.urange(2, 40),
            4..=7 => rng.urange(40, 160),
            _ => rng.urange(160, 300),
          };
          let cnt = match rng.below(10) {
            0 => 0,
            1..=4 => 1,
            _ => rng.urange(2, 5),
          };
          hl_fields.insert(f.to_string(), json!({"pre_tag":pre,"post_tag":post,"fragment_size":size,"number_of_fragments":cnt}));
          cfgs.push((f.to_string(), pre.to_string(), post.to_string(), size, cnt));
        }
      }
      let snippet_field: Option<String> = if !want_highlight || rng.chance(0.4) { Some(field.to_string()) } else { None };
      let mut req = json!({"query": query, "limit": 20, "return_stored": true});
      if want_highlight {
        req["highlight"] = json!({"fields": Value::Object(hl_fields)});
      }
      if let Some(sf) = snippet_field.as_ref() {
        req["highlight_field"] = json!(sf);
      }
      let plan = Plan {
        req,
        qkind: if qkind < 50 { "term" } else if qkind < 75 { "phrase" } else { "query_string" },
        raw_terms,
        raw_phrases,
        cfgs,
        snippet_field,
      };
      run_request(l, &reader, &an, &plan, &docs);
    }
    drop(reader);
    drop(index);
    let _ = std::fs::remove_dir_all(&dir);
  });

  std::process::exit(ctx.finish());
}
