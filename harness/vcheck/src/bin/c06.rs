//! C06 — Readers see one consistent snapshot during commits and compaction.
//! Directed schedules: (A) a reader is held at each pause point of `IndexReader::open`
//! (after the manifest copy, before each segment open) while a commit / delete-only commit /
//! compaction (incl. its file cleanup) runs to completion, then resumes; (B) a writer or
//! compaction is held at each of its publish/cleanup pause points while a reader opens and
//! searches. Stress: free-running readers against a writer and a compactor with seeded
//! delays. Oracle: reader()/search never fail; a reader's match_all equals exactly one of
//! the committed states current during its open; asking again later gives the same answer.
use searchlite_core::api::{Index, IndexReader};
use searchlite_core::storage::{DynFile, FsStorage, InMemoryStorage, Storage};
use serde_json::{json, Value};
use std::collections::BTreeMap;
use std::sync::atomic::{AtomicBool, AtomicUsize, Ordering};
use std::sync::{Arc, Mutex};
use std::time::{Duration, Instant};
use vcheck::sched::{self, RunTrace};
use vcore::{idx, Ctx, Local, Rng};

type State = BTreeMap<String, String>;

fn read_state(r: &IndexReader) -> Result<State, String> {
  let docs = idx::all_docs(r).map_err(|e| format!("search failed: {e:#}"))?;
  let mut m = State::new();
  for (id, f) in docs {
    let body = f.get("body").and_then(|b| b.as_str()).unwrap_or("").to_string();
    if m.insert(id.clone(), body).is_some() {
      return Err(format!("duplicate id {id}"));
    }
  }
  Ok(m)
}

struct Gate {
  reached: AtomicBool,
  resume: AtomicBool,
  timed_out: AtomicBool,
}

impl Gate {
  fn new() -> Arc<Gate> {
    Arc::new(Gate { reached: AtomicBool::new(false), resume: AtomicBool::new(false), timed_out: AtomicBool::new(false) })
  }
  fn wait_reached(&self, d: Duration, done: &AtomicBool) -> bool {
    let t = Instant::now();
    while !self.reached.load(Ordering::SeqCst) {
      if done.load(Ordering::SeqCst) || t.elapsed() > d {
        return self.reached.load(Ordering::SeqCst);
      }
      std::thread::sleep(Duration::from_micros(100));
    }
    true
  }
}

/// Action: hold the calling thread at the `nth` occurrence of `point` until resumed.
fn hold_at(point: &'static str, nth: usize, gate: Arc<Gate>) -> sched::Action {
  let mut seen = 0usize;
  Box::new(move |name: &'static str| {
    if name == point {
      if seen == nth {
        gate.reached.store(true, Ordering::SeqCst);
        let t = Instant::now();
        while !gate.resume.load(Ordering::SeqCst) {
          if t.elapsed() > Duration::from_secs(5) {
            gate.timed_out.store(true, Ordering::SeqCst);
            break;
          }
          std::thread::sleep(Duration::from_micros(100));
        }
      }
      seen += 1;
    }
  })
}

#[derive(Clone, Debug)]
enum WOp {
  CommitAdd,
  CommitDelete,
  CommitUpsert,
  Compact,
  CommitAddThenCompact,
}

struct World {
  index: Arc<Index>,
  state: State,
  next: usize,
}

/// Storage wrapper for the "failing commit" family: once armed, the next store of MANIFEST.json
/// announces itself, stays inside the call until resumed (a slow, then failing, disk) and returns an
/// error without effect. Everything else is passed through to the real storage.
struct HoldStorage {
  inner: Arc<dyn Storage>,
  armed: AtomicBool,
  gate: Arc<Gate>,
}

impl Storage for HoldStorage {
  fn root(&self) -> &std::path::Path {
    self.inner.root()
  }
  fn ensure_dir(&self, path: &std::path::Path) -> anyhow::Result<()> {
    self.inner.ensure_dir(path)
  }
  fn exists(&self, path: &std::path::Path) -> bool {
    self.inner.exists(path)
  }
  fn open_read(&self, path: &std::path::Path) -> anyhow::Result<DynFile> {
    self.inner.open_read(path)
  }
  fn open_write(&self, path: &std::path::Path) -> anyhow::Result<DynFile> {
    self.inner.open_write(path)
  }
  fn open_append(&self, path: &std::path::Path) -> anyhow::Result<DynFile> {
    self.inner.open_append(path)
  }
  fn read_to_end(&self, path: &std::path::Path) -> anyhow::Result<Vec<u8>> {
    self.inner.read_to_end(path)
  }
  fn write_all(&self, path: &std::path::Path, data: &[u8]) -> anyhow::Result<()> {
    self.inner.write_all(path, data)
  }
  fn atomic_write(&self, path: &std::path::Path, data: &[u8]) -> anyhow::Result<()> {
    let is_manifest = path.file_name().map(|n| n == "MANIFEST.json").unwrap_or(false);
    if is_manifest && self.armed.swap(false, Ordering::SeqCst) {
      self.gate.reached.store(true, Ordering::SeqCst);
      let t = Instant::now();
      while !self.gate.resume.load(Ordering::SeqCst) {
        if t.elapsed() > Duration::from_secs(5) {
          self.gate.timed_out.store(true, Ordering::SeqCst);
          break;
        }
        std::thread::sleep(Duration::from_micros(100));
      }
      anyhow::bail!("injected fault: the manifest could not be stored");
    }
    self.inner.atomic_write(path, data)
  }
  fn remove(&self, path: &std::path::Path) -> anyhow::Result<()> {
    self.inner.remove(path)
  }
  fn remove_dir_all(&self, path: &std::path::Path) -> anyhow::Result<()> {
    self.inner.remove_dir_all(path)
  }
}

fn setup(rng: &mut Rng, dir: &std::path::Path, in_mem: bool) -> Result<World, String> {
  setup_with(rng, dir, in_mem, None)
}

fn setup_with(rng: &mut Rng, dir: &std::path::Path, in_mem: bool, hold: Option<Arc<Gate>>) -> Result<World, String> {
  setup_inner(rng, dir, in_mem, hold).map(|(w, _)| w)
}

fn setup_inner(rng: &mut Rng, dir: &std::path::Path, in_mem: bool, hold: Option<Arc<Gate>>) -> Result<(World, Option<Arc<HoldStorage>>), String> {
  let _ = std::fs::remove_dir_all(dir);
  std::fs::create_dir_all(dir).unwrap();
  let base: Arc<dyn Storage> = if in_mem { Arc::new(InMemoryStorage::new(dir.to_path_buf())) } else { Arc::new(FsStorage::new(dir.to_path_buf())) };
  let held: Option<Arc<HoldStorage>> = hold.map(|gate| Arc::new(HoldStorage { inner: base.clone(), armed: AtomicBool::new(false), gate }));
  let storage: Arc<dyn Storage> = match &held {
    Some(h) => h.clone(),
    None => base,
  };
  let schema = json!({"doc_id_field":"_id","text_fields":[{"name":"body","analyzer":"default","stored":true,"indexed":true}],"keyword_fields":[{"name":"tag","stored":true,"indexed":true,"fast":true}],"numeric_fields":[]});
  let index = Index::create_with_storage(dir, idx::schema(&schema).unwrap(), idx::opts(dir, in_mem), storage).map_err(|e| format!("{e:#}"))?;
  let mut w = World { index: Arc::new(index), state: State::new(), next: 0 };
  let segs = rng.urange(1, 3);
  for _ in 0..segs {
    let n = rng.urange(1, 3);
    let mut wr = w.index.writer().map_err(|e| format!("{e:#}"))?;
    for _ in 0..n {
      let id = format!("d{}", w.next);
      let body = format!("v{} seed text", w.next);
      w.next += 1;
      wr.add_document(&idx::doc(&json!({"_id": id, "body": body, "tag": "t"}))).map_err(|e| format!("{e:#}"))?;
      w.state.insert(id, body);
    }
    wr.commit().map_err(|e| format!("{e:#}"))?;
  }
  if rng.chance(0.5) && w.state.len() > 1 {
    let id = w.state.keys().next().unwrap().clone();
    let mut wr = w.index.writer().map_err(|e| format!("{e:#}"))?;
    wr.delete_document(&id).map_err(|e| format!("{e:#}"))?;
    wr.commit().map_err(|e| format!("{e:#}"))?;
    w.state.remove(&id);
  }
  Ok((w, held))
}

/// Perform a writer-side operation; returns the state afterwards.
fn do_wop(w: &Index, state: &State, next: &mut usize, op: &WOp) -> Result<State, String> {
  let mut s = state.clone();
  let e = |e: anyhow::Error| format!("{e:#}");
  match op {
    WOp::CommitAdd | WOp::CommitAddThenCompact => {
      let mut wr = w.writer().map_err(e)?;
      let id = format!("d{}", *next);
      let body = format!("v{} added text", *next);
      *next += 1;
      wr.add_document(&idx::doc(&json!({"_id": id, "body": body, "tag": "t"}))).map_err(e)?;
      wr.commit().map_err(e)?;
      s.insert(id, body);
      if let WOp::CommitAddThenCompact = op {
        w.compact().map_err(e)?;
      }
    }
    WOp::CommitDelete => {
      if let Some(id) = s.keys().next().cloned() {
        let mut wr = w.writer().map_err(e)?;
        wr.delete_document(&id).map_err(e)?;
        wr.commit().map_err(e)?;
        s.remove(&id);
      }
    }
    WOp::CommitUpsert => {
      if let Some(id) = s.keys().last().cloned() {
        let mut wr = w.writer().map_err(e)?;
        let body = format!("v{} upserted text", *next);
        *next += 1;
        wr.add_document(&idx::doc(&json!({"_id": id, "body": body, "tag": "t"}))).map_err(e)?;
        wr.commit().map_err(e)?;
        s.insert(id, body);
      }
    }
    WOp::Compact => {
      w.compact().map_err(e)?;
    }
  }
  Ok(s)
}

const READER_POINTS: &[(&str, usize)] = &[("reader.open.after_manifest", 0), ("reader.open.before_segment", 0), ("reader.open.before_segment", 1), ("reader.open.before_segment", 2)];
const WRITER_POINTS: &[&str] = &[
  "writer.commit.after_segment",
  "writer.commit.after_manifest_store",
  "writer.commit.after_publish",
  "writer.commit.after_truncate",
  "compact.after_reader",
  "compact.after_segment",
  "compact.after_store",
  "compact.after_publish",
  "compact.after_cleanup",
];
const WOPS: &[WOp] = &[WOp::CommitAdd, WOp::CommitDelete, WOp::CommitUpsert, WOp::Compact, WOp::CommitAddThenCompact];

fn main() {
  let args: Vec<String> = std::env::args().skip(1).collect();
  let mut ctx = Ctx::from_args("C06", "exploration", &args);
  let quick = ctx.quick();
  ctx.rule = "directed schedules over the hook's pause points: family A holds a reader at {after manifest copy, before segment 0/1/2} while one of {commit adding a segment, delete-only commit, upsert commit, compaction, commit+compaction} completes (including file cleanup) and then resumes it; family B holds the commit/compaction at each of its 9 publish/cleanup points while a reader opens and searches; every (point, writer operation, index shape, storage) combination is one schedule. Failing-commit family: a Storage wrapper holds a commit inside its manifest store and then fails it; a reader opened in that window must succeed and return the last committed state (and keep returning it). Stress mode: 3 readers loop open/search against a writer and a compactor with seeded delays. evaluations = reader observations judged (membership in the admissible committed states, repeat-read equality, no error); distinct_nontrivial = distinct (family, pause point, writer operation, #segments, storage, point actually reached) schedules plus distinct stress interleavings (hash of the global pause-point order).".into();
  ctx.assumptions = vec![
    "a held thread that makes the other side block on a real lock is released after 300 ms (reported as lock-blocked, never as a verdict)".into(),
    "states are identified by the full (id, body) set read with match_all, return_stored, large limit".into(),
  ];
  sched::install();
  ctx.threads = ctx.threads.min(8);
  // ---- directed schedules -------------------------------------------------------------
  let mut schedules: Vec<(u8, usize, usize)> = Vec::new(); // (family, point idx, wop idx)
  for p in 0..READER_POINTS.len() {
    for w in 0..WOPS.len() {
      schedules.push((0, p, w));
    }
  }
  for p in 0..WRITER_POINTS.len() {
    for w in 0..WOPS.len() {
      schedules.push((1, p, w));
    }
  }
  let reps = ctx.n(2, 40);
  let total = schedules.len() as u64 * reps;
  let scheds = schedules.clone();
  ctx.run_cases("directed", total, |rng: &mut Rng, l: &mut Local, scratch| {
    let (family, pi, wi) = scheds[(l.case_idx as usize) % scheds.len()];
    let in_mem = rng.chance(0.25);
    let dir = scratch.join("idx");
    let mut world = match setup(rng, &dir, in_mem) {
      Ok(w) => w,
      Err(e) => {
        l.inconclusive(format!("setup: {e}"));
        return;
      }
    };
    let nseg = world.index.manifest().segments.len();
    let wop = WOPS[wi].clone();
    let s_before = world.state.clone();
    let trace = Arc::new(RunTrace { points: Mutex::new(Vec::new()) });
    let gate = Gate::new();
    let index = world.index.clone();
    let done_flag = Arc::new(AtomicBool::new(false));
    let mut problems: Vec<(String, String)> = Vec::new();
    let mut reached = false;
    let mut lock_blocked = false;
    let s_after: State;
    let reader_result: Result<(IndexReader, State), String>;
    if family == 0 {
      let (pname, nth) = READER_POINTS[pi];
      // reader held, writer op runs
      let g2 = gate.clone();
      let tr = trace.clone();
      let ix = index.clone();
      let df = done_flag.clone();
      let rh = std::thread::spawn(move || {
        sched::enter(0, tr, hold_at(pname, nth, g2));
        let r = vcore::ctx::catch(|| ix.reader().map_err(|e| format!("reader() failed: {e:#}")).and_then(|r| read_state(&r).map(|s| (r, s))));
        sched::leave();
        df.store(true, Ordering::SeqCst);
        r
      });
      reached = gate.wait_reached(Duration::from_secs(5), &done_flag);
      // writer op in its own thread so that a lock-blocked writer cannot hang the schedule
      let ix = index.clone();
      let st = world.state.clone();
      let mut nx = world.next;
      let wdone = Arc::new(AtomicBool::new(false));
      let wd = wdone.clone();
      let wop2 = wop.clone();
      let wh = std::thread::spawn(move || {
        let r = vcore::ctx::catch(|| do_wop(&ix, &st, &mut nx, &wop2));
        wd.store(true, Ordering::SeqCst);
        (r, nx)
      });
      let t = Instant::now();
      while !wdone.load(Ordering::SeqCst) && t.elapsed() < Duration::from_millis(300) {
        std::thread::sleep(Duration::from_micros(200));
      }
      if !wdone.load(Ordering::SeqCst) {
        lock_blocked = true;
      }
      gate.resume.store(true, Ordering::SeqCst);
      let (wr, nx) = wh.join().unwrap();
      world.next = nx;
      match wr {
        Err(p) => {
          problems.push((format!("writer-panic:{}", vcore::ctx::panic_site(&p)), p));
          s_after = s_before.clone();
        }
        Ok(Err(e)) => {
          problems.push(("writer-op-fails-with-concurrent-reader".into(), e));
          s_after = s_before.clone();
        }
        Ok(Ok(s)) => s_after = s,
      }
      reader_result = match rh.join().unwrap() {
        Err(p) => Err(format!("panic:{p}")),
        Ok(r) => r,
      };
    } else {
      let pname = WRITER_POINTS[pi];
      let g2 = gate.clone();
      let tr = trace.clone();
      let ix = index.clone();
      let st = world.state.clone();
      let mut nx = world.next;
      let df = done_flag.clone();
      let wop2 = wop.clone();
      let wh = std::thread::spawn(move || {
        sched::enter(1, tr, hold_at(pname, 0, g2));
        let r = vcore::ctx::catch(|| do_wop(&ix, &st, &mut nx, &wop2));
        sched::leave();
        df.store(true, Ordering::SeqCst);
        (r, nx)
      });
      reached = gate.wait_reached(Duration::from_secs(5), &done_flag);
      // reader runs fully while the writer is held (own thread: may block on a real lock)
      let ix = index.clone();
      let rdone = Arc::new(AtomicBool::new(false));
      let rd = rdone.clone();
      let rh = std::thread::spawn(move || {
        let r = vcore::ctx::catch(|| ix.reader().map_err(|e| format!("reader() failed: {e:#}")).and_then(|r| read_state(&r).map(|s| (r, s))));
        rd.store(true, Ordering::SeqCst);
        r
      });
      let t = Instant::now();
      while !rdone.load(Ordering::SeqCst) && t.elapsed() < Duration::from_millis(300) {
        std::thread::sleep(Duration::from_micros(200));
      }
      if !rdone.load(Ordering::SeqCst) {
        lock_blocked = true;
      }
      gate.resume.store(true, Ordering::SeqCst);
      let (wr, nx) = wh.join().unwrap();
      world.next = nx;
      match wr {
        Err(p) => {
          problems.push((format!("writer-panic:{}", vcore::ctx::panic_site(&p)), p));
          s_after = s_before.clone();
        }
        Ok(Err(e)) => {
          problems.push(("writer-op-fails-with-concurrent-reader".into(), e));
          s_after = s_before.clone();
        }
        Ok(Ok(s)) => s_after = s,
      }
      reader_result = match rh.join().unwrap() {
        Err(p) => Err(format!("panic:{p}")),
        Ok(r) => r,
      };
    }
    if gate.timed_out.load(Ordering::SeqCst) {
      l.inconclusive("held thread was never resumed (harness timeout)");
    }
    let pname = if family == 0 { READER_POINTS[pi].0 } else { WRITER_POINTS[pi] };
    let case = json!({"family": if family == 0 {"reader-held"} else {"writer-held"}, "pause_point": pname, "nth": if family == 0 { READER_POINTS[pi].1 } else { 0 },
      "writer_op": format!("{wop:?}"), "segments_before": nseg, "storage": if in_mem {"InMemory"} else {"Filesystem"}, "point_reached": reached, "lock_blocked": lock_blocked,
      "state_before": s_before, "state_after": s_after,
      "pause_order": trace.points.lock().unwrap().iter().map(|(t, p)| format!("t{t}:{p}")).collect::<Vec<_>>()});
    l.eval();
    l.nontrivial(&(family, pi, wi, nseg, in_mem, reached));
    if reached {
      l.count("schedules_where_pause_point_was_reached", 1);
    }
    if lock_blocked {
      l.count("schedules_lock_blocked", 1);
    }
    if l.samples.len() < 2 && reached {
      l.sample(case.clone());
    }
    match reader_result {
      Err(e) => {
        let missing_seg = e.contains("seg_") || e.contains("No such file") || e.contains("missing");
        let cleanup_between = {
          let pts = trace.points.lock().unwrap();
          let _ = &pts;
          matches!(wop, WOp::Compact | WOp::CommitAddThenCompact)
        };
        problems.push((
          if e.starts_with("panic") {
            format!("reader-panic:{}", vcore::ctx::panic_site(&e))
          } else if missing_seg && cleanup_between {
            "reader-open-fails:segment-file-removed-by-concurrent-compaction".into()
          } else {
            "reader-fails-during-concurrent-write".into()
          },
          e,
        ));
      }
      Ok((reader, s_seen)) => {
        if s_seen != s_before && s_seen != s_after {
          problems.push(("reader-sees-mixed-state".into(), format!("saw {s_seen:?}, admissible: {s_before:?} or {s_after:?}")));
        }
        // later changes must not affect an open reader
        let mut st = s_after.clone();
        let mut nx = world.next;
        for op in [WOp::CommitAdd, WOp::CommitDelete, WOp::Compact] {
          match vcore::ctx::catch(|| do_wop(&index, &st, &mut nx, &op)) {
            Ok(Ok(s)) => st = s,
            Ok(Err(e)) => problems.push(("followup-writer-op-fails".into(), e)),
            Err(p) => problems.push((format!("writer-panic:{}", vcore::ctx::panic_site(&p)), p)),
          }
        }
        l.eval();
        match vcore::ctx::catch(|| read_state(&reader)) {
          Err(p) => problems.push((format!("reader-panic-on-repeat:{}", vcore::ctx::panic_site(&p)), p)),
          Ok(Err(e)) => problems.push(("open-reader-fails-after-later-changes".into(), e)),
          Ok(Ok(again)) => {
            if again != s_seen {
              problems.push(("open-reader-results-changed".into(), format!("first {s_seen:?}, later {again:?}")));
            }
          }
        }
        // and a fresh reader sees the final state
        l.eval();
        match index.reader().map_err(|e| format!("{e:#}")).and_then(|r| read_state(&r)) {
          Err(e) => problems.push(("fresh-reader-fails-at-quiescence".into(), e)),
          Ok(s) => {
            if s != st {
              problems.push(("fresh-reader-wrong-at-quiescence".into(), format!("saw {s:?} expected {st:?}")));
            }
          }
        }
      }
    }
    for (k, d) in problems {
      l.fail(k.clone(), format!("{k}: {d}"), case.clone());
    }
    drop(world);
    let _ = std::fs::remove_dir_all(&dir);
  });
  // ---- failing commit: a reader opens while a commit is stuck in a manifest store that then fails ----
  let failing = ctx.n(24, 600);
  ctx.run_cases("failing-commit", failing, |rng: &mut Rng, l: &mut Local, scratch| {
    let in_mem = rng.chance(0.25);
    let dir = scratch.join("idx");
    let gate = Gate::new();
    let (world, held) = match setup_inner(rng, &dir, in_mem, Some(gate.clone())) {
      Ok(x) => x,
      Err(e) => {
        l.inconclusive(format!("setup: {e}"));
        return;
      }
    };
    let held = held.unwrap();
    let s_before = world.state.clone();
    let index = world.index.clone();
    let kind = ["add", "delete", "upsert"][rng.usize(3)];
    let victim = s_before.keys().next().cloned();
    let new_id = format!("d{}", world.next);
    held.armed.store(true, Ordering::SeqCst);
    let done = Arc::new(AtomicBool::new(false));
    let (ix, d2, k2, v2, n2) = (index.clone(), done.clone(), kind, victim.clone(), new_id.clone());
    let wh = std::thread::spawn(move || {
      let r = vcore::ctx::catch(|| -> Result<(), String> {
        let mut wr = ix.writer().map_err(|e| format!("writer: {e:#}"))?;
        match (k2, v2) {
          ("delete", Some(id)) => wr.delete_document(&id).map_err(|e| format!("{e:#}"))?,
          ("upsert", Some(id)) => {
            wr.add_document(&idx::doc(&json!({"_id": id, "body": "never committed upsert", "tag": "t"}))).map_err(|e| format!("{e:#}"))?;
          }
          _ => {
            wr.add_document(&idx::doc(&json!({"_id": n2, "body": "never committed add", "tag": "t"}))).map_err(|e| format!("{e:#}"))?;
          }
        }
        wr.commit().map_err(|e| format!("commit: {e:#}"))
      });
      d2.store(true, Ordering::SeqCst);
      r
    });
    let reached = gate.wait_reached(Duration::from_secs(5), &done);
    // reader(s) while the commit sits in the failing store
    let during = vcore::ctx::catch(|| index.reader().map_err(|e| format!("reader() failed: {e:#}")).and_then(|r| read_state(&r).map(|s| (r, s))));
    gate.resume.store(true, Ordering::SeqCst);
    let commit_result = wh.join().unwrap();
    let case = json!({"family": "failing-commit", "operation": kind, "storage": if in_mem {"InMemory"} else {"Filesystem"}, "fault_window_reached": reached,
      "state_before": s_before, "commit_result": format!("{commit_result:?}")});
    if !reached {
      l.inconclusive("the armed manifest store was never reached");
      return;
    }
    if matches!(commit_result, Ok(Ok(()))) {
      l.inconclusive("the commit succeeded although its manifest store failed (C03's subject)");
      return;
    }
    l.eval();
    l.nontrivial(&("failing-commit", kind, in_mem, world.index.manifest().segments.len()));
    l.count("failing_commit_windows_observed", 1);
    match during {
      Err(p) => l.fail(format!("reader-panic:{}", vcore::ctx::panic_site(&p)), format!("reader panicked while a commit was failing: {p}"), case.clone()),
      Ok(Err(e)) => l.fail("reader-fails-during-failing-commit", format!("opening/searching a reader failed while a commit was stuck in a failing manifest store: {e}"), case.clone()),
      Ok(Ok((reader, seen))) => {
        if seen != s_before {
          l.fail("reader-saw-state-of-a-commit-that-failed", format!("a reader opened during a commit whose manifest store then failed returned {seen:?}; the only committed state is {s_before:?}"), case.clone());
        }
        l.eval();
        match vcore::ctx::catch(|| read_state(&reader)) {
          Ok(Ok(again)) if again == seen => {}
          other => l.fail("open-reader-results-changed", format!("the same reader answered differently after the failed commit: {other:?}"), case.clone()),
        }
      }
    }
    l.eval();
    match index.reader().map_err(|e| format!("{e:#}")).and_then(|r| read_state(&r)) {
      Ok(s) if s == s_before => {}
      other => l.fail("fresh-reader-wrong-after-failed-commit", format!("after the failed commit a fresh reader gives {other:?}, expected {s_before:?}"), case.clone()),
    }
    if l.samples.len() < 2 {
      l.sample(case);
    }
    drop(world);
    let _ = std::fs::remove_dir_all(&dir);
  });
  // ---- stress ---------------------------------------------------------------------------
  let stress_runs = ctx.n(6, 300);
  ctx.run_cases("stress", stress_runs, |rng: &mut Rng, l: &mut Local, scratch| {
    let in_mem = rng.chance(0.25);
    let dir = scratch.join("idx");
    let world = match setup(rng, &dir, in_mem) {
      Ok(w) => w,
      Err(e) => {
        l.inconclusive(format!("setup: {e}"));
        return;
      }
    };
    let index = world.index.clone();
    let states: Arc<Mutex<Vec<State>>> = Arc::new(Mutex::new(vec![world.state.clone()]));
    let started = Arc::new(AtomicUsize::new(0)); // index of the newest state whose commit has started
    let done = Arc::new(AtomicUsize::new(0)); // index of the newest state whose commit has returned
    let stop = Arc::new(AtomicBool::new(false));
    let trace = Arc::new(RunTrace { points: Mutex::new(Vec::new()) });
    let fails: Arc<Mutex<Vec<(String, String)>>> = Arc::new(Mutex::new(Vec::new()));
    let observations = Arc::new(AtomicUsize::new(0));
    let n_commits = if quick { 12 } else { 30 };
    std::thread::scope(|sc| {
      // writer
      {
        let index = index.clone();
        let states = states.clone();
        let started = started.clone();
        let done = done.clone();
        let stop = stop.clone();
        let fails = fails.clone();
        let trace = trace.clone();
        let mut wr = rng.fork();
        let prng = rng.fork();
        let mut next = world.next;
        sc.spawn(move || {
          sched::enter(1, trace, sched::perturb(prng, WRITER_POINTS, 1500));
          for i in 1..=n_commits {
            let cur = states.lock().unwrap().last().unwrap().clone();
            let op = match wr.below(3) {
              0 => WOp::CommitAdd,
              1 => WOp::CommitDelete,
              _ => WOp::CommitUpsert,
            };
            // the state this commit will produce is published BEFORE it starts
            let mut st = cur.clone();
            let mut nx = next;
            // dry-run the model part
            match &op {
              WOp::CommitAdd => {
                st.insert(format!("d{nx}"), format!("v{nx} added text"));
                nx += 1;
              }
              WOp::CommitDelete => {
                if let Some(id) = st.keys().next().cloned() {
                  st.remove(&id);
                }
              }
              _ => {
                if let Some(id) = st.keys().last().cloned() {
                  st.insert(id, format!("v{nx} upserted text"));
                  nx += 1;
                }
              }
            }
            states.lock().unwrap().push(st.clone());
            started.store(i, Ordering::SeqCst);
            match vcore::ctx::catch(|| do_wop(&index, &cur, &mut next, &op)) {
              Ok(Ok(s)) => {
                if s != st {
                  fails.lock().unwrap().push(("harness-model-mismatch".into(), format!("{s:?} vs {st:?}")));
                }
              }
              Ok(Err(e)) => fails.lock().unwrap().push(("writer-op-fails-under-stress".into(), e)),
              Err(p) => fails.lock().unwrap().push((format!("writer-panic:{}", vcore::ctx::panic_site(&p)), p)),
            }
            done.store(i, Ordering::SeqCst);
          }
          stop.store(true, Ordering::SeqCst);
          sched::leave();
        });
      }
      // compactor
      {
        let index = index.clone();
        let stop = stop.clone();
        let fails = fails.clone();
        let trace = trace.clone();
        let prng = rng.fork();
        let mut cr = rng.fork();
        sc.spawn(move || {
          sched::enter(2, trace, sched::perturb(prng, WRITER_POINTS, 1500));
          while !stop.load(Ordering::SeqCst) {
            std::thread::sleep(Duration::from_micros(cr.below(3000)));
            match vcore::ctx::catch(|| index.compact()) {
              Ok(Ok(())) => {}
              Ok(Err(e)) => fails.lock().unwrap().push(("compact-fails-under-stress".into(), format!("{e:#}"))),
              Err(p) => fails.lock().unwrap().push((format!("compact-panic:{}", vcore::ctx::panic_site(&p)), p)),
            }
          }
          sched::leave();
        });
      }
      // readers
      for t in 0..3 {
        let index = index.clone();
        let states = states.clone();
        let started = started.clone();
        let done = done.clone();
        let stop = stop.clone();
        let fails = fails.clone();
        let trace = trace.clone();
        let observations = observations.clone();
        let prng = rng.fork();
        sc.spawn(move || {
          sched::enter(10 + t, trace, sched::perturb(prng, &["reader.open.after_manifest", "reader.open.before_segment"], 1500));
          let mut iters = 0;
          while !stop.load(Ordering::SeqCst) && iters < 400 {
            iters += 1;
            let lo = done.load(Ordering::SeqCst);
            let r = vcore::ctx::catch(|| index.reader().map_err(|e| format!("reader() failed: {e:#}")).and_then(|r| read_state(&r)));
            let hi = started.load(Ordering::SeqCst);
            observations.fetch_add(1, Ordering::SeqCst);
            match r {
              Err(p) => fails.lock().unwrap().push((format!("reader-panic:{}", vcore::ctx::panic_site(&p)), p)),
              Ok(Err(e)) => {
                let missing = e.contains("seg_") || e.contains("No such file") || e.contains("missing");
                fails.lock().unwrap().push((if missing { "reader-open-fails:segment-file-removed-by-concurrent-compaction".into() } else { "reader-fails-under-stress".into() }, e));
              }
              Ok(Ok(s)) => {
                let sts = states.lock().unwrap();
                let ok = (lo..=hi.min(sts.len() - 1)).any(|i| sts[i] == s);
                if !ok {
                  fails.lock().unwrap().push(("reader-sees-state-outside-admissible-window".into(), format!("saw {s:?}; admissible states {lo}..={hi}")));
                }
              }
            }
          }
          sched::leave();
        });
      }
    });
    let obs = observations.load(Ordering::SeqCst) as u64;
    l.evals_add(obs);
    l.count("stress_reader_observations", obs);
    let pts = trace.points.lock().unwrap().clone();
    l.nontrivial(&pts);
    for (k, d) in fails.lock().unwrap().iter() {
      l.fail(k.clone(), format!("{k}: {d}"), json!({"mode": "stress", "storage": if in_mem {"InMemory"} else {"Filesystem"}, "commits": n_commits}));
    }
    drop(world);
    let _ = std::fs::remove_dir_all(&dir);
  });
  std::process::exit(ctx.finish());
}
