//! C11 — Cursor pagination is complete, duplicate-free and safe.
//! Metamorphic oracle: a cursor walk with page size p must reproduce, bit for bit, the single
//! request whose limit covers all matches (same reader); totals never exceed the true match
//! count (exact under bm25); cursors are rejected after the index generation changed or under
//! a different sort plan.
use serde_json::{json, Value};
use std::collections::HashSet;
use vcore::{idx, Ctx, Local, Rng};

#[path = "../shared/paging.rs"]
mod paging;
use paging::{Call, HitSig, F, Q};

struct WalkRec {
  base: Value,
  page: usize,
  sort: Vec<Value>,
  /// (cursor, id of the last hit of the page that issued it)
  cursors: Vec<(String, String)>,
}

fn cursor_kind(sort: &[Value]) -> &'static str {
  let r = paging::resolve_sort(sort);
  if r.len() == 1 && r[0].0 == "_score" && r[0].1 {
    "score-cursor"
  } else {
    "sort-cursor"
  }
}

/// Primary sort value of a document as documented (min for asc, max for desc, missing last);
/// used for coverage counters only.
fn primary_key(doc: &Value, score_bits: u32, sort: &[Value]) -> String {
  let r = paging::resolve_sort(sort);
  let (f, desc) = &r[0];
  if f == "_score" {
    return format!("s{score_bits}");
  }
  let vals: Vec<Value> = match doc.get(f) {
    None | Some(Value::Null) => vec![],
    Some(Value::Array(a)) => a.iter().filter(|v| !v.is_null()).cloned().collect(),
    Some(v) => vec![v.clone()],
  };
  if vals.is_empty() {
    return "missing".into();
  }
  let mut keyed: Vec<(f64, String)> = vals.iter().map(|v| (v.as_f64().unwrap_or(0.0), v.as_str().unwrap_or("").to_string())).collect();
  keyed.sort_by(|a, b| a.0.total_cmp(&b.0).then(a.1.cmp(&b.1)));
  let pick = if *desc { keyed.last() } else { keyed.first() };
  format!("{:?}", pick)
}

/// True when the f64 value a sort key selects for this document (min for asc, max for desc)
/// changes when written as JSON text and parsed back.
fn lossy_f64_sort_value(doc: &Value, sort: &[Value]) -> bool {
  for (f, desc) in paging::resolve_sort(sort) {
    if f != "x" && f != "r" {
      continue;
    }
    let mut vals: Vec<f64> = match doc.get(&f) {
      None | Some(Value::Null) => vec![],
      Some(Value::Array(a)) => a.iter().filter_map(|v| v.as_f64()).collect(),
      Some(v) => v.as_f64().into_iter().collect(),
    };
    vals.sort_by(|a, b| a.total_cmp(b));
    let pick = if desc { vals.last() } else { vals.first() };
    if let Some(v) = pick {
      let text = serde_json::to_string(v).unwrap_or_default();
      let back: f64 = serde_json::from_str(&text).unwrap_or(f64::NAN);
      if back.to_bits() != v.to_bits() {
        return true;
      }
    }
  }
  false
}

/// Re-issue the first deviating page request with execution=bm25; true when the exhaustive
/// answer to that very request is the expected slice of the unpaged result.
fn pruning_to_blame(reader: &searchlite_core::api::IndexReader, base: &Value, page: usize, w: &paging::Walk, full: &[HitSig]) -> bool {
  let mut offset = 0usize;
  for (i, p) in w.pages.iter().enumerate() {
    let got: Vec<&String> = p.hits.iter().map(|h| &h.doc_id).collect();
    let exp: Vec<&String> = full.iter().skip(offset).take(page).map(|h| &h.0).collect();
    if got != exp {
      let mut req = base.clone();
      req["limit"] = json!(page);
      if i > 0 {
        req["cursor"] = json!(w.cursors[i - 1]);
      }
      paging::apply_exec(&mut req, &("bm25".to_string(), None));
      return match paging::call(reader, &req) {
        Call::Ok(r) => r.hits.iter().map(|h| &h.doc_id).collect::<Vec<_>>() == exp,
        _ => false,
      };
    }
    offset += p.hits.len();
  }
  false
}

/// The request that was rejected as "stale or invalid cursor" is accepted under execution=bm25.
fn cursor_valid_under_bm25(reader: &searchlite_core::api::IndexReader, base: &Value, page: usize, w: &paging::Walk) -> bool {
  let Some(cur) = w.cursors.last() else { return false };
  let mut req = base.clone();
  req["limit"] = json!(page);
  req["cursor"] = json!(cur);
  paging::apply_exec(&mut req, &("bm25".to_string(), None));
  matches!(paging::call(reader, &req), Call::Ok(_))
}

/// Score bits of one document observed over un-cursored variants of the same request (limits
/// 1..big, all execution strategies) plus `seen` (bits already observed in the walk): true when
/// they are not all equal but within a few ULPs of each other.
fn doc_score_varies(reader: &searchlite_core::api::IndexReader, base: &Value, big: usize, doc: &str, seen: &[u32]) -> bool {
  let mut bits: Vec<u32> = seen.to_vec();
  for exec in [("bm25", None), ("wand", None), ("bmw", None), ("bmw", Some(1usize)), ("bmw", Some(3usize))] {
    for limit in [1usize, 2, 3, 4, 5, 6, 7, 8, big] {
      let mut req = base.clone();
      req["limit"] = json!(limit);
      paging::apply_exec(&mut req, &(exec.0.to_string(), exec.1));
      if let Call::Ok(r) = paging::call(reader, &req) {
        if let Some(h) = r.hits.iter().find(|h| h.doc_id == doc) {
          bits.push(h.score.to_bits());
        }
      }
    }
  }
  let (lo, hi) = (bits.iter().min().copied().unwrap_or(0), bits.iter().max().copied().unwrap_or(0));
  hi != lo && hi - lo <= 8
}

/// The document the last cursor of a stopped walk points at has a request-dependent score.
fn cursor_doc_score_varies(reader: &searchlite_core::api::IndexReader, base: &Value, big: usize, w: &paging::Walk) -> bool {
  let Some((doc, walk_bits)) = w.pages.last().and_then(|p| p.hits.last()).map(|h| (h.doc_id.clone(), h.score.to_bits())) else { return false };
  doc_score_varies(reader, base, big, &doc, &[walk_bits])
}

/// The rejected cursor is accepted by the SAME execution strategy under some other limit: whether the
/// cursor document is "seen" (recomputed key == cursor key, i.e. identical score bits) depends on the
/// request's limit, which is the request-dependent last-bit scoring again.
fn cursor_acceptance_depends_on_limit(reader: &searchlite_core::api::IndexReader, base: &Value, big: usize, w: &paging::Walk) -> bool {
  let Some(cur) = w.cursors.last() else { return false };
  let (mut ok, mut err) = (0, 0);
  for limit in [1usize, 2, 3, 4, 5, 6, 7, 8, big] {
    let mut req = base.clone();
    req["limit"] = json!(limit);
    req["cursor"] = json!(cur);
    match paging::call(reader, &req) {
      Call::Ok(_) => ok += 1,
      Call::Err(e) if e.contains("stale or invalid cursor") => err += 1,
      _ => {}
    }
  }
  ok > 0 && err > 0
}

/// Index of the first page whose ids are not the expected slice of the unpaged result.
fn first_deviation(w: &paging::Walk, full: &[HitSig], page: usize) -> Option<usize> {
  let mut offset = 0usize;
  for (i, p) in w.pages.iter().enumerate() {
    let got: Vec<&String> = p.hits.iter().map(|h| &h.doc_id).collect();
    let exp: Vec<&String> = full.iter().skip(offset).take(page).map(|h| &h.0).collect();
    if got != exp {
      return Some(i);
    }
    offset += p.hits.len();
  }
  None
}

fn jitter_at_first_deviation(reader: &searchlite_core::api::IndexReader, base: &Value, big: usize, w: &paging::Walk, full: &[HitSig], page: usize) -> bool {
  let Some(i) = first_deviation(w, full, page) else { return false };
  let mut near: Vec<HitSig> = paging::hit_sigs(&w.pages[i]);
  if i > 0 {
    near.extend(paging::hit_sigs(&w.pages[i - 1]));
  }
  if has_ulp_jitter(full, &near) {
    return true;
  }
  // documents expected on the deviating page (possibly never shown by the walk at all)
  let offset: usize = w.pages.iter().take(i).map(|p| p.hits.len()).sum();
  let mut cands: Vec<String> = full.iter().skip(offset).take(page).map(|h| h.0.clone()).collect();
  cands.extend(near.iter().map(|h| h.0.clone()));
  cands.sort();
  cands.dedup();
  cands.iter().take(8).any(|d| {
    // every score this document was ever reported with: unpaged result + all pages of the walk
    let all_pages: Vec<HitSig> = w.pages.iter().flat_map(paging::hit_sigs).collect();
    let seen: Vec<u32> = full.iter().chain(all_pages.iter()).filter(|h| &h.0 == d).map(|h| h.1).collect();
    doc_score_varies(reader, base, big, d, &seen)
  })
}

/// Some id carries score bits 1..8 ULPs away from its bits in the reference list.
fn has_ulp_jitter(reference: &[HitSig], got: &[HitSig]) -> bool {
  let m: std::collections::HashMap<&String, u32> = reference.iter().map(|h| (&h.0, h.1)).collect();
  got.iter().any(|(id, b)| m.get(id).map(|r| r != b && (*r as i64 - *b as i64).unsigned_abs() <= 8).unwrap_or(false))
}

fn classify_diff(full: &[HitSig], got: &[HitSig]) -> &'static str {
  let full_ids: Vec<&String> = full.iter().map(|h| &h.0).collect();
  let got_ids: Vec<&String> = got.iter().map(|h| &h.0).collect();
  let mut seen = HashSet::new();
  if got_ids.iter().any(|i| !seen.insert(*i)) {
    return "repeated-id";
  }
  let fs: HashSet<&String> = full_ids.iter().copied().collect();
  if got_ids.iter().any(|i| !fs.contains(*i)) {
    return "extra-id";
  }
  if fs.iter().any(|i| !seen.contains(*i)) {
    return "skipped-id";
  }
  if full_ids != got_ids {
    return "order";
  }
  let ulps = full.iter().zip(got.iter()).map(|(a, b)| (a.1 as i64 - b.1 as i64).unsigned_abs()).max().unwrap_or(0);
  if ulps <= 8 {
    "score-ulps"
  } else {
    "score-bits"
  }
}

fn main() {
  let args: Vec<String> = std::env::args().skip(1).collect();
  let mut ctx = Ctx::from_args("C11", "exploration", &args);
  ctx.rule = "per case one in-memory index (8-40 docs quick / 8-60 thorough, drawn from 2-7 distinct body texts and tiny value domains so that scores and sort values tie; 1-4 commits with upserts and deletes => several segments with tombstones; multi-valued, missing and long-decimal sort values). Per index 12-20 walks: random query (match_all/term/query string/bool) x optional filter x sort plan of 0-3 keys (_score/i64/f64/keyword, asc/desc/default) x bm25/wand/bmw(+block size) x page size 1-7. Each walk is compared with the single request with limit > #docs on the same reader (ids, order, score bits), every page's total_hits_estimate is compared with the true match count (= hits of the unpaged bm25 request, cross-checked against an independent evaluator of query+filter on the original JSON), then collected cursors are replayed under 3 other sort plans and after a commit that adds a segment / a compaction of >=2 segments / a delete-only commit. evaluations = walk comparisons + judged cursor replays. A walk is non-trivial (counted once by hash of corpus+request+page size) when it has >= 2 pages; counters report how many walks had a tie (equal primary sort value) straddling a page boundary, multi-segment indexes, tombstones, filters.".into();
  ctx.assumptions = vec![
    "the true match count is the hit count of the unpaged execution=bm25 request; when the independent evaluator (simple queries/filters only) disagrees with it the walk's totals are not judged (matching semantics belong to C07/C08)".into(),
    "total_hits_estimate is required to be exact only for execution=bm25 (the documented full evaluation); for wand/bmw only `<= true count` is judged".into(),
    "two sort plans are 'different' when their resolved (field, order) lists differ; [] == [_score desc] == [{field:_score}] are the same plan and not replayed against each other".into(),
    "after a delete-only commit a replayed cursor may be rejected or must return exactly the next page of the new result list after the cursor document (ids exact, scores within 8 ULPs - bitwise score equality is judged by the walk comparison); if the cursor document itself was deleted and the cursor is still accepted the case is not judged".into(),
    "compaction of a single-segment index is a documented no-op and is not expected to invalidate cursors".into(),
    "cursors of another index (same generation number) are out of scope".into(),
  ];
  let quick = ctx.quick();
  let n = ctx.n(1000, 160_000);
  ctx.run_cases("walks", n, |rng: &mut Rng, l: &mut Local, scratch| {
    let n_docs = if quick { rng.urange(8, 40) } else { rng.urange(8, 60) };
    let corpus = paging::gen_corpus(rng, n_docs, 4);
    let dir = scratch.join("i");
    let index = match paging::build_index(&dir, &corpus) {
      Ok(i) => i,
      Err(e) => {
        l.inconclusive(format!("index build failed: {e:#}"));
        return;
      }
    };
    // "old writer" mode: a long-lived writer handle is created now; somebody else then changes the
    // manifest (compaction, or another handle's commit) before the cursors are issued; later that OLD
    // handle commits. The index generation the cursors are bound to must still move on.
    let mut old_writer = if rng.chance(0.4) { index.writer().ok() } else { None };
    let extra_docs = 0usize;
    if old_writer.is_some() {
      let segs = index.reader().map(|r| r.manifest.segments.len()).unwrap_or(0);
      let intervening: anyhow::Result<()> = if segs >= 2 && rng.chance(0.6) {
        l.count("old_writer_mode[compaction-in-between]", 1);
        index.compact()
      } else {
        // content-neutral for the model: another handle re-adds one live document unchanged
        l.count("old_writer_mode[other-handle-commit-in-between]", 1);
        let lv = corpus.live();
        match lv.values().nth(rng.usize(lv.len().max(1))) {
          Some(d) => paging::apply_commit(&index, &[paging::Op::Add(d.clone())]),
          None => paging::apply_commit(&index, &[]),
        }
      };
      if let Err(e) = intervening {
        l.inconclusive(format!("intervening change failed: {e:#}"));
        return;
      }
    }
    let reader = match index.reader() {
      Ok(r) => r,
      Err(e) => {
        l.inconclusive(format!("reader failed: {e:#}"));
        return;
      }
    };
    let live = corpus.live();
    let n_segments = reader.manifest.segments.len();
    let tombstones: usize = reader.manifest.segments.iter().map(|s| s.deleted_docs.len()).sum();
    l.count("indexes", 1);
    if n_segments > 1 {
      l.count("indexes_multi_segment", 1);
    }
    if tombstones > 0 {
      l.count("indexes_with_tombstones", 1);
    }
    let corpus_fp = vcore::ctx::fp(&corpus.to_json().to_string());
    let big = live.len() + extra_docs + 10;
    let n_walks = if quick { 12 } else { 20 };
    let mut recs: Vec<WalkRec> = Vec::new();
    for _ in 0..n_walks {
      let q: Q = paging::gen_query(rng);
      let filter: Option<F> = if rng.chance(0.45) { Some(paging::gen_filter(rng)) } else { None };
      let sort = paging::gen_sort(rng);
      let exec = paging::gen_exec(rng);
      let page = rng.urange(1, 7);
      let mut base = json!({"query": q.to_json(), "sort": sort, "return_stored": false});
      if let Some(f) = filter.as_ref() {
        base["filter"] = f.to_json();
      }
      paging::apply_exec(&mut base, &exec);
      let case = |extra: Value| -> Value {
        json!({"corpus": corpus.to_json(), "request": base, "page_size": page, "segments": n_segments, "detail": extra})
      };
      let ck = cursor_kind(&sort);
      // --- reference: one request whose limit covers all matches
      let mut full_req = base.clone();
      full_req["limit"] = json!(big);
      let full = match paging::call(&reader, &full_req) {
        Call::Ok(r) => r,
        Call::Err(e) => {
          l.inconclusive(format!("unpaged request rejected: {e}"));
          continue;
        }
        Call::Panic(p) => {
          l.fail(format!("panic-unpaged:{}", vcore::ctx::panic_site(&p)), format!("unpaged request panicked: {p}"), case(json!(null)));
          continue;
        }
      };
      let full_sigs = paging::hit_sigs(&full);
      // --- true match count: exhaustive execution, cross-checked independently
      let mut ex_req = full_req.clone();
      paging::apply_exec(&mut ex_req, &("bm25".to_string(), None));
      let truth: Option<u64> = match paging::call(&reader, &ex_req) {
        Call::Ok(r) if r.next_cursor.is_none() => {
          let engine_count = r.hits.len() as u64;
          let indep: Option<u64> = {
            let mut c = 0u64;
            let mut known = true;
            for d in live.values() {
              match q.eval(d) {
                Some(m) => {
                  if m && filter.as_ref().map(|f| f.eval(d)).unwrap_or(true) {
                    c += 1;
                  }
                }
                None => known = false,
              }
            }
            if known {
              Some(c)
            } else {
              None
            }
          };
          match indep {
            Some(c) if c != engine_count => {
              l.inconclusive(format!("independent match count {c} != unpaged bm25 hit count {engine_count} (matching semantics: C07/C08) for {}", paging::short(&base)));
              None
            }
            Some(_) => {
              l.count("true_count_cross_checked", 1);
              Some(engine_count)
            }
            None => Some(engine_count),
          }
        }
        _ => None,
      };
      l.eval();
      if full.next_cursor.is_some() {
        l.fail(format!("unpaged-request-has-next-cursor:{ck}"), "request with limit > #docs still returned next_cursor", case(json!({"hits": full.hits.len()})));
      }
      let judge_total = |l: &mut Local, total: u64, where_: &str, pageno: usize| {
        if let Some(t) = truth {
          if total > t {
            l.fail(
              format!("total-exceeds-true-count:{ck}:{}", if pageno == 0 { "first-page" } else { "cursor-page" }),
              format!("total_hits_estimate {total} > true match count {t} ({where_})"),
              case(json!({"total": total, "true": t, "page": pageno})),
            );
          } else if exec.0 == "bm25" && total != t {
            l.fail(
              format!("total-not-exact-under-bm25:{ck}:{}", if pageno == 0 { "first-page" } else { "cursor-page" }),
              format!("execution=bm25 but total_hits_estimate {total} != true match count {t} ({where_})"),
              case(json!({"total": total, "true": t, "page": pageno})),
            );
          }
        }
      };
      judge_total(l, full.total_hits_estimate, "unpaged", 0);
      // --- the walk
      let cap = big / page + 4;
      let w = paging::walk(&reader, &base, page, cap);
      let mut got: Vec<HitSig> = Vec::new();
      for (i, p) in w.pages.iter().enumerate() {
        if p.hits.len() > page {
          l.fail("page-longer-than-limit", format!("page {i} has {} hits for limit {page}", p.hits.len()), case(json!({"page": i})));
        }
        got.extend(paging::hit_sigs(p));
        // a page's total is judged while the walk so far is a prefix of the unpaged result; once the walk
        // itself deviates (reported below) the returned-count inside the cursor is already wrong
        let prefix_ok = got.len() <= full_sigs.len() && got.iter().zip(full_sigs.iter()).all(|(a, b)| a.0 == b.0);
        if prefix_ok {
          judge_total(l, p.total_hits_estimate, "walk page", i);
        } else {
          l.count("page_totals_not_judged_after_walk_deviation", 1);
        }
      }
      l.count("walks", 1);
      l.count("pages", w.pages.len() as u64);
      l.count(&format!("walks[{}]", exec.0), 1);
      l.count(&format!("walks[{ck}]"), 1);
      l.count(&format!("walks[sort_keys={}]", sort.len()), 1);
      if filter.is_some() {
        l.count("walks_with_filter", 1);
      }
      if truth.is_none() {
        l.count("walks_totals_not_judged", 1);
      }
      if let Some(stop) = w.stopped.as_ref() {
        let sig = if stop.starts_with("panic") {
          format!("walk-panic:{}", vcore::ctx::panic_site(stop.trim_start_matches("panic: ")))
        } else if stop == "page-cap" {
          format!("walk-does-not-terminate:{ck}")
        } else {
          // root cause known so far: an f64 sort value of the document the cursor points at does not
          // survive the decimal text round trip (serde_json without float_roundtrip) inside the cursor
          let last_doc = w.pages.last().and_then(|p| p.hits.last()).and_then(|h| live.get(&h.doc_id));
          let lossy = last_doc.map(|d| lossy_f64_sort_value(d, &sort)).unwrap_or(false);
          if lossy && stop.contains("stale or invalid cursor") {
            "walk-stopped:sort-cursor:f64-sort-value-does-not-survive-cursor-json-round-trip".to_string()
          } else if stop.contains("stale or invalid cursor")
            && paging::sort_uses_score(&sort)
            && (cursor_doc_score_varies(&reader, &base, big, &w) || cursor_acceptance_depends_on_limit(&reader, &base, big, &w))
          {
            // the cursor stores the score bits of its document, but the engine does not reproduce them:
            // the same document gets scores a few ULPs apart depending on limit / execution
            format!("walk-stopped:cursor-document-score-varies-by-ulps-between-requests:{ck}")
          } else if exec.0 == "bmw" && stop.contains("stale or invalid cursor") && cursor_valid_under_bm25(&reader, &base, page, &w) {
            // the unsound block-max pruning skipped the cursor document itself
            format!("pruned-page-differs-from-exhaustive-page:{}:{ck}", exec.0)
          } else if exec.0 != "bm25" && stop.contains("stale or invalid cursor") && cursor_valid_under_bm25(&reader, &base, page, &w) {
            format!("pruned-execution-loses-cursor-document:{}:{ck}", exec.0)
          } else {
            format!("walk-stopped:{ck}:{}", paging::err_stem(stop.trim_start_matches("error: ")))
          }
        };
        l.fail(sig, format!("walk ended abnormally after {} pages: {stop}", w.pages.len()), case(json!({"pages_done": w.pages.len(), "got": paging::sigs_json(&got), "full": paging::sigs_json(&full_sigs)})));
      } else if got != full_sigs {
        let kind = classify_diff(&full_sigs, &got);
        let sig = if kind == "score-ulps" {
          // same ids and order, scores a few ULPs apart: name the execution class and query shape
          format!(
            "walk-differs-from-unpaged:score-ulps:{}:{ck}:{}",
            if exec.0 == "bm25" { "bm25" } else { "pruned-execution" },
            match q { Q::Str(_) => "multi-field-query-string", Q::Opaque(_) => "opaque-query", _ => "single-field-clauses" }
          )
        } else if exec.0 == "bmw" && pruning_to_blame(&reader, &base, page, &w, &full_sigs) {
          // the same page request answered by exhaustive execution IS the expected slice: the paging
          // logic is right and the block-max pruned top-k of the page request lost/reordered hits (C09 territory)
          format!("pruned-page-differs-from-exhaustive-page:{}:{ck}", exec.0)
        } else if paging::sort_uses_score(&sort) && jitter_at_first_deviation(&reader, &base, big, &w, &full_sigs, page) {
          // a document on (or just before) the first deviating page has a score 1..8 ULPs away from its
          // score in the unpaged result: near-ties are ordered differently by different requests, so
          // pages repeat / skip / reorder hits
          format!("walk-differs-from-unpaged:near-ties-reordered-by-ulp-score-differences-between-requests:{ck}")
        } else if exec.0 != "bm25" && pruning_to_blame(&reader, &base, page, &w, &full_sigs) {
          format!("pruned-page-differs-from-exhaustive-page:{}:{ck}", exec.0)
        } else {
          format!("walk-differs-from-unpaged:{kind}:{ck}")
        };
        l.fail(
          sig,
          format!("concatenated pages differ from the unpaged result ({kind})"),
          case(json!({"got": paging::sigs_json(&got), "full": paging::sigs_json(&full_sigs)})),
        );
      }
      // coverage: ties straddling a page boundary
      if w.pages.len() >= 2 {
        l.count("walks_multi_page", 1);
        l.nontrivial(&(corpus_fp, base.to_string(), page));
        let mut straddle = false;
        let mut i = page;
        while i < full_sigs.len() {
          let a = live.get(&full_sigs[i - 1].0).map(|d| primary_key(d, full_sigs[i - 1].1, &sort));
          let b = live.get(&full_sigs[i].0).map(|d| primary_key(d, full_sigs[i].1, &sort));
          if a.is_some() && a == b {
            straddle = true;
            break;
          }
          i += page;
        }
        if straddle {
          l.count("walks_tie_straddles_page_boundary", 1);
        }
      }
      if l.samples.is_empty() && w.pages.len() >= 3 {
        l.sample(json!({"request": base, "page_size": page, "pages": w.pages.len(), "matches": full_sigs.len(), "docs": live.len(), "segments": n_segments,
          "first_cursor": w.cursors.first()}));
      }
      if w.stopped.is_none() && !w.cursors.is_empty() {
        let cursors = w.cursors.iter().enumerate().map(|(i, c)| (c.clone(), w.pages[i].hits.last().map(|h| h.doc_id.clone()).unwrap_or_default())).collect();
        recs.push(WalkRec { base: base.clone(), page, sort: sort.clone(), cursors });
      }
    }
    // ---------------- cursors under a different sort plan (same reader)
    let mut budget = 30;
    for rec in recs.iter() {
      let mine = paging::resolve_sort(&rec.sort);
      for (cur, _) in rec.cursors.iter().take(2) {
        let mut tried = 0;
        let mut guard = 0;
        while tried < 3 && guard < 12 && budget > 0 {
          guard += 1;
          let other = paging::gen_sort(rng);
          if paging::resolve_sort(&other) == mine {
            continue;
          }
          tried += 1;
          budget -= 1;
          let mut req = rec.base.clone();
          req["sort"] = json!(other);
          req["limit"] = json!(rec.page);
          req["cursor"] = json!(cur);
          l.eval();
          l.count("replays_other_sort", 1);
          match paging::call(&reader, &req) {
            Call::Err(_) => l.count("replays_other_sort_rejected", 1),
            Call::Ok(r) => {
              let from = cursor_kind(&rec.sort);
              let to = cursor_kind(&other);
              l.fail(
                format!("cursor-accepted-under-different-sort:{from}->{to}"),
                "a cursor issued under one sort plan was accepted under another",
                json!({"corpus": corpus.to_json(), "issued_under": rec.base, "replayed_as": req, "returned_hits": paging::sigs_json(&paging::hit_sigs(&r))}),
              );
            }
            Call::Panic(p) => l.fail(
              format!("panic-on-foreign-sort-cursor:{}", vcore::ctx::panic_site(&p)),
              format!("replaying a cursor under another sort plan panicked: {p}"),
              json!({"corpus": corpus.to_json(), "issued_under": rec.base, "replayed_as": req}),
            ),
          }
        }
      }
    }
    // ---------------- cursors after the index changed
    if recs.is_empty() {
      let _ = std::fs::remove_dir_all(&dir);
      return;
    }
    let mut kind = *rng.pick(&["commit-add", "commit-add", "compact", "compact", "delete-only", "delete-only"]);
    if kind == "compact" && n_segments < 2 {
      kind = "commit-add";
    }
    if old_writer.is_some() && rng.chance(0.8) {
      kind = "old-writer-commit";
    }
    let live_ids: Vec<String> = live.keys().cloned().collect();
    let mut deleted: Vec<String> = Vec::new();
    let change: anyhow::Result<()> = match kind {
      "commit-add" => {
        let bodies = vec!["rust search".to_string(), "engine".to_string()];
        let ops: Vec<paging::Op> = (0..rng.urange(1, 3)).map(|i| paging::Op::Add(paging::gen_doc(rng, &format!("new{i}"), &bodies, false))).collect();
        paging::apply_commit(&index, &ops)
      }
      "compact" => index.compact(),
      "old-writer-commit" => (|| -> anyhow::Result<()> {
        let w = old_writer.as_mut().unwrap();
        for i in 0..rng.urange(1, 3) {
          w.add_document(&idx::doc(&paging::gen_doc(rng, &format!("old{i}"), &["rust search".to_string(), "engine".to_string()], false)))?;
        }
        w.commit()?;
        Ok(())
      })(),
      _ => {
        let k = rng.urange(1, 3).min(live_ids.len());
        for i in rng.subset(live_ids.len(), k) {
          deleted.push(live_ids[i].clone());
        }
        paging::apply_commit(&index, &deleted.iter().map(|d| paging::Op::Del(d.clone())).collect::<Vec<_>>())
      }
    };
    if let Err(e) = change {
      l.inconclusive(format!("{kind} failed: {e:#}"));
      let _ = std::fs::remove_dir_all(&dir);
      return;
    }
    let reader2 = match index.reader() {
      Ok(r) => r,
      Err(e) => {
        l.inconclusive(format!("reader after {kind} failed: {e:#}"));
        let _ = std::fs::remove_dir_all(&dir);
        return;
      }
    };
    l.count(&format!("index_changes[{kind}]"), 1);
    let mut budget = 40;
    for rec in recs.iter() {
      let mut new_full: Option<Vec<HitSig>> = None;
      for (cur, last_id) in rec.cursors.iter() {
        if budget == 0 {
          break;
        }
        budget -= 1;
        let mut req = rec.base.clone();
        req["limit"] = json!(rec.page);
        req["cursor"] = json!(cur);
        let out = paging::call(&reader2, &req);
        let case = || json!({"corpus": corpus.to_json(), "change": kind, "deleted": deleted, "request": req, "cursor_issued_after_doc": last_id, "segments_before": n_segments});
        match (kind, out) {
          (_, Call::Panic(p)) => {
            l.eval();
            l.fail(format!("panic-on-stale-cursor:{}", vcore::ctx::panic_site(&p)), format!("replaying a cursor after {kind} panicked: {p}"), case());
          }
          ("delete-only", Call::Err(_)) => {
            l.eval();
            l.count("replays_after_delete_only_rejected", 1);
          }
          ("delete-only", Call::Ok(r)) => {
            if new_full.is_none() {
              let mut fr = rec.base.clone();
              fr["limit"] = json!(big);
              if let Call::Ok(f) = paging::call(&reader2, &fr) {
                new_full = Some(paging::hit_sigs(&f));
              }
            }
            let Some(nf) = new_full.as_ref() else {
              l.inconclusive("unpaged request failed after delete-only commit");
              continue;
            };
            match nf.iter().position(|h| &h.0 == last_id) {
              None => l.inconclusive("cursor of a deleted document accepted after delete-only commit (not judged)"),
              Some(pos) => {
                l.eval();
                l.count("replays_after_delete_only_continued", 1);
                let exp: Vec<HitSig> = nf.iter().skip(pos + 1).take(rec.page).cloned().collect();
                let got = paging::hit_sigs(&r);
                let same_ids = got.iter().map(|h| &h.0).collect::<Vec<_>>() == exp.iter().map(|h| &h.0).collect::<Vec<_>>();
                let close = same_ids && got.iter().zip(exp.iter()).all(|(a, b)| (a.1 as i64 - b.1 as i64).unsigned_abs() <= 8);
                if !close {
                  // same request under exhaustive execution: is the pruned top-k of this page to blame?
                  let ex = rec.base["execution"].as_str().unwrap_or("wand").to_string();
                  let mut breq = req.clone();
                  paging::apply_exec(&mut breq, &("bm25".to_string(), None));
                  let pruned = ex != "bm25"
                    && match paging::call(&reader2, &breq) {
                      Call::Ok(b) => b.hits.iter().map(|h| &h.doc_id).collect::<Vec<_>>() == exp.iter().map(|h| &h.0).collect::<Vec<_>>(),
                      _ => false,
                    };
                  l.fail(
                    if ex == "bmw" && pruned {
                      format!("pruned-page-differs-from-exhaustive-page:{ex}:{}", cursor_kind(&rec.sort))
                    } else if has_ulp_jitter(nf, &got) {
                      format!("walk-differs-from-unpaged:near-ties-reordered-by-ulp-score-differences-between-requests:{}", cursor_kind(&rec.sort))
                    } else if pruned { format!("pruned-page-differs-from-exhaustive-page:{ex}:{}", cursor_kind(&rec.sort)) } else { format!("delete-only-commit:wrong-tail:{}", cursor_kind(&rec.sort)) },
                    "cursor accepted after a delete-only commit but the page is not the next page of the new result list",
                    json!({"case": case(), "got": paging::sigs_json(&got), "expected": paging::sigs_json(&exp)}),
                  );
                }
              }
            }
          }
          (_, Call::Err(_)) => {
            l.eval();
            l.count(&format!("replays_after_{kind}_rejected"), 1);
          }
          (_, Call::Ok(r)) => {
            l.eval();
            l.fail(
              format!("stale-cursor-accepted-after:{kind}:{}", cursor_kind(&rec.sort)),
              format!("a cursor issued before a {kind} was accepted afterwards"),
              json!({"case": case(), "returned_hits": paging::sigs_json(&paging::hit_sigs(&r))}),
            );
          }
        }
      }
    }
    // a cursor from the newer generation presented to the older reader (commit-add only: no files removed)
    if kind == "commit-add" {
      if let Some(rec) = recs.first() {
        let w = paging::walk(&reader2, &rec.base, rec.page, 3);
        for cur in w.cursors.iter().take(2) {
          let mut req = rec.base.clone();
          req["limit"] = json!(rec.page);
          req["cursor"] = json!(cur);
          l.eval();
          match paging::call(&reader, &req) {
            Call::Err(_) => l.count("replays_newer_cursor_on_older_reader_rejected", 1),
            Call::Ok(_) => l.fail(
              format!("newer-generation-cursor-accepted-by-older-reader:{}", cursor_kind(&rec.sort)),
              "a cursor issued by a reader of a newer generation was accepted by an older reader",
              json!({"corpus": corpus.to_json(), "request": req}),
            ),
            Call::Panic(p) => l.fail(format!("panic-on-stale-cursor:{}", vcore::ctx::panic_site(&p)), format!("panic: {p}"), json!({"corpus": corpus.to_json(), "request": req})),
          }
        }
      }
    }
    let _ = std::fs::remove_dir_all(&dir);
  });
  std::process::exit(ctx.finish());
}
