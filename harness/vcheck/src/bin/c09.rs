//! C09 — Pruned top-k equals exhaustive top-k (differential: wand / bmw(block) vs bm25).
#[path = "../shared/scoring.rs"]
mod scoring;

use scoring::{CorpusCfg, QCfg};
use serde_json::{json, Value};
use vcore::{gen, idx, Ctx, Local, Rng};

const REL: f64 = 2e-5;

struct Run {
  hits: Vec<(String, f32)>,
  scored: usize,
  advanced: usize,
  next_cursor: Option<String>,
}

fn run(reader: &searchlite_core::api::IndexReader, req: &Value) -> Result<Run, String> {
  match vcore::ctx::catch(|| idx::search(reader, req.clone())) {
    Ok(Ok(r)) => Ok(Run {
      hits: r.hits.iter().map(|h| (h.doc_id.clone(), h.score)).collect(),
      scored: r.profile.as_ref().map(|p| p.execution.scored_docs).unwrap_or(0),
      advanced: r.profile.as_ref().map(|p| p.execution.postings_advanced).unwrap_or(0),
      next_cursor: r.next_cursor.clone(),
    }),
    Ok(Err(e)) => Err(format!("error: {e:#}")),
    Err(p) => Err(format!("panic: {p}")),
  }
}

fn main() {
  let args: Vec<String> = std::env::args().skip(1).collect();
  if args.first().map(|s| s.as_str()) == Some("probe") {
    std::process::exit(scoring::probe_main(&args[1]));
  }
  let mut ctx = Ctx::from_args("C09", "exploration", &args);
  ctx.rule = "per case one corpus of 50-3000 short documents over a Zipfian 40-word vocabulary in 1-3 segments (posting lists of the frequent words span many 128-entry blocks; 25% of the corpora with upserts/deletes; k1/b randomised) and 30-40 random scored requests (term, query_string, multi_match incl. cross_fields, prefix, dis_max+tie_breaker, bool, boosts 0-10, constant_score, function_score, rank_feature, script_score; limit 1..50, for 40% of the requests placed at/just after the largest relative score drop of the exhaustive list, where threshold/upper-bound off-by-ones show; optional root filter). For every request the exhaustive `bm25` result with limit >= corpus size is the reference; `wand`, `bmw` (default block) and `bmw` with bmw_block_size 1..300 are run with the real limit and must return an admissible top-k of the reference (position-wise identical, or differing only inside groups of scores equal within rel 2e-5; bit-equal scores in (segment, doc) order; when no score leaf can sum >= 3 postings, scores are bit-reproducible and the list must equal the reference prefix exactly; a pruned run must also still report next_cursor when more hits exist); one strategy per request additionally fetches page 2 through the cursor and page1+page2 is compared with the reference top-2k (documents whose score ties with the cursor boundary within the tolerance are left out of that comparison). evaluations = strategy-vs-reference comparisons. A request is non-trivial (counted once by hash of corpus+request) when the reference has more matches than the limit AND the `profile` counters show that at least one strategy really skipped documents (scored_docs below the exhaustive run's).".into();
  ctx.assumptions = vec![
    "float summation order inside a score leaf is unspecified, hence the tolerance-equal groups; anything beyond rel 2e-5 is a divergence".into(),
    "profile:true is set on every run (reference and strategies alike) to read the pruning counters; that profile does not change results is C20's property".into(),
    "cursor completeness at exact score ties is C11's property: page-2 comparison ignores documents tied with the page boundary".into(),
  ];
  let n = ctx.n(60, 10_000);
  let quick = ctx.quick();
  ctx.run_cases("idx", n, |rng: &mut Rng, l: &mut Local, scratch| {
    let mut vocab: Vec<String> = gen::WORDS.iter().map(|s| s.to_string()).collect();
    vocab.extend(gen::INFLECTED.iter().map(|s| s.to_string()));
    let r = rng.below(10);
    let n_docs = if r < 6 {
      rng.urange(50, 400)
    } else if r < 9 {
      rng.urange(400, 1500)
    } else {
      rng.urange(1500, 3000)
    };
    let cfg = CorpusCfg {
      n_docs,
      vocab: vocab.clone(),
      max_commits: 3,
      dirty: rng.chance(0.25),
      body_analyzer: if rng.chance(0.5) { "en".into() } else { "default".into() },
      title_missing_p: if rng.chance(0.5) { 0.0 } else { 0.1 },
      title_max: 3,
      body_max: rng.urange(3, 9),
      multi_text_p: 0.05,
    };
    let mut corpus = scoring::gen_corpus(rng, &cfg);
    if !cfg.dirty && rng.chance(0.4) {
      // length-skewed family: long documents, a few very short ones at the end of each commit
      scoring::add_length_skew(rng, &mut corpus, &cfg.vocab);
      l.count("corpora_length_skewed", 1);
    }
    let dir = scratch.join("i");
    let built = match vcore::ctx::catch(|| scoring::build(&dir, &corpus)) {
      Ok(Ok(b)) => b,
      Ok(Err(e)) => {
        l.inconclusive(format!("index build/model: {e}"));
        return;
      }
      Err(p) => {
        l.inconclusive(format!("index build panicked: {p}"));
        return;
      }
    };
    l.count("corpora", 1);
    l.count("corpus_docs", built.total_docs as u64);
    if !built.clean {
      l.count("corpora_with_deletions", 1);
    }
    let corpus_fp = vcore::ctx::fp(&format!("{:?}", corpus.batches));
    let qcfg = QCfg { vocab, depth: 3, custom: true, cross_fields: true, prefix: true, kw_terms: true, zero_boost: true, fancy_terms: true, min_score: true };
    let nreq = if quick { 30 } else { 40 };
    for ri in 0..nreq {
      let mut qc = qcfg.clone();
      qc.custom = rng.chance(0.5);
      qc.depth = rng.urange(0, 3);
      let query = scoring::gen_query(rng, &qc);
      let custom = scoring::has_custom_nodes(&query);
      // bit-exact tie rules only where scores are reproducible bit for bit
      let strict = scoring::plan(&built, &query, None, scoring::Quirks::default()).map(|p| scoring::bit_reproducible(&p)).unwrap_or(false);
      if strict {
        l.count("requests_with_bit_reproducible_scores(strict tie rule)", 1);
      }
      let mut k = if rng.chance(0.3) { rng.urange(1, 5) } else { rng.urange(1, 50) };
      let at_cliff = rng.chance(0.4);
      let cliff_off = rng.urange(0, 2);
      let mut base = json!({"query": query, "profile": true});
      if rng.chance(0.1) {
        base["filter"] = scoring::gen_filter(rng, 1);
      }
      let mut refreq = base.clone();
      refreq["execution"] = json!("bm25");
      refreq["limit"] = json!(built.total_docs + 10);
      let full = match run(&built.reader, &refreq) {
        Ok(r) => r,
        Err(e) => {
          l.count("reference_runs_failed(not judged: C16)", 1);
          let _ = e;
          continue;
        }
      };
      l.count("requests", 1);
      if full.hits.is_empty() {
        l.count("requests_without_matches", 1);
        continue;
      }
      if at_cliff && full.hits.len() > 2 {
        // put the cut next to the largest relative score drop among the first hits: that is where
        // "documents with the strong terms" end, i.e. where threshold/upper-bound off-by-ones show
        let upto = full.hits.len().min(51) - 1;
        let mut best = (0usize, 0.0f64);
        for i in 0..upto {
          let (a, b) = (full.hits[i].1 as f64, full.hits[i + 1].1 as f64);
          if a > 0.0 {
            let drop = (a - b) / a;
            if drop > best.1 {
              best = (i + 1, drop);
            }
          }
        }
        if best.0 > 0 {
          k = (best.0 + cliff_off).clamp(1, 50);
          l.count("requests_with_limit_at_score_cliff", 1);
        }
      }
      let mut strategies: Vec<(String, Value)> = vec![("wand".into(), json!({"execution": "wand"})), ("bmw".into(), json!({"execution": "bmw"}))];
      let nsizes = if quick { 1 } else { 4 };
      for _ in 0..nsizes {
        let bs = match rng.below(4) {
          0 => rng.urange(1, 4),
          1 => rng.urange(5, 40),
          _ => rng.urange(41, 300),
        };
        strategies.push((format!("bmw[{bs}]"), json!({"execution": "bmw", "bmw_block_size": bs})));
      }
      let page2_for = rng.usize(strategies.len());
      let mut any_pruned = false;
      for (si, (name, extra)) in strategies.iter().enumerate() {
        let exec_class = if name.starts_with("bmw") { "bmw" } else { "wand" };
        let mut req = base.clone();
        req["limit"] = json!(k);
        for (kk, vv) in extra.as_object().unwrap() {
          req[kk] = vv.clone();
        }
        let got = match run(&built.reader, &req) {
          Ok(r) => r,
          Err(e) => {
            l.fail(
              format!("strategy-run-fails-where-exhaustive-succeeds:{exec_class}"),
              format!("{name} failed ({e}) on a request the exhaustive strategy answers"),
              json!({"request": req, "error": e}),
            );
            continue;
          }
        };
        l.eval();
        l.count(&format!("runs[{exec_class}]"), 1);
        let pruned = got.scored < full.scored;
        if pruned {
          any_pruned = true;
          l.count(&format!("runs_that_pruned[{exec_class}]"), 1);
          l.count(&format!("docs_skipped_by_pruning[{exec_class}]"), (full.scored - got.scored) as u64);
          if custom {
            l.count("runs_that_pruned_with_score_adjusting_nodes", 1);
          }
        }
        if full.advanced > got.advanced {
          l.count(&format!("postings_not_advanced_vs_exhaustive[{exec_class}]"), (full.advanced - got.advanced) as u64);
        }
        let page2_check = |page1: &[(String, f32)], p2: &[(String, f32)]| -> Result<(), scoring::TopkDiff> {
          let boundary = page1.last().map(|h| h.1 as f64).unwrap_or(0.0);
          let fscore: std::collections::HashMap<&str, f64> = full.hits.iter().map(|(id, s)| (id.as_str(), *s as f64)).collect();
          let tied = |id: &str| fscore.get(id).map(|s| scoring::approx(*s, boundary, REL)).unwrap_or(false);
          let full2: Vec<(String, f32)> = full.hits.iter().filter(|(id, _)| !tied(id)).cloned().collect();
          let concat: Vec<(String, f32)> = page1.iter().chain(p2.iter()).filter(|(id, _)| !tied(id)).cloned().collect();
          // page 2 must be full unless the result set is exhausted
          let expect_p2 = k.min(full.hits.len().saturating_sub(k));
          let n_tied = full.hits.iter().filter(|(id, _)| tied(id)).count();
          if p2.len() != expect_p2 && n_tied <= 1 {
            return Err(scoring::TopkDiff { kind: "page-2-length".into(), detail: json!({"got": p2.len(), "expected": expect_p2}), only_omits_better: p2.len() < expect_p2, only_omits: p2.len() < expect_p2 });
          }
          scoring::check_topk(&full2, &concat, concat.len(), REL, &built.loc, strict)
        };
        let report = |l: &mut Local, d: scoring::TopkDiff, what: &str, req: &Value, got_hits: &[(String, f32)], wand_ok: Option<bool>| {
          let sig = if exec_class == "bmw" && d.only_omits && wand_ok == Some(true) {
            // qualifying documents are missing and the same request under `wand` is admissible:
            // specific to the block-max bounds
            "bmw-block-local-bounds-skip-or-end-the-scan:omits-qualifying-documents".to_string()
          } else if custom && d.only_omits {
            // every returned hit is a correctly scored member of the exhaustive list, in order; documents
            // with a higher (or, at the cut, tied but earlier) adjusted score were never evaluated
            "pruning-ignores-score-adjustment:omits-qualifying-documents".to_string()
          } else {
            format!("{}:{exec_class}:{}:{}", if custom { "score-adjusting-tree" } else { "plain-bm25-tree" }, what, d.kind)
          };
          l.fail(
            sig,
            format!("{name} {what} (limit {k}) is not an admissible top-k of the exhaustive result: {}", d.kind),
            json!({"request": req, "strategy": name, "k1": built.k1, "b": built.b, "segments": built.segs.iter().map(|s| s.docs.len()).collect::<Vec<_>>(),
              "diff": d.detail, "returned": got_hits.iter().take(12).collect::<Vec<_>>(), "exhaustive_top": full.hits.iter().take(12).collect::<Vec<_>>(),
              "exhaustive_matches": full.hits.len(), "scored_docs": {"exhaustive": full.scored, "strategy": got.scored}, "same_request_under_wand_admissible": wand_ok}),
          );
        };
        // the same request under plain WAND (used only to attribute a bmw divergence)
        let as_wand = |r: &Value| -> Value {
          let mut w = r.clone();
          w["execution"] = json!("wand");
          if let Some(o) = w.as_object_mut() {
            o.remove("bmw_block_size");
          }
          w
        };
        let mut page1_ok = true;
        if let Err(d) = scoring::check_topk(&full.hits, &got.hits, k, REL, &built.loc, strict) {
          page1_ok = false;
          let wand_ok = if exec_class == "bmw" && d.only_omits {
            run(&built.reader, &as_wand(&req)).ok().map(|w| scoring::check_topk(&full.hits, &w.hits, k, REL, &built.loc, strict).is_ok())
          } else {
            None
          };
          report(l, d, "page-1", &req, &got.hits, wand_ok);
        }
        // ---- the pruned run must still know that more hits exist ------------------------------
        if page1_ok && full.hits.len() > k && got.next_cursor.is_none() {
          l.count("next_cursor_missing", 1);
          let wand_has = if exec_class == "bmw" { run(&built.reader, &as_wand(&req)).ok().map(|w| w.next_cursor.is_some()) } else { None };
          let d = scoring::TopkDiff {
            kind: "next-cursor-missing-although-more-hits-exist".into(),
            detail: json!({"returned": got.hits.len(), "exhaustive_matches": full.hits.len()}),
            only_omits_better: false,
            only_omits: true, // the (limit+1)-th candidate was never found: an omission
          };
          report(l, d, "page-1", &req, &got.hits, wand_has);
        }
        // ---- page 2 through the cursor ------------------------------------------------------
        if si == page2_for && page1_ok {
          if let Some(cur) = got.next_cursor.as_ref() {
            let mut req2 = req.clone();
            req2["cursor"] = json!(cur);
            match run(&built.reader, &req2) {
              Err(e) => {
                l.count("page2_runs_failed(not judged: C11/C16)", 1);
                let _ = e;
              }
              Ok(p2) => {
                l.eval();
                l.count("page2_checks", 1);
                if let Err(d) = page2_check(&got.hits, &p2.hits) {
                  // attribute with WAND's own two pages (a cursor of one strategy may be stale for another
                  // when scores differ in the last bits)
                  let wand_ok = if exec_class == "bmw" && d.only_omits {
                    run(&built.reader, &as_wand(&req)).ok().and_then(|w1| {
                      if scoring::check_topk(&full.hits, &w1.hits, k, REL, &built.loc, strict).is_err() {
                        return Some(false);
                      }
                      let cur = w1.next_cursor.clone()?;
                      let mut wr2 = as_wand(&req);
                      wr2["cursor"] = json!(cur);
                      run(&built.reader, &wr2).ok().map(|w2| page2_check(&w1.hits, &w2.hits).is_ok())
                    })
                  } else {
                    None
                  };
                  let shown: Vec<(String, f32)> = got.hits.iter().chain(p2.hits.iter()).cloned().collect();
                  report(l, d, "page-1+2", &req2, &shown, wand_ok);
                }
              }
            }
          }
        }
      }
      if any_pruned && full.hits.len() > k {
        l.nontrivial(&(corpus_fp, base.to_string(), k));
      }
      if ri == 0 && l.samples.len() < 3 {
        l.sample(json!({"request": base, "limit": k, "exhaustive_matches": full.hits.len(), "exhaustive_scored_docs": full.scored, "docs": built.total_docs,
          "segments": built.segs.len(), "pruned_by_some_strategy": any_pruned}));
      }
    }
    drop(built);
    let _ = std::fs::remove_dir_all(&dir);
  });
  std::process::exit(ctx.finish());
}
