//! C08 — Filters follow the documented filter semantics.
//!
//! Oracle: a tree-walk over the ORIGINAL JSON documents (never over fast-field columns).
//! Leaf predicates are evaluated in a scope (whole document, or one nested object);
//! `Nested{path,f}` = some object at `path` inside the current scope satisfies `f`;
//! sibling `Nested` clauses with the same path directly under one `And` must be satisfied
//! by ONE shared object; `Or` / `Not` are plain.
//!
//! Engine side: `search(match_all, filter=F)`, `search(bool{must:[match_all],filter:[F]})`
//! and `search(term(body:common), filter=F)` hit-id sets.
//!
//! Classifier: a second, deliberately engine-shaped "defect model" re-enacts the
//! index-time per-parent child renumbering (segment.rs `collect_nested`) and is used ONLY
//! to attribute a mismatch to that root cause; it never decides what is correct.
use serde_json::{json, Map, Value};
use std::cell::Cell;
use std::collections::{BTreeSet, HashMap};
use std::path::Path;
use vcore::{gen, idx, Ctx, Local, Rng};

// ───────────────────────────── schema description ─────────────────────────────

#[derive(Clone, Copy, PartialEq, Eq, Debug, Hash)]
enum K {
  Kw,
  I,
  F,
}

#[derive(Clone, Debug)]
struct Leaf {
  name: String,
  kind: K,
  fast: bool,
  nullable: bool,
  stored: bool,
  indexed: bool,
}

#[derive(Clone, Debug)]
struct Obj {
  name: String,
  leaves: Vec<Leaf>,
  children: Vec<Obj>,
}

#[derive(Clone, Debug)]
struct Sch {
  top: Vec<Leaf>,
  nested: Vec<Obj>,
}

fn leaf(rng: &mut Rng, name: &str, kind: K, fast: bool) -> Leaf {
  Leaf {
    name: name.into(),
    kind,
    fast,
    nullable: rng.chance(0.85),
    stored: rng.chance(0.5),
    indexed: rng.chance(0.7),
  }
}

const NESTED_LEAF_POOL: &[(&str, K)] = &[("who", K::Kw), ("t", K::Kw), ("k", K::I), ("s", K::F)];

fn gen_obj_schema(rng: &mut Rng, name: &str, level: usize, child_names: &[&str]) -> Obj {
  let n = rng.urange(1, 3);
  let picks = rng.subset(NESTED_LEAF_POOL.len(), n);
  let mut leaves: Vec<Leaf> = picks
    .into_iter()
    .map(|i| leaf(rng, NESTED_LEAF_POOL[i].0, NESTED_LEAF_POOL[i].1, true))
    .collect();
  if rng.chance(0.2) {
    // a non-fast field: present in documents, never a filter target
    let mut l = leaf(rng, "memo", K::Kw, false);
    l.nullable = true;
    leaves.push(l);
  }
  let mut children = Vec::new();
  if let Some((first, rest)) = child_names.split_first() {
    let p = if level == 1 { 0.85 } else { 0.65 };
    if rng.chance(p) {
      children.push(gen_obj_schema(rng, first, level + 1, rest));
    }
  }
  Obj { name: name.into(), leaves, children }
}

fn gen_schema(rng: &mut Rng) -> Sch {
  let mut top = vec![leaf(rng, "tag", K::Kw, true)];
  if rng.chance(0.5) {
    top.push(leaf(rng, "cat", K::Kw, true));
  }
  if rng.chance(0.3) {
    top.push(leaf(rng, "note", K::Kw, false));
  }
  top.push(leaf(rng, "n", K::I, true));
  top.push(leaf(rng, "x", K::F, true));
  if rng.chance(0.3) {
    let fast = rng.chance(0.7);
    top.push(leaf(rng, "m", K::I, fast));
  }
  let mut nested = vec![gen_obj_schema(rng, "p", 1, &["ch", "g"])];
  if rng.chance(0.6) {
    nested.push(gen_obj_schema(rng, "q", 1, &["r"]));
  }
  Sch { top, nested }
}

fn leaf_json(l: &Leaf, tagged: bool) -> Value {
  let mut m = Map::new();
  match l.kind {
    K::Kw => {
      if tagged {
        m.insert("type".into(), json!("keyword"));
      }
      m.insert("name".into(), json!(l.name));
      m.insert("stored".into(), json!(l.stored));
      m.insert("indexed".into(), json!(l.indexed));
      m.insert("fast".into(), json!(l.fast));
      m.insert("nullable".into(), json!(l.nullable));
    }
    K::I | K::F => {
      if tagged {
        m.insert("type".into(), json!("numeric"));
      }
      m.insert("name".into(), json!(l.name));
      m.insert("i64".into(), json!(l.kind == K::I));
      m.insert("fast".into(), json!(l.fast));
      m.insert("stored".into(), json!(l.stored));
      m.insert("nullable".into(), json!(l.nullable));
    }
  }
  Value::Object(m)
}

fn obj_json(o: &Obj, tagged: bool) -> Value {
  let mut fields: Vec<Value> = o.leaves.iter().map(|l| leaf_json(l, true)).collect();
  for c in o.children.iter() {
    fields.push(obj_json(c, true));
  }
  let mut m = Map::new();
  if tagged {
    m.insert("type".into(), json!("object"));
  }
  m.insert("name".into(), json!(o.name));
  m.insert("fields".into(), Value::Array(fields));
  m.insert("nullable".into(), json!(true));
  Value::Object(m)
}

fn schema_json(s: &Sch) -> Value {
  let kw: Vec<Value> = s.top.iter().filter(|l| l.kind == K::Kw).map(|l| leaf_json(l, false)).collect();
  let num: Vec<Value> = s.top.iter().filter(|l| l.kind != K::Kw).map(|l| leaf_json(l, false)).collect();
  let nested: Vec<Value> = s.nested.iter().map(|o| obj_json(o, false)).collect();
  json!({
    "doc_id_field": "_id",
    "analyzers": [],
    "text_fields": [{"name":"body","analyzer":"default","stored":false,"indexed":true,"nullable":true}],
    "keyword_fields": kw,
    "numeric_fields": num,
    "nested_fields": nested,
  })
}

// ───────────────────────────── document generation ─────────────────────────────

/// Tiny keyword vocabulary. Case variants are generated for the ASCII words only: the
/// documentation says "case-insensitive" without saying which case mapping is meant, so
/// non-ASCII words appear in one fixed spelling.
const BASES: &[&str] = &["red", "green", "blue", "x", "yz", "alpha-1", "new york", "été", "東京"];

fn case_variant(rng: &mut Rng, w: &str) -> String {
  if !w.is_ascii() {
    return w.to_string();
  }
  match rng.below(5) {
    0 | 1 => w.to_string(),
    2 => w.to_ascii_uppercase(),
    3 => {
      let mut c = w.chars();
      match c.next() {
        Some(f) => f.to_ascii_uppercase().to_string() + c.as_str(),
        None => String::new(),
      }
    }
    _ => w
      .chars()
      .map(|c| if rng.chance(0.5) { c.to_ascii_uppercase() } else { c })
      .collect(),
  }
}

fn kw_value(rng: &mut Rng) -> String {
  let w = BASES[rng.zipf(BASES.len())];
  case_variant(rng, w)
}

fn i_value(rng: &mut Rng) -> i64 {
  if rng.chance(0.03) {
    *rng.pick(&[i64::MAX, i64::MIN, i64::MAX - 1])
  } else {
    rng.range(-3, 12)
  }
}

fn f_value(rng: &mut Rng) -> Value {
  let r = rng.below(100);
  if r < 10 {
    json!(rng.range(-2, 4)) // an integer literal in an f64 field
  } else if r < 12 {
    json!(*rng.pick(&[1e300, -1e300]))
  } else {
    json!((rng.range(-16, 32) as f64) / 8.0)
  }
}

fn scalar(rng: &mut Rng, k: K) -> Value {
  match k {
    K::Kw => json!(kw_value(rng)),
    K::I => json!(i_value(rng)),
    K::F => f_value(rng),
  }
}

/// None = key omitted
fn gen_leaf_value(rng: &mut Rng, l: &Leaf, allow_missing: bool) -> Option<Value> {
  let r = rng.below(100);
  if r < 14 && (allow_missing || l.nullable) {
    return None;
  }
  if r < 20 && l.nullable {
    return Some(Value::Null);
  }
  if r < 25 {
    return Some(json!([]));
  }
  if r < 70 {
    return Some(scalar(rng, l.kind));
  }
  let n = rng.urange(1, 3);
  Some(Value::Array((0..n).map(|_| scalar(rng, l.kind)).collect()))
}

fn gen_object(rng: &mut Rng, o: &Obj) -> Value {
  let mut m = Map::new();
  for l in o.leaves.iter() {
    if let Some(v) = gen_leaf_value(rng, l, false) {
      m.insert(l.name.clone(), v);
    }
  }
  for c in o.children.iter() {
    if let Some(v) = gen_nested_value(rng, c) {
      m.insert(c.name.clone(), v);
    }
  }
  Value::Object(m)
}

fn gen_nested_value(rng: &mut Rng, o: &Obj) -> Option<Value> {
  let r = rng.below(100);
  if r < 12 {
    None
  } else if r < 18 {
    Some(Value::Null)
  } else if r < 24 {
    Some(json!([]))
  } else if r < 38 {
    Some(gen_object(rng, o)) // a single object, not wrapped in an array
  } else {
    let n = rng.urange(1, 3);
    Some(Value::Array((0..n).map(|_| gen_object(rng, o)).collect()))
  }
}

fn gen_doc(rng: &mut Rng, s: &Sch, id: usize) -> Value {
  let mut m = Map::new();
  m.insert("_id".into(), json!(format!("d{id}")));
  m.insert("body".into(), json!(format!("common {}", gen::sentence(rng, 0, 3))));
  for l in s.top.iter() {
    if let Some(v) = gen_leaf_value(rng, l, true) {
      m.insert(l.name.clone(), v);
    }
  }
  for o in s.nested.iter() {
    if let Some(v) = gen_nested_value(rng, o) {
      m.insert(o.name.clone(), v);
    }
  }
  Value::Object(m)
}

// ───────────────────────────── filters ─────────────────────────────

#[derive(Clone, Debug, PartialEq)]
enum Fl {
  Eq(String, String),
  In(String, Vec<String>),
  IR(String, i64, i64),
  FR(String, f64, f64),
  Nested(String, Box<Fl>),
  And(Vec<Fl>),
  Or(Vec<Fl>),
  Not(Box<Fl>),
}

impl Fl {
  fn to_json(&self) -> Value {
    match self {
      Fl::Eq(f, v) => json!({"KeywordEq": {"field": f, "value": v}}),
      Fl::In(f, vs) => json!({"KeywordIn": {"field": f, "values": vs}}),
      Fl::IR(f, a, b) => json!({"I64Range": {"field": f, "min": a, "max": b}}),
      Fl::FR(f, a, b) => json!({"F64Range": {"field": f, "min": a, "max": b}}),
      Fl::Nested(p, c) => json!({"Nested": {"path": p, "filter": c.to_json()}}),
      Fl::And(cs) => json!({"And": cs.iter().map(|c| c.to_json()).collect::<Vec<_>>()}),
      Fl::Or(cs) => json!({"Or": cs.iter().map(|c| c.to_json()).collect::<Vec<_>>()}),
      Fl::Not(c) => json!({"Not": c.to_json()}),
    }
  }
  fn kinds(&self, out: &mut BTreeSet<&'static str>) {
    match self {
      Fl::Eq(..) => {
        out.insert("KeywordEq");
      }
      Fl::In(..) => {
        out.insert("KeywordIn");
      }
      Fl::IR(..) => {
        out.insert("I64Range");
      }
      Fl::FR(..) => {
        out.insert("F64Range");
      }
      Fl::Nested(_, c) => {
        out.insert("Nested");
        c.kinds(out);
      }
      Fl::And(cs) => {
        out.insert("And");
        cs.iter().for_each(|c| c.kinds(out));
      }
      Fl::Or(cs) => {
        out.insert("Or");
        cs.iter().for_each(|c| c.kinds(out));
      }
      Fl::Not(c) => {
        out.insert("Not");
        c.kinds(out);
      }
    }
  }
}

#[derive(Default, Debug)]
struct Feat {
  nested: bool,
  nested_in_nested: bool,
  sibling_same_path: bool,
  not_nested: bool,
  dotted_root_leaf: bool,
  or_nested: bool,
  depth: usize,
}

fn features(f: &Fl, in_nested: bool, depth: usize, ft: &mut Feat) {
  ft.depth = ft.depth.max(depth);
  match f {
    Fl::Eq(field, _) | Fl::In(field, _) | Fl::IR(field, ..) | Fl::FR(field, ..) => {
      if !in_nested && field.contains('.') {
        ft.dotted_root_leaf = true;
      }
    }
    Fl::Nested(_, c) => {
      ft.nested = true;
      if in_nested {
        ft.nested_in_nested = true;
      }
      features(c, true, depth + 1, ft);
    }
    Fl::And(cs) => {
      let mut paths: Vec<&str> = Vec::new();
      for c in cs {
        if let Fl::Nested(p, _) = c {
          if paths.contains(&p.as_str()) {
            ft.sibling_same_path = true;
          }
          paths.push(p);
        }
        features(c, in_nested, depth + 1, ft);
      }
    }
    Fl::Or(cs) => {
      for c in cs {
        if matches!(c, Fl::Nested(..)) {
          ft.or_nested = true;
        }
        features(c, in_nested, depth + 1, ft);
      }
    }
    Fl::Not(c) => {
      if matches!(**c, Fl::Nested(..)) {
        ft.not_nested = true;
      }
      features(c, in_nested, depth + 1, ft);
    }
  }
}

/// What a filter may mention in one scope: fast leaves (as written in the filter) and child objects.
struct ScopeS<'a> {
  leaves: Vec<(String, K)>,
  children: &'a [Obj],
}

fn root_scope(s: &Sch) -> ScopeS<'_> {
  let mut leaves: Vec<(String, K)> = s.top.iter().filter(|l| l.fast).map(|l| (l.name.clone(), l.kind)).collect();
  fn walk(o: &Obj, prefix: &str, out: &mut Vec<(String, K)>) {
    let p = if prefix.is_empty() { o.name.clone() } else { format!("{prefix}.{}", o.name) };
    for l in o.leaves.iter().filter(|l| l.fast) {
      out.push((format!("{p}.{}", l.name), l.kind));
    }
    for c in o.children.iter() {
      walk(c, &p, out);
    }
  }
  for o in s.nested.iter() {
    walk(o, "", &mut leaves);
  }
  ScopeS { leaves, children: &s.nested }
}

fn obj_scope(o: &Obj) -> ScopeS<'_> {
  ScopeS {
    leaves: o.leaves.iter().filter(|l| l.fast).map(|l| (l.name.clone(), l.kind)).collect(),
    children: &o.children,
  }
}

fn gen_leaf_filter(rng: &mut Rng, sc: &ScopeS) -> Fl {
  let (name, kind) = rng.pick(&sc.leaves).clone();
  match kind {
    K::Kw => {
      let val = |rng: &mut Rng| if rng.chance(0.08) { "absent".to_string() } else { kw_value(rng) };
      if rng.chance(0.6) {
        Fl::Eq(name, val(rng))
      } else {
        let n = rng.urange(1, 3);
        Fl::In(name, (0..n).map(|_| val(rng)).collect())
      }
    }
    K::I => {
      let r = rng.below(100);
      if r < 5 {
        Fl::IR(name, i64::MIN, rng.range(-4, 12))
      } else if r < 10 {
        Fl::IR(name, rng.range(-4, 12), i64::MAX)
      } else {
        let min = rng.range(-4, 12);
        Fl::IR(name, min, min + rng.range(-1, 6))
      }
    }
    K::F => {
      let r = rng.below(100);
      if r < 5 {
        Fl::FR(name, -1e300, (rng.range(-18, 32) as f64) / 8.0)
      } else if r < 10 {
        Fl::FR(name, (rng.range(-18, 32) as f64) / 8.0, 1e300)
      } else {
        let min = (rng.range(-18, 32) as f64) / 8.0;
        Fl::FR(name, min, min + (rng.range(-1, 24) as f64) / 8.0)
      }
    }
  }
}

fn gen_filter(rng: &mut Rng, sc: &ScopeS, depth: usize) -> Fl {
  if depth == 0 || sc.leaves.is_empty() && sc.children.is_empty() {
    return gen_leaf_filter(rng, sc);
  }
  let has_children = !sc.children.is_empty();
  let r = rng.below(100);
  if r < 25 || (!has_children && r < 45) {
    return gen_leaf_filter(rng, sc);
  }
  if r < 50 && has_children {
    let c = rng.pick(sc.children);
    return Fl::Nested(c.name.clone(), Box::new(gen_filter(rng, &obj_scope(c), depth - 1)));
  }
  if r < 75 {
    // And; half of the time built around sibling Nested clauses with the same path
    let mut cs: Vec<Fl> = Vec::new();
    if has_children && rng.chance(0.6) {
      let c = rng.pick(sc.children);
      let n = rng.urange(2, 3);
      for _ in 0..n {
        cs.push(Fl::Nested(c.name.clone(), Box::new(gen_filter(rng, &obj_scope(c), depth - 1))));
      }
      if rng.chance(0.4) {
        cs.push(gen_filter(rng, sc, depth - 1));
      }
    } else {
      let n = rng.urange(2, 3);
      for _ in 0..n {
        cs.push(gen_filter(rng, sc, depth - 1));
      }
    }
    // never And directly inside And: whether nested clauses of an inner And join the outer
    // group is not documented, so the generator keeps conjunctions flat
    let mut flat = Vec::new();
    for c in cs {
      match c {
        Fl::And(inner) => flat.extend(inner),
        other => flat.push(other),
      }
    }
    rng.shuffle(&mut flat);
    return Fl::And(flat);
  }
  if r < 88 {
    let n = rng.urange(2, 3);
    return Fl::Or((0..n).map(|_| gen_filter(rng, sc, depth - 1)).collect());
  }
  Fl::Not(Box::new(gen_filter(rng, sc, depth - 1)))
}

// ───────────────────────────── the oracle ─────────────────────────────

struct Ora {
  /// reading of "sibling Nested clauses share one object": when true the inner clauses of a
  /// shared-object group are themselves conjoined like an `And` (so their own same-path
  /// Nested children share an object again); when false they are evaluated one by one.
  merge_inner: bool,
  /// set when a verdict depended on something the documentation does not define
  ambiguous: Cell<bool>,
}

type JMap = Map<String, Value>;

/// Objects found under `key` of one object: array elements that are objects, or the object itself.
fn objects_at<'a>(scope: &'a JMap, key: &str) -> Vec<&'a JMap> {
  match scope.get(key) {
    Some(Value::Array(a)) => a.iter().filter_map(|v| v.as_object()).collect(),
    Some(Value::Object(o)) => vec![o],
    _ => Vec::new(),
  }
}

/// Scalar values reachable from `scope` along a (possibly dotted) path.
fn values_at<'a>(scope: &'a JMap, field: &str) -> Vec<&'a Value> {
  let segs: Vec<&str> = field.split('.').collect();
  let mut cur: Vec<&JMap> = vec![scope];
  for s in &segs[..segs.len() - 1] {
    let mut next = Vec::new();
    for o in cur {
      next.extend(objects_at(o, s));
    }
    cur = next;
  }
  let last = segs[segs.len() - 1];
  let mut out = Vec::new();
  for o in cur {
    match o.get(last) {
      Some(Value::Array(a)) => out.extend(a.iter().filter(|v| v.is_string() || v.is_number())),
      Some(v) if v.is_string() || v.is_number() => out.push(v),
      _ => {}
    }
  }
  out
}

impl Ora {
  fn kw_eq(&self, a: &str, b: &str) -> bool {
    if a == b {
      return true;
    }
    if a.is_ascii() && b.is_ascii() {
      return a.eq_ignore_ascii_case(b);
    }
    // different spellings involving non-ASCII text: equal under some case mapping?
    if a.to_lowercase() == b.to_lowercase() || a.to_uppercase() == b.to_uppercase() {
      self.ambiguous.set(true);
    }
    false
  }

  fn eval(&self, f: &Fl, scope: &JMap) -> bool {
    match f {
      Fl::Eq(field, v) => values_at(scope, field).iter().any(|x| x.as_str().map(|s| self.kw_eq(s, v)).unwrap_or(false)),
      Fl::In(field, vs) => values_at(scope, field)
        .iter()
        .any(|x| x.as_str().map(|s| vs.iter().any(|v| self.kw_eq(s, v))).unwrap_or(false)),
      Fl::IR(field, min, max) => values_at(scope, field)
        .iter()
        .any(|x| x.as_i64().map(|n| n >= *min && n <= *max).unwrap_or(false)),
      Fl::FR(field, min, max) => values_at(scope, field)
        .iter()
        .any(|x| x.as_f64().map(|n| n >= *min && n <= *max).unwrap_or(false)),
      Fl::Nested(path, inner) => objects_at(scope, path).into_iter().any(|o| self.eval(inner, o)),
      Fl::And(cs) => {
        let mut groups: Vec<(&str, Vec<&Fl>)> = Vec::new();
        for c in cs {
          match c {
            Fl::Nested(p, inner) => match groups.iter_mut().find(|(gp, _)| *gp == p.as_str()) {
              Some(g) => g.1.push(inner),
              None => groups.push((p, vec![inner])),
            },
            other => {
              if !self.eval(other, scope) {
                return false;
              }
            }
          }
        }
        for (p, inner) in groups {
          let ok = objects_at(scope, p).into_iter().any(|o| {
            if self.merge_inner && inner.len() > 1 {
              let joined = Fl::And(inner.iter().map(|f| (*f).clone()).collect());
              self.eval(&joined, o)
            } else {
              inner.iter().all(|f| self.eval(f, o))
            }
          });
          if !ok {
            return false;
          }
        }
        true
      }
      Fl::Or(cs) => cs.iter().any(|c| self.eval(c, scope)),
      Fl::Not(c) => !self.eval(c, scope),
    }
  }
}

/// Some(verdict) when every documented reading agrees, None when the case is not judged.
fn expected(f: &Fl, doc: &Value) -> Option<bool> {
  let root = doc.as_object()?;
  let a = Ora { merge_inner: true, ambiguous: Cell::new(false) };
  let b = Ora { merge_inner: false, ambiguous: Cell::new(false) };
  let ra = a.eval(f, root);
  let rb = b.eval(f, root);
  if a.ambiguous.get() || b.ambiguous.get() || ra != rb {
    None
  } else {
    Some(ra)
  }
}

// ───────────────────────────── defect model (classifier only) ─────────────────────────────
// Re-enacts what segment.rs `collect_nested` writes when a child path occurs under several
// parent objects (object count, object index and parent index restart per parent), then
// evaluates the filter over those columns with parent binding. Used only to recognise the
// known root cause; never to decide what the right answer is.

#[derive(Default, Debug)]
struct Cols {
  top_kw: HashMap<String, Vec<String>>,
  top_i: HashMap<String, Vec<i64>>,
  top_f: HashMap<String, Vec<f64>>,
  counts: HashMap<String, usize>,
  parents: HashMap<String, Vec<usize>>,
  nkw: HashMap<String, Vec<Vec<String>>>,
  ni: HashMap<String, Vec<Vec<i64>>>,
  nf: HashMap<String, Vec<Vec<f64>>>,
}

fn strs(v: &Value) -> Vec<String> {
  match v {
    Value::String(s) => vec![s.clone()],
    Value::Array(a) => a.iter().filter_map(|x| x.as_str().map(|s| s.to_string())).collect(),
    _ => vec![],
  }
}
fn i64s(v: &Value) -> Vec<i64> {
  match v {
    Value::Number(n) => n.as_i64().into_iter().collect(),
    Value::Array(a) => a.iter().filter_map(|x| x.as_i64()).collect(),
    _ => vec![],
  }
}
fn f64s(v: &Value) -> Vec<f64> {
  match v {
    Value::Number(n) => n.as_f64().into_iter().collect(),
    Value::Array(a) => a.iter().filter_map(|x| x.as_f64()).collect(),
    _ => vec![],
  }
}

fn put<T: Clone>(m: &mut HashMap<String, Vec<Vec<T>>>, field: &str, count: usize, idx: usize, vals: Vec<T>) {
  if vals.is_empty() {
    return;
  }
  let e = m.entry(field.to_string()).or_insert_with(|| vec![Vec::new(); count]);
  if e.len() < count {
    e.resize(count, Vec::new());
  }
  if idx < e.len() {
    e[idx].extend(vals);
  }
}

impl Cols {
  fn collect(s: &Sch, doc: &JMap) -> Cols {
    let mut c = Cols::default();
    for l in s.top.iter().filter(|l| l.fast) {
      if let Some(v) = doc.get(&l.name) {
        match l.kind {
          K::Kw => {
            c.top_kw.insert(l.name.clone(), strs(v));
          }
          K::I => {
            c.top_i.insert(l.name.clone(), i64s(v));
          }
          K::F => {
            c.top_f.insert(l.name.clone(), f64s(v));
          }
        }
      }
    }
    for o in s.nested.iter() {
      if let Some(v) = doc.get(&o.name) {
        c.nested(o, v, &o.name, None);
      }
    }
    c
  }

  fn nested(&mut self, o: &Obj, v: &Value, prefix: &str, parent: Option<usize>) {
    match v {
      Value::Array(arr) => {
        self.counts.insert(prefix.to_string(), arr.len());
        let e = self.parents.entry(prefix.to_string()).or_insert_with(|| vec![usize::MAX; arr.len()]);
        if let Some(p) = parent {
          if e.len() < arr.len() {
            e.resize(arr.len(), usize::MAX);
          }
          for slot in e.iter_mut().take(arr.len()) {
            *slot = p;
          }
        }
        for (i, x) in arr.iter().enumerate() {
          if let Some(m) = x.as_object() {
            self.object(o, m, prefix, i);
          }
        }
      }
      Value::Object(m) => {
        self.counts.insert(prefix.to_string(), 1);
        self.parents.entry(prefix.to_string()).or_insert_with(|| vec![parent.unwrap_or(usize::MAX)]);
        self.object(o, m, prefix, 0);
      }
      _ => {}
    }
  }

  fn object(&mut self, o: &Obj, m: &JMap, prefix: &str, idx: usize) {
    let count = *self.counts.get(prefix).unwrap_or(&0);
    for (k, v) in m.iter() {
      if let Some(c) = o.children.iter().find(|c| c.name == *k) {
        if !v.is_null() {
          self.nested(c, v, &format!("{prefix}.{k}"), Some(idx));
        }
      } else if let Some(l) = o.leaves.iter().find(|l| l.name == *k) {
        if !l.fast {
          continue;
        }
        let full = format!("{prefix}.{k}");
        match l.kind {
          K::Kw => put(&mut self.nkw, &full, count, idx, strs(v)),
          K::I => put(&mut self.ni, &full, count, idx, i64s(v)),
          K::F => put(&mut self.nf, &full, count, idx, f64s(v)),
        }
      }
    }
  }

  fn ci(a: &str, b: &str) -> bool {
    a.to_lowercase() == b.to_lowercase()
  }

  fn leaf<T, P: Fn(&T) -> bool>(top: &HashMap<String, Vec<T>>, nest: &HashMap<String, Vec<Vec<T>>>, full: &str, oidx: Option<usize>, p: P) -> bool {
    match oidx {
      Some(i) => nest.get(full).and_then(|o| o.get(i)).map(|vals| vals.iter().any(&p)).unwrap_or(false),
      None => {
        if let Some(vals) = top.get(full) {
          vals.iter().any(&p)
        } else if let Some(objs) = nest.get(full) {
          objs.iter().any(|vals| vals.iter().any(&p))
        } else {
          false
        }
      }
    }
  }

  fn qual(base: &str, f: &str) -> String {
    if base.is_empty() {
      f.to_string()
    } else {
      format!("{base}.{f}")
    }
  }

  fn matches(&self, f: &Fl, base: &str, oidx: Option<usize>) -> bool {
    match f {
      Fl::Eq(field, v) => Self::leaf(&self.top_kw, &self.nkw, &Self::qual(base, field), oidx, |s: &String| Self::ci(s, v)),
      Fl::In(field, vs) => Self::leaf(&self.top_kw, &self.nkw, &Self::qual(base, field), oidx, |s: &String| vs.iter().any(|v| Self::ci(s, v))),
      Fl::IR(field, a, b) => Self::leaf(&self.top_i, &self.ni, &Self::qual(base, field), oidx, |n: &i64| n >= a && n <= b),
      Fl::FR(field, a, b) => Self::leaf(&self.top_f, &self.nf, &Self::qual(base, field), oidx, |n: &f64| n >= a && n <= b),
      Fl::Nested(p, inner) => self.group(base, p, oidx, &[inner.as_ref()]),
      Fl::And(cs) => self.all(&cs.iter().collect::<Vec<_>>(), base, oidx),
      Fl::Or(cs) => cs.iter().any(|c| self.matches(c, base, oidx)),
      Fl::Not(c) => !self.matches(c, base, oidx),
    }
  }

  fn all(&self, fs: &[&Fl], base: &str, oidx: Option<usize>) -> bool {
    let mut groups: Vec<(&str, Vec<&Fl>)> = Vec::new();
    for f in fs {
      match f {
        Fl::Nested(p, inner) => match groups.iter_mut().find(|(gp, _)| *gp == p.as_str()) {
          Some(g) => g.1.push(inner),
          None => groups.push((p, vec![inner])),
        },
        other => {
          if !self.matches(other, base, oidx) {
            return false;
          }
        }
      }
    }
    groups.iter().all(|(p, g)| self.group(base, p, oidx, g))
  }

  fn group(&self, base: &str, path: &str, parent: Option<usize>, fs: &[&Fl]) -> bool {
    let full = Self::qual(base, path);
    let count = *self.counts.get(&full).unwrap_or(&0);
    let empty = Vec::new();
    let parents = self.parents.get(&full).unwrap_or(&empty);
    for i in 0..count {
      if let Some(p) = parent {
        match parents.get(i) {
          Some(x) if *x == p => {}
          _ => continue,
        }
      }
      if self.all(fs, &full, Some(i)) {
        return true;
      }
    }
    false
  }
}

fn defect_model(s: &Sch, doc: &Value, f: &Fl) -> bool {
  let Some(root) = doc.as_object() else { return false };
  Cols::collect(s, root).matches(f, "", None)
}

/// (parent path, child name) pairs such that >= 2 objects at the parent path carry a
/// non-null value under the child key — the input shape the renumbering defect needs.
fn renumbering_triggers(s: &Sch, doc: &Value) -> Vec<(String, String)> {
  fn walk(o: &Obj, prefix: &str, objs: Vec<&JMap>, out: &mut Vec<(String, String)>) {
    let path = if prefix.is_empty() { o.name.clone() } else { format!("{prefix}.{}", o.name) };
    for c in o.children.iter() {
      let with_child = objs.iter().filter(|m| m.get(&c.name).map(|v| !v.is_null()).unwrap_or(false)).count();
      if with_child >= 2 {
        out.push((path.clone(), c.name.clone()));
      }
      let next: Vec<&JMap> = objs.iter().flat_map(|m| objects_at(m, &c.name)).collect();
      walk(c, &path, next, out);
    }
  }
  let mut out = Vec::new();
  if let Some(root) = doc.as_object() {
    for o in s.nested.iter() {
      walk(o, "", objects_at(root, &o.name), &mut out);
    }
  }
  out
}

/// Number of objects at a dotted path in the whole document.
fn count_objects(doc: &Value, path: &str) -> usize {
  let Some(root) = doc.as_object() else { return 0 };
  let mut cur: Vec<&JMap> = vec![root];
  for s in path.split('.') {
    cur = cur.into_iter().flat_map(|m| objects_at(m, s)).collect();
  }
  cur.len()
}

/// Remove every object at `segs` except the `keep`-th (document order).
fn keep_only(scope: &mut JMap, segs: &[&str], counter: &mut usize, keep: usize) {
  let Some(v) = scope.get_mut(segs[0]) else { return };
  if segs.len() == 1 {
    match v {
      Value::Array(a) => {
        a.retain(|x| {
          if x.is_object() {
            let c = *counter;
            *counter += 1;
            c == keep
          } else {
            true
          }
        });
      }
      Value::Object(_) => {
        let c = *counter;
        *counter += 1;
        if c != keep {
          scope.remove(segs[0]);
        }
      }
      _ => {}
    }
  } else {
    match v {
      Value::Array(a) => {
        for x in a.iter_mut() {
          if let Some(m) = x.as_object_mut() {
            keep_only(m, &segs[1..], counter, keep);
          }
        }
      }
      Value::Object(m) => keep_only(m, &segs[1..], counter, keep),
      _ => {}
    }
  }
}

// ───────────────────────────── engine access ─────────────────────────────

#[derive(Clone, Copy, PartialEq, Eq, Debug)]
enum Variant {
  Root,
  BoolFilter,
  BoolFilterSplit,
  TermRoot,
}

fn request(f: &Fl, v: Variant) -> Value {
  match v {
    Variant::Root => json!({"query": {"type":"match_all"}, "filter": f.to_json(), "limit": idx::BIG_LIMIT, "execution": "bm25"}),
    Variant::TermRoot => json!({"query": {"type":"term","field":"body","value":"common"}, "filter": f.to_json(), "limit": idx::BIG_LIMIT, "execution": "bm25"}),
    Variant::BoolFilter => json!({"query": {"type":"bool","must":[{"type":"match_all"}],"filter":[f.to_json()]}, "limit": idx::BIG_LIMIT, "execution": "bm25"}),
    Variant::BoolFilterSplit => {
      let list: Vec<Value> = match f {
        Fl::And(cs) => cs.iter().map(|c| c.to_json()).collect(),
        other => vec![other.to_json()],
      };
      json!({"query": {"type":"bool","must":[{"type":"match_all"}],"filter": list}, "limit": idx::BIG_LIMIT, "execution": "bm25"})
    }
  }
}

/// The implicit conjunction of a `bool.filter` list is only used when no two of its
/// clauses are Nested clauses on the same path (whether such list members share an object
/// is not stated anywhere).
fn splittable(f: &Fl) -> bool {
  match f {
    Fl::And(cs) => {
      let mut seen: Vec<&str> = Vec::new();
      for c in cs {
        if let Fl::Nested(p, _) = c {
          if seen.contains(&p.as_str()) {
            return false;
          }
          seen.push(p);
        }
      }
      true
    }
    _ => false,
  }
}

fn engine_ids(reader: &searchlite_core::api::IndexReader, f: &Fl, v: Variant) -> Result<BTreeSet<String>, String> {
  let req = request(f, v);
  match vcore::ctx::catch(|| idx::search(reader, req)) {
    Err(p) => Err(format!("panic:{}", vcore::ctx::panic_site(&p))),
    Ok(Err(e)) => Err(format!("api-error:{e:#}")),
    Ok(Ok(res)) => {
      let ids = idx::ids(&res);
      let set: BTreeSet<String> = ids.iter().cloned().collect();
      if set.len() != ids.len() {
        return Err("duplicate-hit-ids".into());
      }
      Ok(set)
    }
  }
}

/// Does the engine accept `doc` for `f` when the document is alone in a fresh in-memory index?
fn engine_single(dir: &Path, sj: &Value, doc: &Value, f: &Fl, v: Variant) -> Result<bool, String> {
  let r = vcore::ctx::catch(|| -> anyhow::Result<bool> {
    let index = idx::build(dir, true, sj, std::slice::from_ref(doc), &[1])?;
    let reader = index.reader()?;
    let res = idx::search(&reader, request(f, v))?;
    Ok(!res.hits.is_empty())
  });
  match r {
    Err(p) => Err(format!("panic:{}", vcore::ctx::panic_site(&p))),
    Ok(Err(e)) => Err(format!("{e:#}")),
    Ok(Ok(b)) => Ok(b),
  }
}

// ───────────────────────────── shrinking ─────────────────────────────

#[derive(Clone, Debug)]
enum Seg {
  Key(String),
  Idx(usize),
}

fn removable(v: &Value, here: &mut Vec<Seg>, depth: usize, out: &mut Vec<Vec<Seg>>) {
  match v {
    Value::Object(m) => {
      for (k, x) in m.iter() {
        if depth == 0 && (k == "_id" || k == "body") {
          continue;
        }
        here.push(Seg::Key(k.clone()));
        out.push(here.clone());
        removable(x, here, depth + 1, out);
        here.pop();
      }
    }
    Value::Array(a) => {
      for (i, x) in a.iter().enumerate() {
        here.push(Seg::Idx(i));
        out.push(here.clone());
        removable(x, here, depth + 1, out);
        here.pop();
      }
    }
    _ => {}
  }
}

fn remove_at(v: &mut Value, path: &[Seg]) {
  if path.len() == 1 {
    match (&path[0], v) {
      (Seg::Key(k), Value::Object(m)) => {
        m.remove(k);
      }
      (Seg::Idx(i), Value::Array(a)) => {
        if *i < a.len() {
          a.remove(*i);
        }
      }
      _ => {}
    }
    return;
  }
  let next = match (&path[0], v) {
    (Seg::Key(k), Value::Object(m)) => m.get_mut(k),
    (Seg::Idx(i), Value::Array(a)) => a.get_mut(*i),
    _ => None,
  };
  if let Some(n) = next {
    remove_at(n, &path[1..]);
  }
}

fn filter_shrinks(f: &Fl) -> Vec<Fl> {
  let mut out = Vec::new();
  match f {
    Fl::And(cs) | Fl::Or(cs) => {
      let mk = |v: Vec<Fl>| if matches!(f, Fl::And(_)) { Fl::And(v) } else { Fl::Or(v) };
      for i in 0..cs.len() {
        out.push(cs[i].clone());
      }
      if cs.len() >= 3 {
        for i in 0..cs.len() {
          let mut v = cs.clone();
          v.remove(i);
          out.push(mk(v));
        }
      }
      for i in 0..cs.len() {
        for s in filter_shrinks(&cs[i]) {
          // keep conjunctions flat, as the generator does
          if matches!(f, Fl::And(_)) && matches!(s, Fl::And(_)) {
            continue;
          }
          let mut v = cs.clone();
          v[i] = s;
          out.push(mk(v));
        }
      }
    }
    Fl::Not(c) => {
      out.push((**c).clone());
      for s in filter_shrinks(c) {
        out.push(Fl::Not(Box::new(s)));
      }
    }
    Fl::Nested(p, c) => {
      for s in filter_shrinks(c) {
        out.push(Fl::Nested(p.clone(), Box::new(s)));
      }
    }
    Fl::In(field, vs) if vs.len() >= 2 => {
      for i in 0..vs.len() {
        let mut v = vs.clone();
        v.remove(i);
        out.push(Fl::In(field.clone(), v));
      }
    }
    _ => {}
  }
  out
}

struct Probe<'a> {
  dir: &'a Path,
  sch: &'a Sch,
  sj: &'a Value,
  variant: Variant,
  budget: Cell<i32>,
}

#[derive(Clone, Copy, PartialEq, Eq, Debug)]
struct Obs {
  engine: bool,
  oracle: bool,
  model: bool,
}

impl Probe<'_> {
  /// engine / oracle / defect-model verdicts for one document alone; None when not judged or not indexable
  fn observe(&self, doc: &Value, f: &Fl) -> Option<Obs> {
    let oracle = expected(f, doc)?;
    self.budget.set(self.budget.get() - 1);
    let engine = engine_single(self.dir, self.sj, doc, f, self.variant).ok()?;
    Some(Obs { engine, oracle, model: defect_model(self.sch, doc, f) })
  }

  /// Greedy minimisation of (document, filter) preserving: the engine's verdict, the oracle's
  /// opposite verdict, and whether the defect model reproduces the engine's verdict.
  fn minimise(&self, doc: &Value, f: &Fl, engine_says: bool, model_agrees: bool) -> (Value, Fl) {
    let keep = |o: Option<Obs>| matches!(o, Some(o) if o.engine == engine_says && o.oracle != engine_says && (o.model == o.engine) == model_agrees);
    let mut d = doc.clone();
    let mut fl = f.clone();
    let mut changed = true;
    while changed && self.budget.get() > 0 {
      changed = false;
      // filter first: a smaller filter makes more of the document irrelevant
      'f: loop {
        for cand in filter_shrinks(&fl) {
          if self.budget.get() <= 0 {
            break 'f;
          }
          if keep(self.observe(&d, &cand)) {
            fl = cand;
            changed = true;
            continue 'f;
          }
        }
        break;
      }
      'd: loop {
        let mut pos = Vec::new();
        removable(&d, &mut Vec::new(), 0, &mut pos);
        for p in pos {
          if self.budget.get() <= 0 {
            break 'd;
          }
          let mut cand = d.clone();
          remove_at(&mut cand, &p);
          if keep(self.observe(&cand, &fl)) {
            d = cand;
            changed = true;
            continue 'd;
          }
        }
        break;
      }
    }
    (d, fl)
  }

  /// The known root cause needs >= 2 parent objects carrying the child path; with any single
  /// one of them kept the engine must agree with the oracle again.
  fn vanishes_with_one_parent(&self, doc: &Value, f: &Fl) -> Option<(String, String)> {
    for (ppath, child) in renumbering_triggers(self.sch, doc) {
      let n = count_objects(doc, &ppath);
      let segs: Vec<&str> = ppath.split('.').collect();
      let mut all_ok = n >= 2;
      for keep in 0..n {
        let mut d = doc.clone();
        let mut counter = 0;
        if let Some(m) = d.as_object_mut() {
          keep_only(m, &segs, &mut counter, keep);
        }
        match self.observe(&d, f) {
          Some(o) if o.engine == o.oracle => {}
          _ => {
            all_ok = false;
            break;
          }
        }
      }
      if all_ok {
        return Some((ppath, child));
      }
    }
    None
  }
}

const SIG_RENUMBER: &str = "nested-child-numbering-restarts-per-parent";

// ───────────────────────────── main ─────────────────────────────

fn main() {
  let args: Vec<String> = std::env::args().skip(1).collect();
  if args.first().map(|s| s.as_str()) == Some("probe") {
    // c08 probe <file.json>: {"schema":..., "documents":[...], "request":{...}} -> prints the hit ids (reproduction aid)
    let v: Value = serde_json::from_str(&std::fs::read_to_string(&args[1]).expect("read probe file")).expect("probe json");
    let dir = std::env::temp_dir().join(format!("c08-probe-{}", std::process::id()));
    let docs = v["documents"].as_array().cloned().unwrap_or_default();
    let index = idx::build(&dir, true, &v["schema"], &docs, &[docs.len()]).expect("build");
    let reader = index.reader().expect("reader");
    let res = idx::search(&reader, v["request"].clone()).expect("search");
    println!("{}", json!(idx::ids(&res)));
    let _ = std::fs::remove_dir_all(&dir);
    return;
  }
  let mut ctx = Ctx::from_args("C08", "exploration", &args);
  ctx.rule = "each case = one random schema (fast keyword/i64/f64 fields at top level and in nested objects up to 3 levels: p > ch > g, q > r), 6-24 random documents (0-3 parent objects each holding 0-3 children and grandchildren; missing/null/[]/single/multi values; ASCII case variants) in 1-3 commits, and 40 (quick) / 60 (thorough) random filter trees of depth <= 4 over KeywordEq/KeywordIn/I64Range/F64Range/Nested/And/Or/Not (sibling same-path Nested under And, Not(Nested), Nested in Nested, dotted leaf paths at the root). For each filter the hit-id set of search(match_all, filter=F, execution=bm25) — and for a random half also bool{must:[match_all],filter:[F]} and term(body:common)+filter — is compared per document with a tree-walk evaluator over the original JSON. evaluations = (filter, request-form) comparisons; a comparison is non-trivial when the expected set is neither empty nor all documents, counted once per (corpus, filter) hash.".into();
  ctx.assumptions = vec![
    "only fast fields are filter targets (README: filters operate on fast fields)".into(),
    "case-insensitivity is judged for ASCII case variants only; non-ASCII keywords appear in one fixed spelling because the documentation does not say which case mapping applies".into(),
    "I64Range is only generated on i64 fields and F64Range only on f64 fields (the property speaks of the matching numeric type); f64 fields may hold integer literals, read as the same number".into(),
    "sibling Nested clauses share one object only when they are direct children of the same And; Or and Not are plain; And is never generated directly inside And".into(),
    "when the inner clauses of a shared-object group are themselves Nested clauses on one sub-path, the documentation does not say whether they share a sub-object: a document is judged only if both readings give the same verdict".into(),
    "dotted leaf paths are generated only outside any Nested scope; nested arrays never contain null entries; Nested paths are single names relative to the enclosing scope".into(),
    "a bool.filter list with several members is used only when no two members are Nested clauses on the same path".into(),
  ];
  let n = ctx.n(1200, 160_000);
  let quick = ctx.quick();
  ctx.run_cases("flt", n, |rng: &mut Rng, l: &mut Local, scratch| {
    let sch = gen_schema(rng);
    let sj = schema_json(&sch);
    let n_docs = rng.urange(6, 24);
    let docs: Vec<Value> = (0..n_docs).map(|i| gen_doc(rng, &sch, i)).collect();
    let layout = gen::layout(rng, n_docs, 3);
    let in_memory = rng.chance(0.85);
    let dir = scratch.join("idx");
    let _ = std::fs::remove_dir_all(&dir);
    std::fs::create_dir_all(&dir).ok();
    let built = vcore::ctx::catch(|| -> anyhow::Result<_> {
      let index = idx::build(&dir, in_memory, &sj, &docs, &layout)?;
      let reader = index.reader()?;
      Ok((index, reader))
    });
    let (_index, reader) = match built {
      Ok(Ok(x)) => x,
      Ok(Err(e)) => {
        l.fail("api-error:build", format!("valid documents rejected: {e:#}"), json!({"schema": sj, "docs": docs}));
        return;
      }
      Err(p) => {
        l.fail(format!("panic:build:{}", vcore::ctx::panic_site(&p)), p.clone(), json!({"schema": sj, "docs": docs}));
        return;
      }
    };
    l.count("indexes", 1);
    l.count(if in_memory { "indexes_inmemory" } else { "indexes_filesystem" }, 1);
    if layout.len() > 1 {
      l.count("indexes_multi_segment", 1);
    }
    l.count("documents", n_docs as u64);
    let trig: Vec<bool> = docs.iter().map(|d| !renumbering_triggers(&sch, d).is_empty()).collect();
    l.count("documents_with_children_under_2plus_parents", trig.iter().filter(|t| **t).count() as u64);
    let docs_fp = vcore::ctx::fp(&serde_json::to_string(&docs).unwrap());
    let all_ids: BTreeSet<String> = (0..n_docs).map(|i| format!("d{i}")).collect();
    let root = root_scope(&sch);
    let nf = if quick { 40 } else { 60 };
    let mut minimisations = 0;
    for _ in 0..nf {
      let depth = rng.urange(1, 4);
      let f = gen_filter(rng, &root, depth);
      let mut ft = Feat::default();
      features(&f, false, 1, &mut ft);
      l.count("filters", 1);
      for (k, b) in [
        ("filters_with_nested", ft.nested),
        ("filters_nested_in_nested", ft.nested_in_nested),
        ("filters_sibling_same_path_nested_under_and", ft.sibling_same_path),
        ("filters_not_of_nested", ft.not_nested),
        ("filters_or_of_nested", ft.or_nested),
        ("filters_dotted_leaf_at_root", ft.dotted_root_leaf),
        ("filters_depth_ge_4", ft.depth >= 4),
      ] {
        if b {
          l.count(k, 1);
        }
      }
      let exp: Vec<Option<bool>> = docs.iter().map(|d| expected(&f, d)).collect();
      let judged = exp.iter().filter(|e| e.is_some()).count();
      let pass = exp.iter().filter(|e| **e == Some(true)).count();
      l.count("doc_verdicts_judged", judged as u64);
      l.count("doc_verdicts_not_judged_ambiguous_reading", (n_docs - judged) as u64);
      l.count("doc_verdicts_expected_pass", pass as u64);
      if judged == 0 {
        continue;
      }
      let mut variants = vec![Variant::Root];
      if rng.chance(0.5) {
        variants.push(if splittable(&f) && rng.chance(0.8) { Variant::BoolFilterSplit } else { Variant::BoolFilter });
      }
      if rng.chance(0.25) {
        variants.push(Variant::TermRoot);
      }
      if pass > 0 && pass < judged {
        l.nontrivial(&(docs_fp, f.to_json().to_string()));
        if l.samples.len() < 2 {
          l.sample(json!({"filter": f.to_json(), "documents": n_docs, "expected_pass": pass, "first_document": docs[0]}));
        }
      }
      for v in variants {
        let got = match engine_ids(&reader, &f, v) {
          Ok(s) => s,
          Err(e) => {
            let kind = e.split(':').take(2).collect::<Vec<_>>().join(":");
            l.fail(format!("search-failed:{kind}"), e.clone(), json!({"schema": sj, "filter": f.to_json(), "variant": format!("{v:?}"), "docs": docs}));
            continue;
          }
        };
        l.eval();
        l.count(&format!("comparisons[{v:?}]"), 1);
        if let Some(x) = got.iter().find(|id| !all_ids.contains(*id)) {
          l.fail("unknown-hit-id", format!("hit id {x} was never indexed"), json!({"filter": f.to_json()}));
        }
        let mut per_filter = 0;
        for (i, d) in docs.iter().enumerate() {
          let Some(want) = exp[i] else { continue };
          let has = got.contains(&format!("d{i}"));
          if has == want {
            continue;
          }
          l.count("mismatching_doc_verdicts", 1);
          per_filter += 1;
          if per_filter > 3 {
            // further documents of the same (filter, request form): attributed by the model only
            let model = defect_model(&sch, d, &f);
            if model == has && trig[i] {
              l.count(&format!("fail[{SIG_RENUMBER}]"), 1);
              continue;
            }
          }
          // ── classify ──
          let model = defect_model(&sch, d, &f);
          let model_agrees = model == has;
          let cand_known = model_agrees && trig[i];
          if cand_known && l.fails.iter().any(|x| x.signature == SIG_RENUMBER) {
            l.count(&format!("fail[{SIG_RENUMBER}]"), 1);
            continue;
          }
          let probe = Probe { dir: &scratch.join("m"), sch: &sch, sj: &sj, variant: v, budget: Cell::new(if minimisations < 8 { 500 } else { 40 }) };
          minimisations += 1;
          // the verdict must not depend on the rest of the corpus: re-observe the document alone
          let alone = probe.observe(d, &f);
          let (md, mf) = match alone {
            Some(o) if o.engine == has && o.oracle == want && (o.model == o.engine) == model_agrees => probe.minimise(d, &f, has, model_agrees),
            _ => (d.clone(), f.clone()),
          };
          let mo = probe.observe(&md, &mf);
          let mut kinds = BTreeSet::new();
          mf.kinds(&mut kinds);
          let shape = kinds.into_iter().collect::<Vec<_>>().join("+");
          let dir_s = if has { "engine-accepts" } else { "engine-rejects" };
          let mut sig = format!("unclassified:{dir_s}:{shape}");
          let mut why = Value::Null;
          if alone.is_none() {
            sig = format!("unclassified:single-document-reindex-failed:{dir_s}");
          } else if !matches!(alone, Some(o) if o.engine == has && o.oracle == want) {
            // the same document alone in a fresh index is judged differently by the engine
            sig = format!("verdict-depends-on-corpus:{dir_s}");
          } else if cand_known {
            probe.budget.set(probe.budget.get().max(0) + 60);
            if let Some((pp, ch)) = probe.vanishes_with_one_parent(&md, &mf) {
              sig = SIG_RENUMBER.to_string();
              why = json!({"parent_path": pp, "child": ch, "parent_objects": count_objects(&md, &pp),
                "note": "with any single one of the parent objects kept, engine and oracle agree"});
            }
          }
          l.fail(
            sig,
            format!("engine {} a document that the documented filter semantics {}", if has { "accepts" } else { "rejects" }, if want { "accept" } else { "reject" }),
            json!({
              "schema": sj, "request_form": format!("{v:?}"),
              "minimised_document": md, "minimised_filter": mf.to_json(),
              "minimised_verdicts": mo.map(|o| json!({"engine": o.engine, "oracle": o.oracle, "renumbering_model": o.model})),
              "classification": why,
              "original_document": d, "original_filter": f.to_json(),
              "original_verdicts": {"engine": has, "oracle": want, "renumbering_model": model},
            }),
          );
        }
      }
    }
    drop(reader);
    let _ = std::fs::remove_dir_all(&dir);
    let _ = std::fs::remove_dir_all(scratch.join("m"));
  });
  std::process::exit(ctx.finish());
}
