//! C17 — Corrupted index files are detected.
//! Fault enumeration over the bytes of a small committed index: every (thorough) / every
//! k-th (quick) byte is xor-ed with several masks and every (sampled in quick) truncation
//! length is applied, one file at a time, in place at the original path; the real
//! `Index::open` -> `reader()` -> request battery -> `writer()` sequence must either return
//! an error or reproduce the baseline answers exactly; the write-ahead log must recover a
//! prefix of the original queue. Probes run in sandboxed worker processes (address-space
//! limit + watchdog) so that aborts and hangs are observed, not suffered.
use searchlite_core::api::Index;
use searchlite_core::storage::FsStorage;
use searchlite_core::wal::{Wal, WalEntry};
use serde_json::{json, Value};
use std::collections::BTreeMap;
use std::path::{Path, PathBuf};
use std::process::Command;
use std::time::Duration;
use vcheck::hist;
use vcore::gen;
use vcore::{idx, sandbox, Ctx, Local, Rng};

fn build_index(root: &Path, seed: u64) -> anyhow::Result<()> {
  let _ = std::fs::remove_dir_all(root);
  let mut rng = Rng::derive(seed, "c17-index", 0);
  let schema = hist::schema();
  let index = Index::create(root, idx::schema(&schema.to_json())?, idx::opts(root, false))?;
  let n_docs = rng.urange(3, 12);
  let segs = rng.urange(1, 3);
  let mut w = index.writer()?;
  let mut k = 0;
  for s in 0..segs {
    let per = (n_docs / segs).max(1);
    for _ in 0..per {
      let id = format!("d{k}");
      let mut d = gen::simple_doc(&mut rng, &id, &format!("v{k}"));
      // make sure the battery's fields are populated
      d["tag"] = json!(["red", "green", "blue"][k % 3]);
      d["n"] = json!((k as i64) * 3 - 4);
      d["body"] = json!(format!("v{k} rust search {}", gen::sentence(&mut rng, 1, 4)));
      w.add_document(&idx::doc(&d))?;
      k += 1;
    }
    w.commit()?;
    if s == 0 && rng.chance(0.6) && k > 1 {
      w.delete_document("d0")?;
      w.commit()?;
    }
  }
  // pending (uncommitted) operations in the log
  if rng.chance(0.7) {
    for j in 0..rng.urange(1, 4) {
      let id = format!("p{j}");
      w.add_document(&idx::doc(&gen::simple_doc(&mut rng, &id, &format!("pending{j}"))))?;
    }
    w.delete_document("d1")?;
  }
  drop(w);
  Ok(())
}

fn battery() -> Vec<Value> {
  vec![
    json!({"query":{"type":"match_all"},"limit":1000,"return_stored":true,"execution":"bm25"}),
    json!({"query":{"type":"term","field":"body","value":"rust"},"limit":1000,"return_stored":false,"execution":"bm25"}),
    json!({"query":{"type":"query_string","query":"search engine"},"limit":5,"return_stored":true}),
    json!({"query":{"type":"match_all"},"filter":{"Or":[{"KeywordEq":{"field":"tag","value":"red"}},{"I64Range":{"field":"n","min":0,"max":9}}]},"limit":1000,"return_stored":false}),
    json!({"query":{"type":"match_all"},"filter":{"Nested":{"path":"c","filter":{"Or":[{"KeywordIn":{"field":"c.who","values":["red","green","blue","x","yz","cyan"]}},{"I64Range":{"field":"c.k","min":0,"max":9}}]}}},"limit":1000,"return_stored":false}),
    json!({"query":{"type":"match_all"},"sort":[{"field":"n","order":"desc"},{"field":"tag","order":"asc"}],"limit":1000,"return_stored":false}),
    json!({"query":{"type":"match_all"},"limit":1,"return_stored":false,"aggs":{"tags":{"type":"terms","field":"tag","size":10},"ns":{"type":"stats","field":"n"}}}),
  ]
}

#[derive(Debug)]
enum Probe {
  Error(String),
  Answers(Value),
}

fn wal_json(es: &[WalEntry]) -> Vec<Value> {
  es.iter()
    .map(|e| match e {
      WalEntry::AddDoc(d) => json!({"add": d.fields}),
      WalEntry::DeleteDocId(i) => json!({"delete": i}),
      WalEntry::Commit => json!("commit"),
    })
    .collect()
}

/// The observation sequence of the property. Never panics itself: panics are caught by the caller.
fn probe(root: &Path, create_if_missing: bool) -> Probe {
  let mut o = idx::opts(root, false);
  // applications open existing indexes both ways (the CLI write path and the test helpers pass true)
  o.create_if_missing = create_if_missing;
  let index = match Index::open(o) {
    Ok(i) => i,
    Err(e) => return Probe::Error(format!("open: {e:#}")),
  };
  let reader = match index.reader() {
    Ok(r) => r,
    Err(e) => return Probe::Error(format!("reader: {e:#}")),
  };
  let mut answers = Vec::new();
  for b in battery() {
    match idx::search(&reader, b) {
      Ok(r) => {
        let mut v = serde_json::to_value(&r).unwrap_or(Value::Null);
        if let Some(o) = v.as_object_mut() {
          o.remove("profile");
        }
        answers.push(v);
      }
      // An error from ONE request is not yet detection of the corruption: the other requests of the
      // battery are still judged (a damaged index that answers some requests wrongly and rejects others
      // returns different results for the former). Open/reader errors above do end the probe.
      Err(_) => answers.push(json!({"__search_error__": true})),
    }
  }
  if answers.iter().all(|a| a.get("__search_error__").is_some()) {
    return Probe::Error("search: every request of the battery returned an error".into());
  }
  // the log: recovered queue as the next writer would see it
  let storage = FsStorage::new(root.to_path_buf());
  let pending = match Wal::last_pending_ops(&storage, &root.join("wal.log")) {
    Ok(p) => wal_json(&p),
    Err(e) => return Probe::Error(format!("wal: {e:#}")),
  };
  if let Err(e) = index.writer() {
    return Probe::Error(format!("writer: {e:#}"));
  }
  Probe::Answers(json!({"answers": answers, "pending": pending}))
}

#[derive(Clone, Debug)]
struct Case {
  file: String,
  /// Some((offset, mask)) for a byte flip, None for truncation
  flip: Option<(usize, u8)>,
  trunc: Option<usize>,
}

fn list_files(root: &Path) -> BTreeMap<String, usize> {
  let mut m = BTreeMap::new();
  if let Ok(rd) = std::fs::read_dir(root) {
    for e in rd.flatten() {
      if e.path().is_file() {
        m.insert(e.file_name().to_string_lossy().to_string(), e.metadata().map(|x| x.len() as usize).unwrap_or(0));
      }
    }
  }
  m
}

fn enumerate(files: &BTreeMap<String, usize>, quick: bool) -> Vec<Case> {
  let masks: &[u8] = &[0x01, 0x20, 0x80, 0xFF];
  let mut out = Vec::new();
  for (f, len) in files {
    for off in 0..*len {
      if quick {
        // every 3rd byte with one rotating mask + all bytes of the first 24 (headers/length fields)
        if off < 24 {
          out.push(Case { file: f.clone(), flip: Some((off, masks[off % 4])), trunc: None });
          out.push(Case { file: f.clone(), flip: Some((off, 0xFF)), trunc: None });
        } else if off % 3 == 0 {
          out.push(Case { file: f.clone(), flip: Some((off, masks[(off / 3) % 4])), trunc: None });
        }
      } else {
        for m in masks {
          out.push(Case { file: f.clone(), flip: Some((off, *m)), trunc: None });
        }
      }
    }
    for t in 0..*len {
      if !quick || t < 16 || t % 5 == 0 || t + 8 >= *len {
        out.push(Case { file: f.clone(), flip: None, trunc: Some(t) });
      }
    }
  }
  out
}

fn class(f: &str) -> String {
  if f.starts_with("seg_") {
    format!("seg.{}", f.rsplit('.').next().unwrap_or(""))
  } else {
    f.to_string()
  }
}

/// `c17 worker <root> <backup> <quick 0|1> <shard> <shards> <out>`
fn worker(a: &[String]) -> i32 {
  vcore::ctx::install_panic_hook();
  let root = PathBuf::from(&a[0]);
  let backup = PathBuf::from(&a[1]);
  let quick = a[2] == "1";
  let shard: usize = a[3].parse().unwrap();
  let shards: usize = a[4].parse().unwrap();
  let out = PathBuf::from(&a[5]);
  let start_at: usize = a.get(6).and_then(|s| s.parse().ok()).unwrap_or(0);
  let only: Option<usize> = a.get(7).and_then(|s| s.parse().ok());
  let files = list_files(&backup);
  let cases = enumerate(&files, quick);
  let baseline = match vcore::ctx::catch(|| probe(&root, false)) {
    Ok(Probe::Answers(v)) => v,
    other => {
      let _ = std::fs::write(&out, json!({"fatal": format!("baseline probe failed: {other:?}")}).to_string() + "\n");
      return 0;
    }
  };
  let base_pending: Vec<Value> = baseline["pending"].as_array().cloned().unwrap_or_default();
  let restore_all = |root: &Path| {
    // writer() may have touched wal.log; the corrupted file must be restored as well
    for f in files.keys() {
      let _ = std::fs::copy(backup.join(f), root.join(f));
    }
    // remove anything the probe created
    if let Ok(rd) = std::fs::read_dir(root) {
      for e in rd.flatten() {
        let n = e.file_name().to_string_lossy().to_string();
        if !files.contains_key(&n) {
          let _ = std::fs::remove_file(e.path());
        }
      }
    }
  };
  restore_all(&root);
  let cur = out.with_extension("current");
  let mut lines = String::new();
  let mut counts: BTreeMap<String, u64> = BTreeMap::new();
  for (i, c) in cases.iter().enumerate() {
    if i % shards != shard || i < start_at {
      continue;
    }
    if let Some(o) = only {
      if i != o {
        continue;
      }
    }
    let _ = std::fs::write(&cur, json!({"i": i, "file": c.file, "flip": c.flip, "trunc": c.trunc}).to_string());
    let orig = std::fs::read(backup.join(&c.file)).unwrap();
    let mut data = orig.clone();
    if let Some((off, m)) = c.flip {
      data[off] ^= m;
    }
    if let Some(t) = c.trunc {
      data.truncate(t);
    }
    std::fs::write(root.join(&c.file), &data).unwrap();
    // open flag alternates; the manifest (the file `create_if_missing` is about) is probed both ways and
    // the worse outcome counts
    let flag = i % 2 == 1;
    let mut r = vcore::ctx::catch(|| probe(&root, flag));
    restore_all(&root);
    if c.file == "MANIFEST.json" && matches!(r, Ok(Probe::Error(_))) {
      std::fs::write(root.join(&c.file), &data).unwrap();
      r = vcore::ctx::catch(|| probe(&root, !flag));
      restore_all(&root);
    }
    let kind = if c.flip.is_some() { "flip" } else { "trunc" };
    let (outcome, detail): (String, Value) = match r {
      Err(p) => (format!("panic:{}", vcore::ctx::panic_site(&p)), json!(p)),
      Ok(Probe::Error(_)) => ("detected".into(), Value::Null),
      Ok(Probe::Answers(v)) => {
        if c.file == "wal.log" {
          let pend: Vec<Value> = v["pending"].as_array().cloned().unwrap_or_default();
          let is_prefix = pend.len() <= base_pending.len() && pend.iter().zip(base_pending.iter()).all(|(a, b)| a == b);
          if v["answers"] != baseline["answers"] {
            ("wal-corruption-changes-answers".into(), json!({"answers_differ": true}))
          } else if !is_prefix {
            ("wal-recovers-non-prefix".into(), json!({"recovered": pend, "original": base_pending}))
          } else if pend.len() == base_pending.len() {
            ("identical".into(), Value::Null)
          } else {
            ("wal-prefix".into(), json!(pend.len()))
          }
        } else if v == baseline {
          ("identical".into(), Value::Null)
        } else {
          // which part differs
          let mut diffs = Vec::new();
          // requests that returned an error do not count as "different results"
          for (k, (a, b)) in v["answers"].as_array().unwrap_or(&vec![]).iter().zip(baseline["answers"].as_array().unwrap_or(&vec![]).iter()).enumerate() {
            if a != b && a.get("__search_error__").is_none() {
              diffs.push(k);
            }
          }
          if diffs.is_empty() && v["pending"] == baseline["pending"] {
            ("detected".into(), Value::Null)
          } else {
            ("silent-difference".into(), json!({"battery_items_differing": diffs, "pending_differs": v["pending"] != baseline["pending"]}))
          }
        }
      }
    };
    *counts.entry(format!("{}:{}:{}", class(&c.file), kind, outcome.split(':').next().unwrap_or(""))).or_insert(0) += 1;
    if outcome != "detected" && outcome != "identical" && outcome != "wal-prefix" {
      // context of the altered byte for manifest classification
      let ctx_s = if c.file == "MANIFEST.json" {
        let off = c.flip.map(|f| f.0).or(c.trunc).unwrap_or(0);
        let lo = off.saturating_sub(40);
        let hi = (off + 20).min(orig.len());
        String::from_utf8_lossy(&orig[lo..hi]).to_string()
      } else {
        String::new()
      };
      lines.push_str(&json!({"i": i, "file": c.file, "flip": c.flip, "trunc": c.trunc, "outcome": outcome, "detail": detail, "context": ctx_s, "file_len": orig.len()}).to_string());
      lines.push('\n');
    }
  }
  lines.push_str(&json!({"summary": counts, "cases_total": cases.len()}).to_string());
  lines.push('\n');
  std::fs::write(&out, lines).unwrap();
  let _ = std::fs::remove_file(&cur);
  0
}

/// key of the manifest JSON member the altered byte belongs to (best effort, from the context window)
fn manifest_member(ctx_s: &str) -> String {
  // the context window ends 20 bytes after the altered position: look at what precedes it
  let chars: Vec<char> = ctx_s.chars().collect();
  let cut = chars.len().saturating_sub(20).max(1);
  let head: String = chars[..cut.min(chars.len())].iter().collect();
  // last `"name":` before the altered byte
  if let Some(end) = head.rfind("\":") {
    let before = &head[..end];
    if let Some(start) = before.rfind('"') {
      let name = &before[start + 1..];
      if !name.is_empty() && name.chars().all(|c| c.is_ascii_alphanumeric() || c == '_' || c == '.') {
        // segment-specific names (file names, checksum keys) are folded into their class
        return name.to_string();
      }
    }
  }
  "?".to_string()
}

fn main() {
  let args: Vec<String> = std::env::args().skip(1).collect();
  if args.first().map(|s| s.as_str()) == Some("worker") {
    std::process::exit(worker(&args[1..]));
  }
  let mut ctx = Ctx::from_args("C17", "fault_enumeration", &args);
  let quick = ctx.quick();
  ctx.rule = "small committed indexes (3-12 docs, 1-3 segments, deletions, with/without queued log records); for every file: xor of every byte with masks 0x01/0x20/0x80/0xFF and every truncation length (thorough), or every 3rd byte with a rotating mask + all header bytes + sampled truncations (quick); each corruption is applied in place at the original path inside a sandboxed worker (4 GiB address-space limit, watchdog), probed with Index::open (create_if_missing alternating, both ways for the manifest) -> reader -> 7-request battery (stored fields, scores, filter, sort, aggregations) -> Wal::last_pending_ops -> writer(), then undone. evaluations = corruptions probed; distinct_nontrivial = distinct (file kind, corruption kind, outcome class, offset bucket) combinations.".into();
  ctx.assumptions = vec![
    "acceptable outcomes: an error at any stage, or answers identical to the uncorrupted baseline; for wal.log additionally a recovered queue that is a prefix of the original one".into(),
    "indexes are produced by normal operation (the log holds only queued records, no stale commit markers)".into(),
  ];
  ctx.exhaustive = !quick;
  let n_indexes = ctx.n(1, 6);
  let shards = ctx.threads.max(1) as u64;
  let exe = sandbox::self_exe();
  let seed = ctx.seed;
  ctx.run_cases("shard", n_indexes * shards, |_rng: &mut Rng, l: &mut Local, scratch| {
    let index_no = l.case_idx / shards;
    let shard = l.case_idx % shards;
    let root = scratch.join("idx");
    let backup = scratch.join("backup");
    if let Err(e) = build_index(&root, seed.wrapping_mul(1000).wrapping_add(index_no)) {
      l.inconclusive(format!("build: {e:#}"));
      return;
    }
    let _ = std::fs::remove_dir_all(&backup);
    std::fs::create_dir_all(&backup).unwrap();
    for f in list_files(&root).keys() {
      std::fs::copy(root.join(f), backup.join(f)).unwrap();
    }
    let files = list_files(&backup);
    let out = scratch.join("out.jsonl");
    let mut start_at = 0usize;
    let mut restarts = 0;
    loop {
      let _ = std::fs::remove_file(&out);
      let mut cmd = Command::new(&exe);
      cmd.arg("worker").arg(&root).arg(&backup).arg(if quick { "1" } else { "0" }).arg(shard.to_string()).arg(shards.to_string()).arg(&out).arg(start_at.to_string());
      sandbox::limit_memory(&mut cmd, 4 << 30);
      let o = match sandbox::run(cmd, None, Duration::from_secs(if quick { 240 } else { 1500 })) {
        Ok(o) => o,
        Err(e) => {
          l.inconclusive(format!("cannot spawn worker: {e}"));
          return;
        }
      };
      if o.ok() && out.exists() {
        break;
      }
      // the worker died or hung on one corruption: identify it, judge it alone, continue after it
      let cur: Value = std::fs::read_to_string(out.with_extension("current")).ok().and_then(|s| serde_json::from_str(&s).ok()).unwrap_or(Value::Null);
      let i = cur.get("i").and_then(|x| x.as_u64()).unwrap_or(u64::MAX);
      if i == u64::MAX || restarts > 20 {
        l.inconclusive(format!("worker failed without a current case (code {:?} signal {:?} timeout {}): {}", o.code, o.signal, o.timed_out, o.stderr_str().chars().take(300).collect::<String>()));
        return;
      }
      restarts += 1;
      // isolate
      let iso_out = scratch.join("iso.jsonl");
      let _ = std::fs::remove_file(&iso_out);
      for f in files.keys() {
        let _ = std::fs::copy(backup.join(f), root.join(f));
      }
      let mut cmd = Command::new(&exe);
      cmd.arg("worker").arg(&root).arg(&backup).arg(if quick { "1" } else { "0" }).arg(shard.to_string()).arg(shards.to_string()).arg(&iso_out).arg("0").arg(i.to_string());
      sandbox::limit_memory(&mut cmd, 4 << 30);
      let iso = sandbox::run(cmd, None, Duration::from_secs(120));
      let fclass = class(cur.get("file").and_then(|x| x.as_str()).unwrap_or("?"));
      match iso {
        Ok(r) if r.ok() => l.inconclusive(format!("worker died on case {i} but the case passes alone")),
        Ok(r) if r.timed_out => {
          l.fail(format!("hang:{fclass}"), format!("probing corruption {cur} does not return within 120 s"), json!({"index_seed": index_no, "corruption": cur}));
        }
        Ok(r) => {
          l.fail(
            format!("abort:{fclass}:signal{:?}", r.signal),
            format!("probing corruption {cur} kills the process (code {:?}, signal {:?}): {}", r.code, r.signal, r.stderr_str().chars().take(300).collect::<String>()),
            json!({"index_seed": index_no, "corruption": cur}),
          );
        }
        Err(e) => l.inconclusive(format!("isolation run failed: {e}")),
      }
      for f in files.keys() {
        let _ = std::fs::copy(backup.join(f), root.join(f));
      }
      start_at = i as usize + 1;
    }
    let text = std::fs::read_to_string(&out).unwrap_or_default();
    for line in text.lines() {
      let Ok(v) = serde_json::from_str::<Value>(line) else { continue };
      if let Some(f) = v.get("fatal") {
        l.inconclusive(format!("{f}"));
        continue;
      }
      if let Some(s) = v.get("summary").and_then(|s| s.as_object()) {
        for (k, n) in s {
          let n = n.as_u64().unwrap_or(0);
          l.evals_add(n);
          l.count(&format!("outcome[{k}]"), n);
          l.nontrivial(&(index_no, k));
        }
        continue;
      }
      let file = v["file"].as_str().unwrap_or("?").to_string();
      let outcome = v["outcome"].as_str().unwrap_or("?").to_string();
      let kind = if v["flip"].is_null() { "trunc" } else { "flip" };
      // the listed finding is about BYTE CHANGES that keep the manifest valid JSON; a truncated manifest
      // is never valid JSON with a different meaning, so a silent difference after a truncation is new
      let sig = if file == "MANIFEST.json" && outcome == "silent-difference" && kind == "flip" {
        // MANIFEST.json carries no integrity protection: classify by the member whose value changed meaning
        l.count(&format!("manifest_silent_difference_member[{}]", manifest_member(v["context"].as_str().unwrap_or(""))), 1);
        "manifest-unprotected:silent-difference".to_string()
      } else {
        format!("{}:{}:{}", class(&file), kind, outcome)
      };
      l.fail(sig, format!("corrupting {file} ({kind} {} {}) -> {outcome}: {}", v["flip"], v["trunc"], v["detail"]), json!({"index_seed": index_no, "corruption": v}));
    }
    if l.samples.is_empty() {
      l.sample(json!({"index_seed": index_no, "files": files, "shard": shard, "of": shards, "battery": battery()}));
    }
    let _ = std::fs::remove_dir_all(&root);
    let _ = std::fs::remove_dir_all(&backup);
  });
  std::process::exit(ctx.finish());
}
