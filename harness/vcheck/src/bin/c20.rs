//! C20 — Explain and profile do not change results.
//! Metamorphic oracle: the four responses for (explain, profile) in {off,on}^2 of one request on
//! one reader agree in hits (ids, order, score bits, inner hits), totals, cursors, aggregations
//! and suggestions; every explanation's final_score equals its hit's score.
use searchlite_core::api::SearchResult;
use serde_json::{json, Value};
use vcore::{Ctx, Local, Rng};

#[path = "../shared/paging.rs"]
mod paging;
use paging::{Call, F, Q};

const TOL: f64 = 1e-9;

fn sort_class(sort: &[Value]) -> &'static str {
  let r = paging::resolve_sort(sort);
  if r.len() == 1 && r[0].0 == "_score" && r[0].1 {
    "score-desc-only"
  } else if r.iter().any(|(f, _)| f == "_score") {
    "sort-with-score-key"
  } else {
    "sort-without-score-key"
  }
}

/// (id, score bits, inner hits as (id, bits))
type HitView = (String, u32, Vec<(String, u32)>);

fn view(r: &SearchResult) -> Vec<HitView> {
  r.hits
    .iter()
    .map(|h| {
      (
        h.doc_id.clone(),
        h.score.to_bits(),
        h.inner_hits.as_ref().map(|v| v.iter().map(|i| (i.doc_id.clone(), i.score.to_bits())).collect()).unwrap_or_default(),
      )
    })
    .collect()
}

fn view_json(v: &[HitView]) -> Value {
  json!(v
    .iter()
    .map(|(id, b, inner)| json!([id, f32::from_bits(*b), inner.iter().map(|(i, s)| json!([i, f32::from_bits(*s)])).collect::<Vec<_>>()]))
    .collect::<Vec<_>>())
}

/// What differs between the reference hits and a variant's hits.
fn hits_diff(a: &[HitView], b: &[HitView]) -> Option<&'static str> {
  let ia: Vec<&String> = a.iter().map(|h| &h.0).collect();
  let ib: Vec<&String> = b.iter().map(|h| &h.0).collect();
  if ia != ib {
    let mut sa = ia.clone();
    let mut sb = ib.clone();
    sa.sort();
    sb.sort();
    return Some(if sa == sb { "hit-order" } else { "hit-ids" });
  }
  if a.iter().zip(b.iter()).any(|(x, y)| x.1 != y.1) {
    return Some("hit-scores");
  }
  if a.iter().zip(b.iter()).any(|(x, y)| x.2.iter().map(|i| &i.0).collect::<Vec<_>>() != y.2.iter().map(|i| &i.0).collect::<Vec<_>>()) {
    return Some("inner-hit-ids");
  }
  if a.iter().zip(b.iter()).any(|(x, y)| x.2 != y.2) {
    return Some("inner-hit-scores");
  }
  None
}

fn main() {
  let args: Vec<String> = std::env::args().skip(1).collect();
  let mut ctx = Ctx::from_args("C20", "exploration", &args);
  ctx.rule = "per case one in-memory index (8-40 docs, 1-4 segments with tombstones, tie-heavy values). Per index 20-30 requests drawn from the union of the paging generators: query (match_all/term/query string/bool/function_score/constant_score/dis_max/multi_match) x optional filter x sort plan (0-3 keys incl. non-score sorts) x bm25/wand/bmw(+block size) x limit 1-8 or all x optional second-page cursor x optional collapse(+inner_hits) x optional rescore x optional aggregations x optional suggest. Each request is run 4 times on the same reader with (explain, profile) in {off,on}^2; the three flagged responses are compared with the unflagged one: hit ids, order, score bits, inner hits, total_groups, next_cursor, aggregations, suggest (1e-9), total_hits_estimate (equality under bm25, otherwise each <= true match count), explanation presence and final_score == score. evaluations = flagged responses compared (3 per request); a request is non-trivial (counted once by hash of corpus+request) when the unflagged response has >= 2 hits.".into();
  ctx.assumptions = vec![
    "total_hits_estimate is compared for equality only under execution=bm25 (exactness promised for every variant); under wand/bmw every variant's total is only required to be <= the true match count (hits of the unpaged bm25 request)".into(),
    "explanations are required on top-level hits only (inner hits of a collapse are not judged for explanation presence)".into(),
    "a flagged variant rejected with Err while the unflagged request succeeds (or vice versa) is reported: the flags must not change the outcome".into(),
    "profile content (counters, timings) is not judged".into(),
  ];
  let quick = ctx.quick();
  let n = ctx.n(400, 80_000);
  ctx.run_cases("quads", n, |rng: &mut Rng, l: &mut Local, scratch| {
    let n_docs = rng.urange(8, 40);
    let corpus = paging::gen_corpus_with(rng, n_docs, 4, false);
    let dir = scratch.join("i");
    let index = match paging::build_index(&dir, &corpus) {
      Ok(i) => i,
      Err(e) => {
        l.inconclusive(format!("index build failed: {e:#}"));
        return;
      }
    };
    let reader = match index.reader() {
      Ok(r) => r,
      Err(e) => {
        l.inconclusive(format!("reader failed: {e:#}"));
        return;
      }
    };
    let live = corpus.live();
    let big = live.len() + 10;
    let corpus_fp = vcore::ctx::fp(&corpus.to_json().to_string());
    l.count("indexes", 1);
    let n_req = if quick { 25 } else { 30 };
    for _ in 0..n_req {
      let q: Q = if rng.chance(0.6) { paging::gen_query(rng) } else { paging::gen_opaque_query(rng) };
      let filter: Option<F> = if rng.chance(0.35) { Some(paging::gen_filter(rng)) } else { None };
      let sort = paging::gen_sort(rng);
      let exec = paging::gen_exec(rng);
      let limit = if rng.chance(0.2) { big } else { rng.urange(1, 8) };
      let mut base = json!({"query": q.to_json(), "sort": sort, "limit": limit, "return_stored": false});
      paging::apply_exec(&mut base, &exec);
      if let Some(f) = filter.as_ref() {
        base["filter"] = f.to_json();
      }
      let mut mods: Vec<&str> = Vec::new();
      if rng.chance(0.2) {
        let mut c = json!({"field": "cat"});
        if rng.chance(0.6) {
          let mut ih = json!({"size": rng.urange(0, 3)});
          if rng.chance(0.3) {
            ih["from"] = json!(rng.urange(0, 2));
          }
          if rng.chance(0.4) {
            ih["sort"] = json!(paging::gen_sort(rng));
          }
          c["inner_hits"] = ih;
        }
        base["collapse"] = c;
        mods.push("collapse");
      }
      if rng.chance(0.25) {
        base["rescore"] = json!({"window_size": rng.urange(1, 8), "query": {"type": "term", "field": *rng.pick(paging::TEXT_FIELDS), "value": *rng.pick(paging::WORDS)},
          "score_mode": *rng.pick(&["total", "multiply", "max", "min"])});
        mods.push("rescore");
      }
      if rng.chance(0.3) {
        base["aggs"] = paging::gen_aggs(rng);
        mods.push("aggs");
      }
      if rng.chance(0.15) {
        base["suggest"] = paging::gen_suggest(rng);
      }
      if rng.chance(0.3) && limit < big {
        // second page: all four variants replay the same cursor (issued by the unflagged first page)
        if let Call::Ok(p1) = paging::call(&reader, &base) {
          if let Some(c) = p1.next_cursor.clone() {
            base["cursor"] = json!(c);
            mods.push("cursor");
          }
        }
      }
      let sc = sort_class(&sort);
      let ctxs = format!("{sc}{}", mods.iter().map(|m| format!("+{m}")).collect::<String>());
      let r0 = match paging::call(&reader, &base) {
        Call::Ok(r) => Some(r),
        Call::Err(e) => {
          l.count("unflagged_rejected", 1);
          if l.inconclusive.len() < 2 {
            l.inconclusive(format!("unflagged request rejected: {e} :: {}", paging::short(&base)));
          }
          // still interesting: the flagged variants must be rejected as well
          None
        }
        Call::Panic(p) => {
          l.fail(format!("panic-unflagged:{}", vcore::ctx::panic_site(&p)), format!("request panicked: {p}"), json!({"corpus": corpus.to_json(), "request": base}));
          continue;
        }
      };
      // true match count for the `<=` judgement under pruned execution
      // Reference for the `<=` judgement under pruned execution: the total of the SAME request (same
      // cursor, rescore, collapse ...) without flags under exhaustive execution. explain legitimately
      // switches pruning off, so its total may rise up to that value. (The number of matches of the bare
      // query is not the right reference: with a cursor the total is "matches after the cursor + hits
      // returned so far", and a rescore that reorders the previous page makes that sum overshoot by itself,
      // with or without flags - observed at thorough seed 1, case 45781; outside C20.)
      let _ = (&q, &filter, big);
      let truth: Option<u64> = if exec.0 != "bm25" {
        let mut t = base.clone();
        paging::apply_exec(&mut t, &("bm25".to_string(), None));
        match paging::call(&reader, &t) {
          Call::Ok(r) => Some(r.total_hits_estimate),
          _ => None,
        }
      } else {
        None
      };
      l.count("requests", 1);
      l.count(&format!("requests[{sc}]"), 1);
      for m in mods.iter() {
        l.count(&format!("requests[+{m}]"), 1);
      }
      l.count(&format!("requests[{}]", exec.0), 1);
      if let Some(r) = r0.as_ref() {
        if r.hits.len() >= 2 {
          l.nontrivial(&(corpus_fp, base.to_string()));
        }
        if let Some(t) = truth {
          if r.total_hits_estimate > t && !mods.contains(&"collapse") {
            l.count("unflagged_total_exceeds_true(C11 territory)", 1);
          }
        }
      }
      let v0 = r0.as_ref().map(|r| view(r));
      for (e, p) in [(true, false), (false, true), (true, true)] {
        let flag = if e && p { "explain+profile" } else if e { "explain" } else { "profile" };
        let mut v = base.clone();
        v["explain"] = json!(e);
        v["profile"] = json!(p);
        let case = |extra: Value| json!({"corpus": corpus.to_json(), "request": base, "flags": {"explain": e, "profile": p}, "detail": extra});
        let r = match (paging::call(&reader, &v), r0.as_ref()) {
          (Call::Panic(pn), _) => {
            l.eval();
            l.fail(format!("panic-with-{flag}:{}", vcore::ctx::panic_site(&pn)), format!("flagged request panicked: {pn}"), case(json!(null)));
            continue;
          }
          (Call::Err(_), None) => {
            l.eval();
            l.count("both_rejected", 1);
            continue;
          }
          (Call::Err(er), Some(_)) => {
            l.eval();
            l.fail(format!("rejected-only-with-{flag}:{ctxs}:{}", paging::err_stem(&er)), format!("request succeeds without flags but fails with {flag}: {er}"), case(json!(null)));
            continue;
          }
          (Call::Ok(_), None) => {
            l.eval();
            l.fail(format!("accepted-only-with-{flag}:{ctxs}"), format!("request fails without flags but succeeds with {flag}"), case(json!(null)));
            continue;
          }
          (Call::Ok(r), Some(_)) => r,
        };
        let r0 = r0.as_ref().unwrap();
        let v0 = v0.as_ref().unwrap();
        l.eval();
        l.count(&format!("compared[{flag}]"), 1);
        let vv = view(&r);
        // ---- result-set differences (hits / inner hits / total_groups / next_cursor), classified by root cause
        let mut diffs: Vec<(&'static str, String)> = Vec::new();
        if let Some(what) = hits_diff(v0, &vv) {
          diffs.push((what, format!("{what} differ between the unflagged response and the {flag} response")));
        }
        if r0.total_groups != r.total_groups {
          diffs.push(("total_groups", format!("total_groups {:?} vs {:?}", r0.total_groups, r.total_groups)));
        }
        if r0.next_cursor != r.next_cursor {
          diffs.push(("next_cursor", format!("next_cursor {:?} vs {:?}", r0.next_cursor, r.next_cursor)));
        }
        if !diffs.is_empty() {
          let post = mods.contains(&"collapse") || mods.contains(&"rescore");
          // R2: with explain (and a sort that is not plain `_score desc`) every segment ranks ALL its live
          // matches instead of feeding the shared limit+1 heap, so collapse / rescore work on all matches.
          // Witness: the flagged response equals the UNFLAGGED request run with candidate_size >= #docs.
          let mut widened = false;
          if e && sc != "score-desc-only" && post {
            let mut wreq = base.clone();
            wreq["candidate_size"] = json!(big);
            if let Call::Ok(wr) = paging::call(&reader, &wreq) {
              let wv = view(&wr);
              // without a score key the unflagged scores are 0.0 (R1), which also reorders score-sorted inner
              // hits: compare top-level ids only there
              let ids = |v: &[HitView]| v.iter().map(|h| h.0.clone()).collect::<Vec<_>>();
              let same_hits = if sc == "sort-with-score-key" { wv == vv } else { ids(&wv) == ids(&vv) };
              widened = same_hits && wr.total_groups == r.total_groups && wr.next_cursor == r.next_cursor;
            }
          }
          // R1: a sort without a `_score` key runs match-only (score 0.0) unless explain forces scoring
          let window = base.get("rescore").and_then(|x| x.get("window_size")).and_then(|x| x.as_u64()).unwrap_or(0) as usize;
          let unscored = sc == "sort-without-score-key"
            && v0.iter().enumerate().all(|(i, h)| i < window || (f32::from_bits(h.1) == 0.0 && h.2.iter().all(|x| f32::from_bits(x.1) == 0.0)));
          for (what, msg) in diffs {
            let sig = if e && unscored && (what == "hit-scores" || what == "inner-hit-scores") {
              "explain-forces-scoring:scores-are-0-without-explain-when-the-sort-has-no-score-key".to_string()
            } else if widened {
              "explain-ranks-all-matches-per-segment:collapse-or-rescore-see-more-than-limit+1-candidates".to_string()
            } else {
              format!("{what}-differ-with-{}:{ctxs}", flag)
            };
            l.fail(sig, msg, case(json!({"difference": what, "unflagged": view_json(v0), "flagged": view_json(&vv),
              "total_groups": [r0.total_groups, r.total_groups], "next_cursor": [r0.next_cursor, r.next_cursor]})));
          }
        }
        if exec.0 == "bm25" {
          if r0.total_hits_estimate != r.total_hits_estimate {
            l.fail(
              format!("total-differs-with-{}:bm25:{ctxs}", flag),
              format!("total_hits_estimate {} vs {} under bm25", r0.total_hits_estimate, r.total_hits_estimate),
              case(json!(null)),
            );
          }
        } else if let Some(t) = truth {
          if r.total_hits_estimate > t && r0.total_hits_estimate <= t {
            l.fail(
              format!("total-exceeds-true-count-only-with-{}:{ctxs}", flag),
              format!("total_hits_estimate {} > total of the same unflagged request under exhaustive execution {t} (unflagged, pruned: {})", r.total_hits_estimate, r0.total_hits_estimate),
              case(json!(null)),
            );
          }
        }
        if let Some(d) = paging::json_diff(&paging::aggs_json(r0), &paging::aggs_json(&r), TOL, "$") {
          l.fail(format!("aggregations-differ-with-{}:{ctxs}", flag), format!("aggregations differ: {d}"), case(json!({"first_difference": d})));
        }
        if let Some(d) = paging::json_diff(&paging::suggest_json(r0), &paging::suggest_json(&r), TOL, "$") {
          l.fail(format!("suggest-differs-with-{}:{ctxs}", flag), format!("suggest differs: {d}"), case(json!({"first_difference": d})));
        }
        if e {
          for h in r.hits.iter() {
            match h.explanation.as_ref() {
              None => {
                l.fail(format!("explanation-missing:{ctxs}"), format!("hit {} has no explanation although explain=true", h.doc_id), case(json!({"hit": h.doc_id})));
                break;
              }
              Some(x) => {
                if x.final_score.to_bits() != h.score.to_bits() && !(x.final_score == h.score) {
                  l.fail(
                    format!("explanation-final_score-differs-from-hit-score:{ctxs}"),
                    format!("hit {}: explanation.final_score {} != score {}", h.doc_id, x.final_score, h.score),
                    case(json!({"hit": h.doc_id, "final_score": x.final_score, "score": h.score})),
                  );
                  break;
                }
                l.count("explanations_checked", 1);
              }
            }
          }
        } else if r.hits.iter().any(|h| h.explanation.is_some()) {
          l.count("explanation_present_without_explain", 1);
        }
        if p && r.profile.is_none() {
          l.count("profile_missing_when_requested", 1);
        }
      }
      if l.samples.is_empty() && r0.as_ref().map(|r| r.hits.len() >= 2).unwrap_or(false) {
        l.sample(json!({"request": base, "hits": v0.as_ref().map(|v| view_json(v)), "docs": live.len()}));
      }
    }
    let _ = std::fs::remove_dir_all(&dir);
  });
  std::process::exit(ctx.finish());
}
