//! C29 — Vector and hybrid search return correctly scored, filtered hits.
//! Oracle: brute force over the original documents (see `ctx.rule`). Needs `--features vectors`.
#![cfg_attr(not(feature = "vectors"), allow(unused))]

#[cfg(not(feature = "vectors"))]
fn main() {
  eprintln!("c29 must be built with `--features vectors` (searchlite-core's vector search is feature gated)");
  std::process::exit(2);
}

#[cfg(feature = "vectors")]
fn main() {
  imp::main()
}

#[cfg(feature = "vectors")]
mod imp {
  use searchlite_core::api::{Index, IndexReader};
  use serde_json::{json, Map, Value};
  use std::collections::{BTreeMap, HashMap, HashSet};
  use std::path::Path;
  use vcore::{idx, Ctx, Local, Rng};

  const WORDS: [&str; 6] = ["alpha", "beta", "gamma", "delta", "omega", "sigma"];
  const TAGS: [&str; 3] = ["red", "green", "blue"];
  const BIG: usize = 10_000;

  // ---------------------------------------------------------------- schema / documents

  #[derive(Clone, Debug)]
  pub struct VF {
    name: String,
    dim: usize,
    cosine: bool,
    /// effective neighbour limit (16 when `hnsw` is omitted: README "defaults are used when omitted")
    m: usize,
    efc: usize,
    explicit_hnsw: bool,
  }

  fn schema_json(vfs: &[VF]) -> Value {
    let vf: Vec<Value> = vfs
      .iter()
      .map(|f| {
        let mut o = Map::new();
        o.insert("name".into(), json!(f.name));
        o.insert("dim".into(), json!(f.dim));
        o.insert("metric".into(), json!(if f.cosine { "Cosine" } else { "L2" }));
        if f.explicit_hnsw {
          o.insert("hnsw".into(), json!({"m": f.m, "ef_construction": f.efc}));
        }
        Value::Object(o)
      })
      .collect();
    json!({
      "doc_id_field": "_id",
      "text_fields": [{"name":"body","analyzer":"default","stored":true,"indexed":true}],
      "keyword_fields": [
        {"name":"tag","stored":true,"indexed":true,"fast":true},
        {"name":"ver","stored":true,"indexed":true,"fast":true}
      ],
      "numeric_fields": [{"name":"n","i64":true,"fast":true,"stored":true}],
      "nested_fields": [],
      "vector_fields": vf,
    })
  }

  /// One document version that reached a segment.
  #[derive(Clone, Debug)]
  pub struct Inst {
    id: String,
    ver: String,
    words: Vec<&'static str>,
    tag: &'static str,
    n: i64,
    vecs: Vec<Option<Vec<f32>>>,
    json: Value,
    live: bool,
    seg: usize,
  }

  #[derive(Clone, Debug)]
  pub enum Op {
    Add(Inst),
    Del(String),
  }

  impl Op {
    fn json(&self) -> Value {
      match self {
        Op::Add(i) => json!({"add": i.json}),
        Op::Del(id) => json!({"delete": id}),
      }
    }
  }

  fn f32s(v: &[f32]) -> Value {
    Value::Array(v.iter().map(|x| json!(*x as f64)).collect())
  }

  fn gen_vec(rng: &mut Rng, dim: usize, style: u8) -> Vec<f32> {
    if rng.chance(0.06) {
      return vec![0.0; dim];
    }
    (0..dim)
      .map(|_| match style {
        0 => rng.range(-4, 4) as f32 * 0.5,
        1 => rng.range(-1000, 1000) as f32 / 1000.0,
        _ => rng.range(-2, 2) as f32,
      })
      .collect()
  }

  fn gen_inst(rng: &mut Rng, id: &str, ver: &str, vfs: &[VF], style: u8, p_missing: f64) -> Inst {
    let nw = rng.urange(1, 4);
    let words: Vec<&'static str> = (0..nw).map(|_| WORDS[rng.zipf(WORDS.len())]).collect();
    let tag = *rng.pick(&TAGS);
    let n = rng.range(0, 9);
    let mut m = Map::new();
    m.insert("_id".into(), json!(id));
    m.insert("ver".into(), json!(ver));
    m.insert("body".into(), json!(words.join(" ")));
    m.insert("tag".into(), json!(tag));
    m.insert("n".into(), json!(n));
    let mut vecs = Vec::new();
    for f in vfs {
      if rng.chance(p_missing) {
        if rng.chance(0.5) {
          m.insert(f.name.clone(), Value::Null);
        }
        vecs.push(None);
      } else {
        let v = gen_vec(rng, f.dim, style);
        m.insert(f.name.clone(), f32s(&v));
        vecs.push(Some(v));
      }
    }
    Inst { id: id.into(), ver: ver.into(), words, tag, n, vecs, json: Value::Object(m), live: true, seg: 0 }
  }

  // ---------------------------------------------------------------- content model

  #[derive(Clone, Debug, Default)]
  pub struct Model {
    insts: Vec<Inst>,
    nseg: usize,
  }

  impl Model {
    /// Engine semantics (writer.rs commit): ops in order; an add tombstones the committed live version and
    /// replaces a pending one; a delete drops the pending one and tombstones the committed one;
    /// the surviving pending documents form ONE new segment.
    fn apply_commit(&mut self, ops: &[Op]) {
      let mut pending: BTreeMap<String, Inst> = BTreeMap::new();
      for op in ops {
        match op {
          Op::Add(i) => {
            for x in self.insts.iter_mut() {
              if x.live && x.id == i.id {
                x.live = false;
              }
            }
            pending.insert(i.id.clone(), i.clone());
          }
          Op::Del(id) => {
            pending.remove(id);
            for x in self.insts.iter_mut() {
              if x.live && x.id == *id {
                x.live = false;
              }
            }
          }
        }
      }
      if !pending.is_empty() {
        let seg = self.nseg;
        self.nseg += 1;
        for (_, mut i) in pending {
          i.seg = seg;
          i.live = true;
          self.insts.push(i);
        }
      }
    }
    /// per segment: number of stored vectors of field `f` (deleted versions still sit in the graph)
    fn seg_counts(&self, f: usize) -> Vec<usize> {
      let mut c = vec![0usize; self.nseg];
      for i in &self.insts {
        if i.vecs[f].is_some() {
          c[i.seg] += 1;
        }
      }
      c
    }
    fn total_vectors(&self, f: usize) -> usize {
      self.seg_counts(f).iter().sum()
    }
    fn exact_regime(&self, vfs: &[VF], f: usize) -> bool {
      self.seg_counts(f).iter().all(|c| *c <= vfs[f].m)
    }
    fn live(&self) -> impl Iterator<Item = &Inst> {
      self.insts.iter().filter(|i| i.live)
    }
    fn compacted(&self) -> Model {
      let mut m = Model { insts: self.insts.iter().filter(|i| i.live).cloned().collect(), nseg: 1 };
      for i in m.insts.iter_mut() {
        i.seg = 0;
      }
      m
    }
  }

  // ---------------------------------------------------------------- filters

  #[derive(Clone, Debug)]
  pub enum Filt {
    TagEq(&'static str),
    TagIn(Vec<&'static str>),
    NRange(i64, i64),
    And(Vec<Filt>),
    Or(Vec<Filt>),
  }

  impl Filt {
    fn pass(&self, i: &Inst) -> bool {
      match self {
        Filt::TagEq(t) => i.tag == *t,
        Filt::TagIn(ts) => ts.contains(&i.tag),
        Filt::NRange(a, b) => i.n >= *a && i.n <= *b,
        Filt::And(fs) => fs.iter().all(|f| f.pass(i)),
        Filt::Or(fs) => fs.iter().any(|f| f.pass(i)),
      }
    }
    fn json(&self) -> Value {
      match self {
        Filt::TagEq(t) => json!({"KeywordEq":{"field":"tag","value":t}}),
        Filt::TagIn(ts) => json!({"KeywordIn":{"field":"tag","values":ts}}),
        Filt::NRange(a, b) => json!({"I64Range":{"field":"n","min":a,"max":b}}),
        Filt::And(fs) => json!({"And": fs.iter().map(|f| f.json()).collect::<Vec<_>>()}),
        Filt::Or(fs) => json!({"Or": fs.iter().map(|f| f.json()).collect::<Vec<_>>()}),
      }
    }
  }

  fn gen_leaf(rng: &mut Rng) -> Filt {
    match rng.below(3) {
      0 => Filt::TagEq(*rng.pick(&TAGS)),
      1 => {
        let k = rng.urange(1, 2);
        Filt::TagIn(rng.subset(TAGS.len(), k).into_iter().map(|i| TAGS[i]).collect())
      }
      _ => {
        let a = rng.range(0, 9);
        let b = rng.range(a, 9);
        Filt::NRange(a, b)
      }
    }
  }

  fn gen_filter(rng: &mut Rng) -> Filt {
    match rng.below(5) {
      0 => Filt::And(vec![gen_leaf(rng), gen_leaf(rng)]),
      1 => Filt::Or(vec![gen_leaf(rng), gen_leaf(rng)]),
      _ => gen_leaf(rng),
    }
  }

  // ---------------------------------------------------------------- requests

  #[derive(Clone, Debug)]
  pub struct Clause {
    f: usize,
    q: Vec<f32>,
    k: Option<usize>,
    alpha: Option<f32>,
    ef: Option<usize>,
    cs: Option<usize>,
    boost: Option<f32>,
  }

  impl Clause {
    fn obj(&self, vfs: &[VF], node: bool) -> Value {
      let mut o = Map::new();
      if node {
        o.insert("type".into(), json!("vector"));
      }
      o.insert("field".into(), json!(vfs[self.f].name));
      o.insert("vector".into(), f32s(&self.q));
      if let Some(k) = self.k {
        o.insert("k".into(), json!(k));
      }
      if let Some(a) = self.alpha {
        o.insert("alpha".into(), json!(a as f64));
      }
      if let Some(e) = self.ef {
        o.insert("ef_search".into(), json!(e));
      }
      if let Some(c) = self.cs {
        o.insert("candidate_size".into(), json!(c));
      }
      if let Some(b) = self.boost {
        o.insert("boost".into(), json!(b as f64));
      }
      Value::Object(o)
    }
    fn alpha_eff(&self) -> f32 {
      self.alpha.unwrap_or(0.5) // documented default blend weight DEFAULT_VECTOR_ALPHA
    }
    fn boost_eff(&self) -> f64 {
      self.boost.unwrap_or(1.0) as f64
    }
  }

  #[derive(Clone, Copy, Debug, PartialEq, Eq, Hash)]
  pub enum Form {
    Node,
    MultiShould,
    HybridTuple,
    HybridObject,
    HybridBoolMust,
  }

  impl Form {
    fn hybrid(self) -> bool {
      matches!(self, Form::HybridTuple | Form::HybridObject | Form::HybridBoolMust)
    }
    fn name(self) -> &'static str {
      match self {
        Form::Node => "vector-node",
        Form::MultiShould => "multi-clause",
        Form::HybridTuple => "hybrid-tuple",
        Form::HybridObject => "hybrid-object",
        Form::HybridBoolMust => "hybrid-bool",
      }
    }
  }

  #[derive(Clone, Debug)]
  pub struct Req {
    form: Form,
    clauses: Vec<Clause>,
    term: Option<&'static str>,
    limit: usize,
    filter: Option<Filt>,
    vfilter: Option<Filt>,
    req_cs: Option<usize>,
  }

  impl Req {
    fn json(&self, vfs: &[VF]) -> Value {
      let mut o = Map::new();
      let term = |w: &str| json!({"type":"term","field":"body","value":w});
      match self.form {
        Form::Node => {
          o.insert("query".into(), self.clauses[0].obj(vfs, true));
        }
        Form::MultiShould => {
          o.insert(
            "query".into(),
            json!({"type":"bool","should": self.clauses.iter().map(|c| c.obj(vfs, true)).collect::<Vec<_>>()}),
          );
        }
        Form::HybridTuple => {
          let c = &self.clauses[0];
          o.insert("query".into(), term(self.term.unwrap()));
          o.insert("vector_query".into(), json!([vfs[c.f].name, f32s(&c.q), c.alpha_eff() as f64]));
        }
        Form::HybridObject => {
          o.insert("query".into(), term(self.term.unwrap()));
          o.insert("vector_query".into(), self.clauses[0].obj(vfs, false));
        }
        Form::HybridBoolMust => {
          o.insert(
            "query".into(),
            json!({"type":"bool","must":[term(self.term.unwrap()), self.clauses[0].obj(vfs, true)]}),
          );
        }
      }
      o.insert("limit".into(), json!(self.limit));
      o.insert("return_stored".into(), json!(true));
      if let Some(f) = &self.filter {
        o.insert("filter".into(), f.json());
      }
      if let Some(f) = &self.vfilter {
        o.insert("vector_filter".into(), f.json());
      }
      if let Some(c) = self.req_cs {
        o.insert("candidate_size".into(), json!(c));
      }
      Value::Object(o)
    }
    fn pass_filters(&self, i: &Inst) -> bool {
      self.filter.as_ref().map(|f| f.pass(i)).unwrap_or(true) && self.vfilter.as_ref().map(|f| f.pass(i)).unwrap_or(true)
    }
  }

  // ---------------------------------------------------------------- similarity oracle

  /// cosine: dot product of the L2-normalised vectors (a zero vector stays zero => 0);
  /// L2: negative Euclidean distance. Computed in f64 from the f32 inputs.
  fn sim(vf: &VF, q: &[f32], v: &[f32]) -> f64 {
    if vf.cosine {
      let nq = q.iter().map(|x| (*x as f64) * (*x as f64)).sum::<f64>().sqrt();
      let nv = v.iter().map(|x| (*x as f64) * (*x as f64)).sum::<f64>().sqrt();
      if nq == 0.0 || nv == 0.0 {
        return 0.0;
      }
      q.iter().zip(v.iter()).map(|(a, b)| (*a as f64 / nq) * (*b as f64 / nv)).sum()
    } else {
      -q.iter().zip(v.iter()).map(|(a, b)| (*a as f64 - *b as f64).powi(2)).sum::<f64>().sqrt()
    }
  }

  fn tol(x: f64, scale: f64) -> f64 {
    1e-5 * x.abs() + 4e-6 * scale.max(1.0)
  }

  fn close(a: f64, b: f64, scale: f64) -> bool {
    (a - b).abs() <= tol(a.abs().max(b.abs()), scale)
  }

  /// blend with bm25 part `bm`: alpha>=1 => bm25 only, alpha<=0 => vector only, else alpha*bm25+(1-alpha)*vec
  fn blend(alpha: f32, bm: f64, vs: f64) -> f64 {
    if alpha >= 1.0 {
      bm
    } else if alpha <= 0.0 {
      vs
    } else {
      alpha as f64 * bm + (1.0 - alpha as f64) * vs
    }
  }

  // ---------------------------------------------------------------- engine glue

  #[derive(Clone, Debug)]
  pub struct HitV {
    id: String,
    ver: Option<String>,
    score: f64,
    vscore: Option<f64>,
  }

  fn hit_views(res: &searchlite_core::api::SearchResult) -> Vec<HitV> {
    res
      .hits
      .iter()
      .map(|h| {
        let ver = h.fields.as_ref().and_then(|f| f.get("ver")).and_then(|v| match v {
          Value::String(s) => Some(s.clone()),
          Value::Array(a) if a.len() == 1 => a[0].as_str().map(|s| s.to_string()),
          _ => None,
        });
        HitV { id: h.doc_id.clone(), ver, score: h.score as f64, vscore: h.vector_score.map(|v| v as f64) }
      })
      .collect()
  }

  fn hits_json(h: &[HitV]) -> Value {
    Value::Array(h.iter().map(|x| json!({"_id": x.id, "ver": x.ver, "_score": x.score, "vector_score": x.vscore})).collect())
  }

  /// Ok(Ok(hits)) | Ok(Err(api error)) | Err(panic)
  fn run(reader: &IndexReader, rj: &Value) -> Result<Result<Vec<HitV>, String>, String> {
    vcore::ctx::catch(|| match idx::search(reader, rj.clone()) {
      Ok(r) => Ok(hit_views(&r)),
      Err(e) => Err(format!("{e:#}")),
    })
  }

  #[derive(Debug, Clone)]
  pub struct Problem {
    kind: String,
    detail: Value,
  }

  fn p(kind: impl Into<String>, detail: Value) -> Problem {
    Problem { kind: kind.into(), detail }
  }

  pub struct Verdict {
    problems: Vec<Problem>,
    eligible: usize,
    exact: bool,
    judged_exact_set: bool,
  }

  // ---------------------------------------------------------------- judges

  /// Resolve hits to live document versions; reports unknown/dead/duplicate hits.
  fn resolve<'a>(model: &'a Model, hits: &[HitV], out: &mut Vec<Problem>) -> Vec<Option<&'a Inst>> {
    let mut seen = HashSet::new();
    let mut res = Vec::new();
    for h in hits {
      if !seen.insert(h.id.clone()) {
        out.push(p("duplicate-hit", json!({"_id": h.id})));
      }
      let inst = h.ver.as_ref().and_then(|v| model.insts.iter().find(|i| i.ver == *v && i.id == h.id));
      match inst {
        None => {
          out.push(p("unknown-hit", json!({"_id": h.id, "ver": h.ver})));
          res.push(None);
        }
        Some(i) if !i.live => {
          out.push(p("deleted-version-returned", json!({"_id": h.id, "ver": h.ver})));
          res.push(None);
        }
        Some(i) => res.push(Some(i)),
      }
    }
    res
  }

  fn check_order(hits: &[HitV], limit: usize, out: &mut Vec<Problem>) {
    if hits.len() > limit {
      out.push(p("more-hits-than-limit", json!({"hits": hits.len(), "limit": limit})));
    }
    for w in hits.windows(2) {
      if !(w[0].score >= w[1].score) {
        out.push(p("hits-not-sorted-by-score", json!({"before": w[0].score, "after": w[1].score})));
        break;
      }
    }
  }

  /// single vector clause, no text part
  fn judge_single(model: &Model, vfs: &[VF], req: &Req, hits: &[HitV]) -> Verdict {
    let mut out = Vec::new();
    let c = &req.clauses[0];
    let vf = &vfs[c.f];
    let b = c.boost_eff();
    let alpha = c.alpha_eff();
    let fin = |i: &Inst| -> (f64, f64) {
      let vs = sim(vf, &c.q, i.vecs[c.f].as_ref().unwrap()) * b;
      (vs, blend(alpha, 0.0, vs))
    };
    let elig: Vec<&Inst> = model.live().filter(|i| i.vecs[c.f].is_some() && req.pass_filters(i)).collect();
    let insts = resolve(model, hits, &mut out);
    check_order(hits, req.limit, &mut out);
    let mut lowest = f64::INFINITY;
    let mut hit_vers: HashSet<&str> = HashSet::new();
    for (h, i) in hits.iter().zip(insts.iter()) {
      let Some(i) = i else { continue };
      hit_vers.insert(i.ver.as_str());
      if i.vecs[c.f].is_none() {
        out.push(p("hit-without-vector", json!({"_id": h.id})));
        continue;
      }
      if let Some(f) = &req.filter {
        if !f.pass(i) {
          out.push(p("hit-fails-filter", json!({"_id": h.id, "tag": i.tag, "n": i.n})));
        }
      }
      if let Some(f) = &req.vfilter {
        if !f.pass(i) {
          out.push(p("hit-fails-vector_filter", json!({"_id": h.id, "tag": i.tag, "n": i.n})));
        }
      }
      let (vs, f) = fin(i);
      lowest = lowest.min(f);
      match h.vscore {
        None => out.push(p("vector_score-absent", json!({"_id": h.id, "expected": vs}))),
        Some(v) if !close(v, vs, b) => out.push(p("vector_score-mismatch", json!({"_id": h.id, "got": v, "expected": vs, "boost": b}))),
        _ => {}
      }
      if !close(h.score, f, b) {
        out.push(p("score-mismatch", json!({"_id": h.id, "got": h.score, "expected": f, "alpha": alpha, "vector_score_expected": vs})));
      }
    }
    let exact = model.exact_regime(vfs, c.f);
    let mut judged = false;
    if exact && alpha < 1.0 && out.is_empty() {
      judged = true;
      let k_eff = c.k.unwrap_or(req.limit).max(1);
      let n_min = req.limit.min(k_eff).min(elig.len());
      if hits.len() < n_min {
        let missing: Vec<Value> = elig.iter().filter(|i| !hit_vers.contains(i.ver.as_str())).take(5).map(|i| json!({"_id": i.id, "score": fin(i).1, "seg": i.seg})).collect();
        out.push(p("exact-nn-miss", json!({"why": "fewer hits than min(limit,k,eligible)", "hits": hits.len(), "expected_at_least": n_min, "eligible": elig.len(), "missing_e.g.": missing})));
      } else if !hits.is_empty() {
        let better: Vec<Value> = elig
          .iter()
          .filter(|i| !hit_vers.contains(i.ver.as_str()))
          .filter(|i| {
            let f = fin(i).1;
            f > lowest + 4.0 * tol(f.abs().max(lowest.abs()), b)
          })
          .take(5)
          .map(|i| json!({"_id": i.id, "score": fin(i).1, "seg": i.seg}))
          .collect();
        if !better.is_empty() {
          out.push(p("exact-nn-miss", json!({"why": "an eligible document scores above the lowest returned hit", "lowest_hit": lowest, "missing": better})));
        }
      }
    }
    Verdict { problems: out, eligible: elig.len(), exact, judged_exact_set: judged }
  }

  /// full-recall regime for one clause: exact regime and the request explicitly asks for at least as
  /// many candidates / as wide a beam as there are stored vectors.
  fn conservative(model: &Model, vfs: &[VF], c: &Clause) -> bool {
    let tot = model.total_vectors(c.f);
    model.exact_regime(vfs, c.f) && c.cs.map(|x| x >= tot).unwrap_or(false) && c.ef.map(|x| x >= tot).unwrap_or(true)
  }

  /// several vector clauses in bool.should, no text part
  fn judge_multi(model: &Model, vfs: &[VF], req: &Req, hits: &[HitV]) -> Verdict {
    let mut out = Vec::new();
    let n = req.clauses.len();
    let cons = req.clauses.iter().all(|c| conservative(model, vfs, c));
    let bmax = req.clauses.iter().map(|c| c.boost_eff()).fold(1.0, f64::max) * n as f64;
    let per = |i: &Inst, ci: usize| -> Option<f64> {
      let c = &req.clauses[ci];
      i.vecs[c.f].as_ref().map(|v| sim(&vfs[c.f], &c.q, v) * c.boost_eff())
    };
    let full_score = |i: &Inst| -> Option<f64> {
      let mut s = 0.0;
      for ci in 0..n {
        s += blend(req.clauses[ci].alpha_eff(), 0.0, per(i, ci)?);
      }
      Some(s / n as f64)
    };
    let elig: Vec<&Inst> = model.live().filter(|i| req.pass_filters(i) && (0..n).any(|ci| i.vecs[req.clauses[ci].f].is_some())).collect();
    let insts = resolve(model, hits, &mut out);
    check_order(hits, req.limit, &mut out);
    let mut hit_vers: HashSet<&str> = HashSet::new();
    for (h, i) in hits.iter().zip(insts.iter()) {
      let Some(i) = i else { continue };
      hit_vers.insert(i.ver.as_str());
      if !req.filter.as_ref().map(|f| f.pass(i)).unwrap_or(true) {
        out.push(p("hit-fails-filter", json!({"_id": h.id})));
      }
      if !req.vfilter.as_ref().map(|f| f.pass(i)).unwrap_or(true) {
        out.push(p("hit-fails-vector_filter", json!({"_id": h.id})));
      }
      let have: Vec<usize> = (0..n).filter(|ci| i.vecs[req.clauses[*ci].f].is_some()).collect();
      if have.is_empty() {
        out.push(p("hit-without-vector", json!({"_id": h.id})));
        continue;
      }
      let Some(v) = h.vscore else {
        out.push(p("vector_score-absent", json!({"_id": h.id})));
        continue;
      };
      // vector_score = sum over the clauses for which the document was a candidate
      let mut matches: Vec<Vec<usize>> = Vec::new();
      for mask in 1u32..(1u32 << have.len()) {
        let sub: Vec<usize> = have.iter().enumerate().filter(|(b, _)| mask & (1 << b) != 0).map(|(_, ci)| *ci).collect();
        if cons && sub.len() != have.len() {
          continue;
        }
        let s: f64 = sub.iter().map(|ci| per(i, *ci).unwrap()).sum();
        if close(v, s, bmax) {
          matches.push(sub);
        }
      }
      if matches.is_empty() {
        out.push(p("vector_score-mismatch", json!({"_id": h.id, "got": v, "per_clause_expected": (0..n).map(|ci| per(i, ci)).collect::<Vec<_>>(), "full_recall_regime": cons})));
      } else if matches.len() == 1 && matches[0].len() == n {
        // unambiguously a candidate of every clause: _score is the average of the per-clause blends
        let f = full_score(i).unwrap();
        if !close(h.score, f, bmax) {
          out.push(p("score-mismatch", json!({"_id": h.id, "got": h.score, "expected": f})));
        }
      }
      // otherwise (possibly) blended with an undocumented "missing vector" score: value not judged
    }
    let mut judged = false;
    if cons && out.is_empty() {
      judged = true;
      let want = req.limit.min(elig.len());
      if hits.len() < want {
        out.push(p("multi-clause-miss", json!({"why": "fewer hits than min(limit, eligible)", "hits": hits.len(), "eligible": elig.len()})));
      } else if let Some(last) = hits.last() {
        let better: Vec<Value> = elig
          .iter()
          .filter(|i| !hit_vers.contains(i.ver.as_str()))
          .filter_map(|i| full_score(i).map(|f| (i, f)))
          .filter(|(_, f)| *f > last.score + 4.0 * tol(f.abs().max(last.score.abs()), bmax))
          .take(5)
          .map(|(i, f)| json!({"_id": i.id, "score": f}))
          .collect();
        if !better.is_empty() {
          out.push(p("multi-clause-miss", json!({"why": "an eligible document with all clause vectors scores above the last hit", "last_hit": last.score, "missing": better})));
        }
      }
    }
    Verdict { problems: out, eligible: elig.len(), exact: cons, judged_exact_set: judged }
  }

  /// text query + one vector clause. `bm` = the engine's own score of the same request with alpha=1.0
  /// ("alpha=1.0 uses BM25 only") for every text match.
  fn judge_hybrid(model: &Model, vfs: &[VF], req: &Req, hits: &[HitV], bm: &HashMap<String, f64>) -> Verdict {
    let mut out = Vec::new();
    let c = &req.clauses[0];
    let vf = &vfs[c.f];
    let b = c.boost_eff();
    let alpha = c.alpha_eff();
    let term = req.term.unwrap();
    let text = |i: &Inst| i.words.contains(&term) && req.filter.as_ref().map(|f| f.pass(i)).unwrap_or(true);
    let vec_ok = |i: &Inst| i.vecs[c.f].is_some() && req.vfilter.as_ref().map(|f| f.pass(i)).unwrap_or(true);
    let n_text = model.live().filter(|i| text(i)).count();
    let n_docs = model.insts.len();
    let cons = conservative(model, vfs, c) && req.req_cs.map(|x| x >= n_docs).unwrap_or(false);
    // size of the engine's BM25 heap (reader.rs: plan.candidate_size.max(limit)+1) — used for labelling only
    let k_eff = c.k.unwrap_or(req.limit).max(1);
    let text_top_k = req.req_cs.unwrap_or(req.limit.max(10) * 2).max(req.limit).max(k_eff) + 1;
    let elig: Vec<&Inst> = model.live().filter(|i| text(i) && vec_ok(i)).collect();
    let insts = resolve(model, hits, &mut out);
    check_order(hits, req.limit, &mut out);
    let mut hit_vers: HashSet<&str> = HashSet::new();
    let bmax = bm.values().cloned().fold(1.0, f64::max).max(b);
    for (h, i) in hits.iter().zip(insts.iter()) {
      let Some(i) = i else { continue };
      hit_vers.insert(i.ver.as_str());
      if !i.words.contains(&term) {
        out.push(p("hybrid-hit-does-not-match-text", json!({"_id": h.id})));
        continue;
      }
      if !req.filter.as_ref().map(|f| f.pass(i)).unwrap_or(true) {
        out.push(p("hit-fails-filter", json!({"_id": h.id})));
        continue;
      }
      let Some(bm25) = bm.get(&i.id).copied() else { continue };
      if alpha >= 1.0 {
        // pure BM25: no vector search runs
        if h.vscore.is_some() {
          out.push(p("vector_score-present-with-alpha-1", json!({"_id": h.id})));
        }
        if !close(h.score, bm25, bmax) {
          out.push(p("score-mismatch", json!({"_id": h.id, "got": h.score, "expected": bm25, "alpha": alpha})));
        }
        continue;
      }
      match h.vscore {
        Some(v) => {
          if i.vecs[c.f].is_none() {
            out.push(p("hit-without-vector", json!({"_id": h.id, "vector_score": v})));
            continue;
          }
          if !req.vfilter.as_ref().map(|f| f.pass(i)).unwrap_or(true) {
            out.push(p("hit-fails-vector_filter", json!({"_id": h.id, "vector_score": v})));
            continue;
          }
          let vs = sim(vf, &c.q, i.vecs[c.f].as_ref().unwrap()) * b;
          if !close(v, vs, b) {
            out.push(p("vector_score-mismatch", json!({"_id": h.id, "got": v, "expected": vs})));
            continue;
          }
          let f = blend(alpha, bm25, vs);
          if !close(h.score, f, bmax) {
            let zero_bm = close(h.score, blend(alpha, 0.0, vs), bmax);
            out.push(p(
              if zero_bm && bm25 > 0.0 && n_text > text_top_k { "hybrid-bm25-dropped-for-text-match-outside-text-topk" } else { "score-mismatch" },
              json!({"_id": h.id, "got": h.score, "expected": f, "alpha": alpha, "bm25": bm25, "vector_score": vs, "text_matches": n_text}),
            ));
          }
        }
        None => {
          if alpha <= 0.0 {
            out.push(p("alpha0-hit-without-vector_score", json!({"_id": h.id})));
          } else if cons && vec_ok(i) {
            out.push(p("hybrid-vector-candidate-missed", json!({"_id": h.id, "why": "full-recall regime: document has a vector and passes vector_filter but carries no vector_score"})));
          }
          // otherwise a text-only hit blended with an undocumented "missing vector" score: not judged
        }
      }
    }
    let mut judged = false;
    if cons && alpha < 1.0 && out.is_empty() {
      judged = true;
      let full = |i: &Inst| -> Option<f64> {
        let bm25 = bm.get(&i.id)?;
        Some(blend(alpha, *bm25, sim(vf, &c.q, i.vecs[c.f].as_ref().unwrap()) * b))
      };
      let missing: Vec<Value> = elig
        .iter()
        .filter(|i| !hit_vers.contains(i.ver.as_str()))
        .filter_map(|i| full(i).map(|f| (i, f)))
        .filter(|(_, f)| hits.len() < req.limit || *f > hits.last().unwrap().score + 4.0 * tol(f.abs().max(hits.last().unwrap().score.abs()), bmax))
        .take(5)
        .map(|(i, f)| json!({"_id": i.id, "score": f}))
        .collect();
      if !missing.is_empty() {
        out.push(p("hybrid-miss", json!({"why": "full-recall regime: a text-matching document with a vector outranks the last hit (or the page is not full) but is absent", "missing": missing, "hits": hits.len(), "limit": req.limit})));
      }
    }
    Verdict { problems: out, eligible: elig.len(), exact: cons, judged_exact_set: judged }
  }

  // ---------------------------------------------------------------- generators

  fn gen_vfs(rng: &mut Rng, big: bool) -> Vec<VF> {
    let n = if rng.chance(0.45) { 2 } else { 1 };
    (0..n)
      .map(|i| {
        let explicit = !rng.chance(0.15);
        let m = if !explicit {
          16
        } else if big {
          rng.urange(24, 64)
        } else {
          rng.urange(2, 16)
        };
        VF {
          name: if i == 0 { "va".into() } else { "vb".into() },
          dim: if rng.chance(0.15) { 1 } else { rng.urange(1, 8) },
          cosine: rng.chance(0.5),
          m,
          efc: *rng.pick(&[1usize, 4, 16, 64, 100]),
          explicit_hnsw: explicit,
        }
      })
      .collect()
  }

  fn gen_commits(rng: &mut Rng, vfs: &[VF], quick: bool) -> Vec<Vec<Op>> {
    let style = rng.below(3) as u8;
    let p_missing = *rng.pick(&[0.0, 0.1, 0.25, 0.5]);
    let ncommits = rng.urange(1, 4);
    let mmin = vfs.iter().map(|f| f.m).min().unwrap();
    // about half of the indexes stay in the exact regime (every segment <= m vectors)
    let small = rng.chance(0.55);
    let cap = if quick { 40 } else { 70 };
    let mut ids: Vec<String> = Vec::new();
    let mut next_id = 0usize;
    let mut ver = 0usize;
    let mut commits = Vec::new();
    for ci in 0..ncommits {
      let n_add = if small { rng.urange(1, mmin.max(1)) } else { rng.urange(1, (mmin * 3).clamp(6, cap)) };
      let mut ops = Vec::new();
      for _ in 0..n_add {
        let id = if ci > 0 && !ids.is_empty() && rng.chance(0.3) {
          rng.pick(&ids).clone() // upsert
        } else {
          next_id += 1;
          let id = format!("d{next_id}");
          ids.push(id.clone());
          id
        };
        ver += 1;
        ops.push(Op::Add(gen_inst(rng, &id, &format!("{id}v{ver}"), vfs, style, p_missing)));
        if rng.chance(0.05) {
          ops.push(Op::Del(id.clone())); // add then delete inside one batch
        }
      }
      if ci > 0 {
        let nd = rng.zipf(1 + ids.len() / 2);
        for _ in 0..nd {
          let at = rng.usize(ops.len() + 1);
          ops.insert(at, Op::Del(rng.pick(&ids).clone()));
        }
      }
      commits.push(ops);
    }
    if rng.chance(0.4) && !ids.is_empty() {
      // a deletes-only commit (creates no segment)
      let nd = rng.urange(1, (ids.len() / 3).max(1));
      commits.push((0..nd).map(|_| Op::Del(rng.pick(&ids).clone())).collect());
    }
    commits
  }

  fn gen_query_vec(rng: &mut Rng, model: &Model, f: usize, dim: usize) -> Vec<f32> {
    let with: Vec<&Inst> = model.insts.iter().filter(|i| i.vecs[f].is_some()).collect();
    match rng.below(10) {
      0 => vec![0.0; dim],
      1..=4 if !with.is_empty() => (*rng.pick(&with)).vecs[f].clone().unwrap(),
      5..=6 if !with.is_empty() => (*rng.pick(&with)).vecs[f].as_ref().unwrap().iter().map(|x| x + rng.range(-3, 3) as f32 * 0.125).collect(),
      _ => (0..dim).map(|_| rng.range(-16, 16) as f32 * 0.125).collect(),
    }
  }

  fn gen_clause(rng: &mut Rng, model: &Model, vfs: &[VF], f: usize, hybrid: bool, full_recall: bool) -> Clause {
    let tot = model.total_vectors(f);
    let small = |rng: &mut Rng| -> Option<usize> {
      match rng.below(4) {
        0 => None,
        1 => Some(rng.urange(1, 3)),
        2 => Some(rng.urange(1, 12)),
        _ => Some(rng.urange(20, 200)),
      }
    };
    let alpha = if hybrid {
      *rng.pick(&[None, Some(0.0f32), Some(0.25), Some(0.5), Some(0.9), Some(1.0)])
    } else {
      *rng.pick(&[None, Some(0.0f32), Some(0.0), Some(0.25), Some(0.7)])
    };
    Clause {
      f,
      q: gen_query_vec(rng, model, f, vfs[f].dim),
      k: small(rng),
      alpha,
      ef: if full_recall { *rng.pick(&[None, Some(tot + 7)]) } else { small(rng) },
      cs: if full_recall { Some(tot + rng.urange(0, 5)) } else { small(rng) },
      boost: *rng.pick(&[None, None, Some(1.0f32), Some(0.5), Some(2.0), Some(3.5), Some(0.0)]),
    }
  }

  fn gen_req(rng: &mut Rng, model: &Model, vfs: &[VF], only_simple: bool) -> Req {
    let form = if only_simple {
      Form::Node
    } else {
      match rng.below(20) {
        0..=8 => Form::Node,
        9..=11 => Form::MultiShould,
        12..=14 => Form::HybridTuple,
        15..=17 => Form::HybridObject,
        _ => Form::HybridBoolMust,
      }
    };
    let full_recall = rng.chance(if form == Form::Node { 0.15 } else { 0.5 });
    let nf = vfs.len();
    let clauses = match form {
      Form::MultiShould => {
        let nc = rng.urange(2, 3);
        let mut v = Vec::new();
        for _ in 0..nc {
          let f = rng.usize(nf);
          v.push(gen_clause(rng, model, vfs, f, false, full_recall));
        }
        v
      }
      _ => {
        let f = rng.usize(nf);
        vec![gen_clause(rng, model, vfs, f, form.hybrid(), full_recall)]
      }
    };
    let mut clauses: Vec<Clause> = clauses;
    if form == Form::HybridTuple {
      let c = &mut clauses[0];
      c.k = None;
      c.ef = None;
      c.cs = None;
      c.boost = None;
      c.alpha = Some(c.alpha_eff());
    }
    Req {
      form,
      clauses,
      term: if form.hybrid() { Some(WORDS[rng.zipf(WORDS.len())]) } else { None },
      limit: if rng.chance(0.2) { rng.urange(1, 3) } else { rng.urange(1, 15) },
      filter: if rng.chance(0.35) { Some(gen_filter(rng)) } else { None },
      vfilter: if rng.chance(0.3) { Some(gen_filter(rng)) } else { None },
      req_cs: if form.hybrid() && full_recall {
        Some(model.insts.len() + rng.urange(0, 9))
      } else {
        match rng.below(4) {
          0 => Some(rng.urange(1, 4)),
          1 => Some(rng.urange(5, 60)),
          _ => None,
        }
      },
    }
  }

  // ---------------------------------------------------------------- one index

  pub struct Built {
    index: Index,
    model: Model,
  }

  fn build(dir: &Path, in_memory: bool, vfs: &[VF], commits: &[Vec<Op>]) -> Result<Built, String> {
    let _ = std::fs::remove_dir_all(dir);
    std::fs::create_dir_all(dir).map_err(|e| e.to_string())?;
    let sch = idx::schema(&schema_json(vfs)).map_err(|e| format!("schema: {e:#}"))?;
    let index = Index::create(dir, sch, idx::opts(dir, in_memory)).map_err(|e| format!("create: {e:#}"))?;
    let mut model = Model::default();
    {
      let mut w = index.writer().map_err(|e| format!("writer: {e:#}"))?;
      for ops in commits {
        for op in ops {
          match op {
            Op::Add(i) => {
              w.add_document(&idx::doc(&i.json)).map_err(|e| format!("add: {e:#}"))?;
            }
            Op::Del(id) => w.delete_document(id).map_err(|e| format!("delete: {e:#}"))?,
          }
        }
        w.commit().map_err(|e| format!("commit: {e:#}"))?;
        model.apply_commit(ops);
      }
    }
    Ok(Built { index, model })
  }

  fn case_json(vfs: &[VF], commits: &[Vec<Op>], in_memory: bool, reopened: bool, compacted: bool) -> Value {
    json!({
      "schema": schema_json(vfs),
      "storage": if in_memory { "InMemory" } else { "Filesystem" },
      "reopened_before_search": reopened,
      "compacted_before_search": compacted,
      "commits": commits.iter().map(|ops| ops.iter().map(|o| o.json()).collect::<Vec<_>>()).collect::<Vec<_>>(),
    })
  }

  /// reference BM25 score of every text match: the same request with alpha = 1.0 and a huge page
  fn bm25_reference(reader: &IndexReader, vfs: &[VF], req: &Req) -> Result<HashMap<String, f64>, String> {
    let mut r = req.clone();
    for c in r.clauses.iter_mut() {
      c.alpha = Some(1.0);
      c.k = None;
      c.cs = None;
      c.ef = None;
    }
    r.limit = BIG;
    r.req_cs = None;
    r.vfilter = None;
    match run(reader, &r.json(vfs)) {
      Ok(Ok(h)) => Ok(h.into_iter().map(|x| (x.id, x.score)).collect()),
      Ok(Err(e)) => Err(e),
      Err(pn) => Err(pn),
    }
  }

  fn judge(model: &Model, vfs: &[VF], req: &Req, hits: &[HitV], bm: Option<&HashMap<String, f64>>) -> Verdict {
    match req.form {
      Form::Node => judge_single(model, vfs, req, hits),
      Form::MultiShould => judge_multi(model, vfs, req, hits),
      _ => judge_hybrid(model, vfs, req, hits, bm.unwrap()),
    }
  }

  /// Root-cause attribution for an exact-regime miss of a single-clause vector-only request:
  /// which parameter has to be raised for the miss to disappear, cross-checked with the structure of the case.
  /// `beam_evidence`: some eligible document that is absent from the hits could not have been left out of a
  /// correct per-segment top-k fetch (fewer than `search_k` vectors of its segment score at least as well, ties
  /// included). Without it the miss is explained by ineligible (deleted / filtered) vectors taking fetch slots;
  /// raising ef_search may then still "fix" it by reshuffling equal-scored vectors, which is not the beam defect.
  fn classify_exact_miss(reader: &IndexReader, model: &Model, vfs: &[VF], req: &Req, after_compact: bool, hits: &[HitV]) -> (String, Value) {
    let c = &req.clauses[0];
    let counts = model.seg_counts(c.f);
    // effective engine parameters (reader.rs build_vector_plan) — used for labelling only, never for the verdict
    let k_eff = c.k.unwrap_or(req.limit).max(1);
    let cs_eff = c.cs.unwrap_or(k_eff.max(req.limit).max(10) * 2).max(k_eff);
    let ef_eff = c.ef.unwrap_or(cs_eff.max(40));
    let mut beam_narrow = false;
    let mut topk_postfilter = false;
    for (s, n) in counts.iter().enumerate() {
      let search_k = cs_eff.min(*n);
      if ef_eff.max(search_k) < *n {
        beam_narrow = true;
      }
      let inelig = model.insts.iter().any(|i| i.seg == s && i.vecs[c.f].is_some() && !(i.live && req.pass_filters(i)));
      if search_k < *n && inelig {
        topk_postfilter = true;
      }
    }
    let hit_vers: HashSet<&str> = hits.iter().filter_map(|h| h.ver.as_deref()).collect();
    let vf = &vfs[c.f];
    let beam_evidence = model.live().filter(|d| d.vecs[c.f].is_some() && req.pass_filters(d) && !hit_vers.contains(d.ver.as_str())).any(|d| {
      let sd = sim(vf, &c.q, d.vecs[c.f].as_ref().unwrap());
      let others = model
        .insts
        .iter()
        .filter(|i| i.seg == d.seg && i.ver != d.ver)
        .filter_map(|i| i.vecs[c.f].as_ref())
        .filter(|v| sim(vf, &c.q, v) >= sd - 4.0 * tol(sd, 1.0))
        .count();
      others < cs_eff.min(counts[d.seg])
    });
    let rerun = |r: &Req| -> Option<bool> {
      match run(reader, &r.json(vfs)) {
        Ok(Ok(h)) => Some(judge_single(model, vfs, r, &h).problems.is_empty()),
        _ => None,
      }
    };
    let mut r1 = req.clone();
    r1.clauses[0].ef = Some(65_536);
    let fixed_by_ef = rerun(&r1);
    let mut r2 = r1.clone();
    r2.clauses[0].cs = Some(10_000);
    let fixed_by_cs = rerun(&r2);
    let detail = json!({"segment_vector_counts": counts, "m": vfs[c.f].m, "k_eff": k_eff, "candidate_size_eff": cs_eff, "ef_search_eff": ef_eff,
      "beam_narrower_than_a_segment": beam_narrow, "per_segment_topk_smaller_than_segment_with_ineligible_vectors": topk_postfilter,
      "fixed_by_raising_ef_search": fixed_by_ef, "fixed_by_also_raising_candidate_size": fixed_by_cs, "after_compact": after_compact, "missing_document_inside_a_correct_per_segment_topk": beam_evidence});
    let sig = if after_compact && fixed_by_cs == Some(false) {
      // does the field hold any vector at all after compaction?
      let probe = json!({"query": {"type":"vector","field": vfs[c.f].name, "vector": f32s(&c.q), "k": 1000, "candidate_size": 10000, "ef_search": 65536, "alpha": 0.0}, "limit": BIG, "return_stored": true});
      match run(reader, &probe) {
        Ok(Ok(h)) if h.is_empty() && model.live().any(|i| i.vecs[c.f].is_some()) => "compact-drops-vectors".to_string(),
        _ => "unclassified:exact-nn-miss-after-compact".to_string(),
      }
    } else if fixed_by_ef == Some(true) && beam_narrow && beam_evidence {
      "exact-nn-miss:ef_search-below-segment-vector-count".to_string()
    } else if (fixed_by_ef == Some(false) || !beam_evidence) && fixed_by_cs == Some(true) && topk_postfilter {
      "exact-nn-miss:deleted-or-filtered-vectors-consume-per-segment-topk".to_string()
    } else if fixed_by_ef == Some(true) && beam_narrow {
      "exact-nn-miss:ef_search-below-segment-vector-count".to_string()
    } else {
      format!("unclassified:exact-nn-miss:beam={beam_narrow}:postfilter={topk_postfilter}:ef_fix={fixed_by_ef:?}:cs_fix={fixed_by_cs:?}")
    };
    (sig, detail)
  }

  fn signature(pr: &Problem, req: &Req, vfs: &[VF]) -> String {
    let metric = if vfs[req.clauses[0].f].cosine { "cosine" } else { "l2" };
    match pr.kind.as_str() {
      "vector_score-mismatch" | "score-mismatch" => format!("{}:{}:{}", pr.kind, req.form.name(), metric),
      "hybrid-bm25-dropped-for-text-match-outside-text-topk" => pr.kind.clone(),
      k => format!("{}:{}", k, req.form.name()),
    }
  }

  #[allow(clippy::too_many_arguments)]
  fn eval_request(l: &mut Local, reader: &IndexReader, model: &Model, vfs: &[VF], req: &Req, case: &Value, after_compact: bool) {
    let rj = req.json(vfs);
    let bm = if req.form.hybrid() {
      match bm25_reference(reader, vfs, req) {
        Ok(m) => {
          // the text side is not this property's business: only use it when it agrees with the trivial text oracle
          let term = req.term.unwrap();
          let want: HashSet<&str> = model.live().filter(|i| i.words.contains(&term) && req.filter.as_ref().map(|f| f.pass(i)).unwrap_or(true)).map(|i| i.id.as_str()).collect();
          let got: HashSet<&str> = m.keys().map(|s| s.as_str()).collect();
          if want != got {
            l.inconclusive(format!("text-only reference run disagrees with the term oracle ({} vs {} docs): hybrid request skipped", got.len(), want.len()));
            return;
          }
          Some(m)
        }
        Err(e) => {
          l.inconclusive(format!("text-only reference run failed: {e}"));
          return;
        }
      }
    } else {
      None
    };
    let hits = match run(reader, &rj) {
      Err(pn) => {
        l.eval();
        l.fail(format!("panic:{}", vcore::ctx::panic_site(&pn)), format!("search panicked: {pn}"), json!({"index": case, "request": rj}));
        return;
      }
      Ok(Err(e)) => {
        l.eval();
        l.fail(format!("valid-request-rejected:{}", req.form.name()), format!("well-formed vector request failed: {e}"), json!({"index": case, "request": rj, "error": e}));
        return;
      }
      Ok(Ok(h)) => h,
    };
    l.eval();
    let v = judge(model, vfs, req, &hits, bm.as_ref());
    l.count(&format!("requests[{}]", req.form.name()), 1);
    l.count("hits_checked", hits.len() as u64);
    if hits.iter().any(|h| h.vscore.is_some()) {
      l.count("requests_with_vector_scored_hits", 1);
    }
    if v.exact {
      l.count(if req.form == Form::Node { "requests_exact_regime" } else { "requests_full_recall_regime" }, 1);
    }
    if v.judged_exact_set {
      l.count("requests_result_set_judged_complete", 1);
    }
    if req.filter.is_some() {
      l.count("requests_with_filter", 1);
    }
    if req.vfilter.is_some() {
      l.count("requests_with_vector_filter", 1);
    }
    let n_live = model.live().count();
    if v.eligible > 0 && (v.eligible < n_live || v.eligible > req.limit) {
      l.nontrivial(&serde_json::to_string(&json!([case, rj])).unwrap());
    }
    if l.samples.len() < 3 && v.eligible > 1 && !hits.is_empty() {
      l.sample(json!({"schema_vector_fields": schema_json(vfs)["vector_fields"], "segments": model.nseg, "documents": model.insts.len(), "live": n_live,
        "request": rj, "oracle_eligible": v.eligible, "exact_regime": v.exact, "hits": hits_json(&hits)}));
    }
    let mut done: HashSet<String> = HashSet::new();
    for pr in v.problems.iter() {
      let (sig, extra) = if pr.kind == "exact-nn-miss" {
        classify_exact_miss(reader, model, vfs, req, after_compact, &hits)
      } else {
        (signature(pr, req, vfs), Value::Null)
      };
      if !done.insert(sig.clone()) {
        continue;
      }
      l.fail(
        sig,
        format!("{} ({})", pr.kind, req.form.name()),
        json!({"index": case, "request": rj, "problem": pr.kind, "detail": pr.detail, "classification": extra, "hits": hits_json(&hits),
          "segment_vector_counts": (0..vfs.len()).map(|f| model.seg_counts(f)).collect::<Vec<_>>()}),
      );
    }
  }

  fn wrong_dim_query(l: &mut Local, rng: &mut Rng, reader: &IndexReader, model: &Model, vfs: &[VF], case: &Value) {
    let mut req = gen_req(rng, model, vfs, false);
    let ci = rng.usize(req.clauses.len());
    let dim = vfs[req.clauses[ci].f].dim;
    let bad = match rng.below(4) {
      0 => 0,
      1 if dim > 1 => dim - 1,
      2 => dim + 1,
      _ => dim + rng.urange(1, 9),
    };
    req.clauses[ci].q = (0..bad).map(|_| rng.range(-4, 4) as f32 * 0.5).collect();
    let rj = req.json(vfs);
    l.eval();
    l.count("wrong_dimension_queries", 1);
    match run(reader, &rj) {
      Ok(Err(_)) => {}
      Ok(Ok(h)) => l.fail(
        format!("wrong-dimension-query-accepted:{}", req.form.name()),
        format!("query vector of dimension {bad} accepted for a field of dimension {dim}"),
        json!({"index": case, "request": rj, "hits": hits_json(&h)}),
      ),
      Err(pn) => l.fail(
        format!("wrong-dimension-query-panics:{}", vcore::ctx::panic_site(&pn)),
        format!("query vector of dimension {bad} (field dimension {dim}) panics: {pn}"),
        json!({"index": case, "request": rj}),
      ),
    }
  }

  /// Wrong-dimension document vectors must be rejected (at add or at commit) and never become searchable.
  fn wrong_dim_document(l: &mut Local, rng: &mut Rng, index: &Index, vfs: &[VF], case: &Value) {
    let f = rng.usize(vfs.len());
    let dim = vfs[f].dim;
    let bad = match rng.below(3) {
      0 => 0,
      1 if dim > 1 => dim - 1,
      _ => dim + rng.urange(1, 3),
    };
    let mut inst = gen_inst(rng, "baddim", "baddimv0", vfs, 0, 0.0);
    let v: Vec<f32> = (0..bad).map(|_| 1.0).collect();
    inst.json.as_object_mut().unwrap().insert(vfs[f].name.clone(), f32s(&v));
    l.eval();
    l.count("wrong_dimension_documents", 1);
    let r = vcore::ctx::catch(|| -> Result<&'static str, String> {
      let mut w = index.writer().map_err(|e| format!("writer: {e:#}"))?;
      if w.add_document(&idx::doc(&inst.json)).is_err() {
        return Ok("add");
      }
      let r = w.commit();
      let _ = w.rollback();
      Ok(if r.is_err() { "commit" } else { "never" })
    });
    let cj = json!({"index": case, "document": inst.json, "field": vfs[f].name, "field_dim": dim, "vector_dim": bad});
    match r {
      Err(pn) => l.fail(format!("wrong-dimension-document-panics:{}", vcore::ctx::panic_site(&pn)), format!("panic: {pn}"), cj),
      Ok(Err(e)) => l.inconclusive(format!("wrong-dimension document step could not run: {e}")),
      Ok(Ok(stage)) => {
        l.count(&format!("wrong_dimension_document_rejected_at[{stage}]"), 1);
        let visible = index
          .reader()
          .ok()
          .and_then(|r| idx::search(&r, json!({"query":{"type":"match_all"},"limit":BIG,"return_stored":false})).ok())
          .map(|r| r.hits.iter().any(|h| h.doc_id == "baddim"))
          .unwrap_or(false);
        if stage == "never" || visible {
          l.fail("wrong-dimension-document-accepted", format!("document with a {bad}-dimensional vector in a {dim}-dimensional field was accepted (visible afterwards: {visible})"), cj);
        }
      }
    }
  }

  #[allow(clippy::too_many_arguments)]
  fn run_index(l: &mut Local, rng: &mut Rng, scratch: &Path, vfs: &[VF], commits: &[Vec<Op>], reqs: Option<Vec<Req>>, n_req: usize, in_memory: bool, reopen: bool, compact: bool, dim_doc: bool) {
    let dir = scratch.join("idx");
    let mut case = case_json(vfs, commits, in_memory, reopen, false);
    let built = match vcore::ctx::catch(|| build(&dir, in_memory, vfs, commits)) {
      Ok(Ok(b)) => b,
      Ok(Err(e)) => {
        l.eval();
        l.fail(format!("valid-documents-rejected:{}", e.split(':').next().unwrap_or("?")), format!("building the index failed: {e}"), case);
        return;
      }
      Err(pn) => {
        l.eval();
        l.fail(format!("panic:{}", vcore::ctx::panic_site(&pn)), format!("building the index panicked: {pn}"), case);
        return;
      }
    };
    let Built { mut index, model } = built;
    if reopen && !in_memory {
      drop(index);
      index = match Index::open(idx::opts(&dir, false)) {
        Ok(i) => i,
        Err(e) => {
          l.inconclusive(format!("reopen failed: {e:#}"));
          return;
        }
      };
      l.count("indexes_reopened", 1);
    }
    l.count("indexes", 1);
    l.count(if in_memory { "indexes_inmemory" } else { "indexes_filesystem" }, 1);
    l.count("segments", model.nseg as u64);
    if model.nseg > 1 {
      l.count("indexes_multi_segment", 1);
    }
    if model.insts.iter().any(|i| !i.live) {
      l.count("indexes_with_deleted_versions", 1);
    }
    if model.insts.iter().any(|i| i.vecs.iter().any(|v| v.is_none())) {
      l.count("indexes_with_missing_vectors", 1);
    }
    if (0..vfs.len()).all(|f| model.exact_regime(vfs, f)) {
      l.count("indexes_all_segments_within_m", 1);
    }
    let reader = match index.reader() {
      Ok(r) => r,
      Err(e) => {
        l.eval();
        l.fail("reader-open-failed", format!("{e:#}"), case);
        return;
      }
    };
    match reqs.as_ref() {
      Some(rs) => {
        if !compact {
          for r in rs.iter() {
            eval_request(l, &reader, &model, vfs, r, &case, false);
          }
        }
      }
      None => {
        for _ in 0..n_req {
          if rng.chance(0.06) {
            wrong_dim_query(l, rng, &reader, &model, vfs, &case);
          } else {
            let r = gen_req(rng, &model, vfs, false);
            eval_request(l, &reader, &model, vfs, &r, &case, false);
          }
        }
      }
    }
    drop(reader);
    if compact && model.nseg > 1 {
      match vcore::ctx::catch(|| index.compact()) {
        Ok(Ok(())) => {
          l.count("indexes_compacted", 1);
          case = case_json(vfs, commits, in_memory, reopen, true);
          let cm = model.compacted();
          if let Ok(reader) = index.reader() {
            if let Some(rs) = reqs.as_ref() {
              for r in rs.iter() {
                eval_request(l, &reader, &cm, vfs, r, &case, true);
              }
            } else {
              for _ in 0..(n_req / 4).max(3) {
                let r = gen_req(rng, &cm, vfs, true);
                eval_request(l, &reader, &cm, vfs, &r, &case, true);
              }
            }
          }
        }
        Ok(Err(e)) => l.inconclusive(format!("compact failed: {e:#}")),
        Err(pn) => l.inconclusive(format!("compact panicked: {pn}")),
      }
    }
    if dim_doc {
      wrong_dim_document(l, rng, &index, vfs, &case);
    }
    drop(index);
    let _ = std::fs::remove_dir_all(&dir);
  }

  pub fn main() {
    let args: Vec<String> = std::env::args().skip(1).collect();
    let mut ctx = Ctx::from_args("C29", "exploration", &args);
    ctx.rule = "seeded indexes: 1-2 vector fields (dimension 1-8, Cosine/L2, hnsw.m 2-16, sometimes 24-64 or omitted), 1-4 add commits plus deletes-only commits, missing/null vectors, zero vectors, upserts and deletions, Filesystem (optionally reopened) or InMemory storage, optional compaction; per index a batch of vector-only node, multi-clause bool.should, and hybrid (vector_query tuple / object, bool.must[term, vector]) requests with random k, candidate_size, ef_search, boost, alpha, limit, filter and vector_filter, plus wrong-dimension queries and documents. Every hit is resolved (through a stored per-version marker) to the original JSON document and compared with a brute-force oracle: live, has a vector in the queried field, passes filter and vector_filter, vector_score = cosine (dot of normalised vectors) or -L2 distance times boost, _score = alpha*bm25 + (1-alpha)*vector_score (alpha 0/1 short-cuts, averaged over clauses), hits sorted by _score; when every segment holds <= hnsw.m vectors of the field the returned set must be the oracle's top-N (epsilon ties tolerated) with N >= min(limit,k,eligible). evaluations = judged requests (incl. wrong-dimension probes); a request is non-trivial (counted once by hash of index+request) when the oracle's eligible set is non-empty and either smaller than the live set or larger than the page.".into();
    ctx.assumptions = vec![
      "storage is healthy; one writer; no concurrent activity".into(),
      "scores are compared with 1e-5 relative + 4e-6*max(1,boost) absolute tolerance (engine computes in f32); set comparisons tolerate ties within 4x that".into(),
      "cosine similarity involving a zero vector is taken to be 0 (normalisation leaves a zero vector unchanged)".into(),
      "vector-only requests with alpha omitted use the default alpha 0.5, i.e. _score = 0.5*vector_score; alpha=1 is not generated for vector-only requests (all scores 0, order undefined)".into(),
      "ANN recall is not judged outside the exact regime (some segment holds more than hnsw.m vectors): there only per-hit correctness and ordering are judged".into(),
      "whether `k` caps the number of hits below `limit` is not documented: a result may hold between min(limit,k,eligible) and limit hits".into(),
      "hybrid: the BM25 part is the engine's own _score for the same request with alpha=1.0 (documented as BM25 only), used only when its hit set equals the trivial term oracle; hits without vector_score for 0<alpha<1 (text-only matches blended with an undocumented 'missing vector' score) are checked for liveness/text/filter only".into(),
      "multi-clause: vector_score is taken to be the sum of the per-clause similarities*boost for the clauses in which the document is a candidate; _score is judged only for hits that are candidates in all clauses (average of the per-clause blends); result-set completeness only in the full-recall regime (exact regime, explicit candidate_size >= stored vectors)".into(),
      "hybrid result-set completeness only in the full-recall regime and only for documents that have a vector and pass vector_filter".into(),
    ];
    let quick = ctx.quick();
    // directed minimal scenarios (deterministic), then the random exploration
    ctx.run_cases("directed", directed_count(), |rng: &mut Rng, l: &mut Local, scratch| {
      let (vfs, commits, reqs, compact) = directed(l.case_idx);
      l.count("directed_scenarios", 1);
      run_index(l, rng, scratch, &vfs, &commits, Some(reqs), 0, true, false, compact, false);
    });
    let n = ctx.n(260, 40_000);
    ctx.run_cases("idx", n, |rng: &mut Rng, l: &mut Local, scratch| {
      let big = rng.chance(0.12);
      let vfs = gen_vfs(rng, big);
      let commits = gen_commits(rng, &vfs, quick);
      let in_memory = rng.chance(0.5);
      let reopen = rng.chance(0.4);
      let compact = rng.chance(0.12);
      let dim_doc = rng.chance(0.3);
      let n_req = if quick { 24 } else { 40 };
      run_index(l, rng, scratch, &vfs, &commits, None, n_req, in_memory, reopen, compact, dim_doc);
    });
    std::process::exit(ctx.finish());
  }

  // ---------------------------------------------------------------- directed scenarios

  fn directed_count() -> u64 {
    7
  }

  fn mk(id: &str, body: &[&'static str], tag: &'static str, v: f32) -> Op {
    let vecs = vec![Some(vec![v])];
    let json = json!({"_id": id, "ver": format!("{id}v1"), "body": body.join(" "), "tag": tag, "n": 1, "va": [v as f64]});
    Op::Add(Inst { id: id.into(), ver: format!("{id}v1"), words: body.to_vec(), tag, n: 1, vecs, json, live: true, seg: 0 })
  }

  /// Minimal, deterministic witnesses of the known findings (1-dimensional L2 field `va`).
  fn directed(i: u64) -> (Vec<VF>, Vec<Vec<Op>>, Vec<Req>, bool) {
    let vf = |m: Option<usize>| VF { name: "va".into(), dim: 1, cosine: false, m: m.unwrap_or(16), efc: 64, explicit_hnsw: m.is_some() };
    let clause = |q: f32| Clause { f: 0, q: vec![q], k: None, alpha: Some(0.0), ef: None, cs: None, boost: None };
    let node = |c: Clause, limit: usize| Req { form: Form::Node, clauses: vec![c], term: None, limit, filter: None, vfilter: None, req_cs: None };
    match i {
      // beam bound not refreshed while scanning a node's neighbours: explicit small ef_search
      0 => {
        let c = Clause { k: Some(2), ef: Some(1), cs: Some(2), ..clause(0.4) };
        (vec![vf(None)], vec![vec![mk("a", &["alpha"], "red", 0.0), mk("b", &["alpha"], "red", -1.0), mk("c", &["alpha"], "red", 1.5)]], vec![node(c, 2)], false)
      }
      // same with default parameters: 45 vectors in one segment, m = 64, limit 5 (default beam 40 < 45)
      1 => {
        let mut ops = vec![mk("d00", &["alpha"], "red", 0.0)];
        for j in 1..40 {
          ops.push(mk(&format!("d{j:02}"), &["alpha"], "red", -10.0 - j as f32 * 0.01));
        }
        for j in 40..45 {
          ops.push(mk(&format!("d{j:02}"), &["alpha"], "red", 10.5 + (j - 40) as f32 * 0.01));
        }
        (vec![vf(Some(64))], vec![ops], vec![node(clause(0.4), 5)], false)
      }
      // deleted vectors use up the per-segment top-k: explicit candidate_size
      2 => {
        let c = Clause { k: Some(2), cs: Some(2), ..clause(0.0) };
        (
          vec![vf(None)],
          vec![vec![mk("a", &["alpha"], "red", 0.0), mk("b", &["alpha"], "red", 1.0), mk("c", &["alpha"], "red", 5.0)], vec![Op::Del("a".into()), Op::Del("b".into())]],
          vec![node(c, 2)],
          false,
        )
      }
      // filtered-out vectors use up the per-segment top-k with default parameters (20 candidates)
      3 => {
        let mut ops: Vec<Op> = (0..25).map(|j| mk(&format!("r{j:02}"), &["alpha"], "red", j as f32 * 0.01)).collect();
        ops.push(mk("z", &["alpha"], "blue", 9.0));
        let mut r = node(clause(0.0), 5);
        r.filter = Some(Filt::TagEq("blue"));
        (vec![vf(Some(32))], vec![ops], vec![r], false)
      }
      // hybrid: a text match outside the BM25 heap is blended with bm25 = 0 (explicit candidate_size)
      4 => {
        let ops = vec![mk("x", &["alpha", "beta", "beta", "beta"], "red", 0.0), mk("y", &["alpha"], "red", 10.0), mk("z", &["alpha"], "red", 10.0)];
        let c = Clause { alpha: Some(0.5), ..clause(0.0) };
        let r = Req { form: Form::HybridObject, clauses: vec![c], term: Some("alpha"), limit: 1, filter: None, vfilter: None, req_cs: Some(1) };
        (vec![vf(None)], vec![ops], vec![r], false)
      }
      // same with default parameters: 23 text matches, limit 5 (BM25 heap holds 21)
      5 => {
        let mut ops: Vec<Op> = (0..22).map(|j| mk(&format!("t{j:02}"), &["alpha"], "red", 10.0 + j as f32 * 0.01)).collect();
        ops.push(mk("x", &["alpha", "beta", "beta", "beta"], "red", 0.0));
        let c = Clause { alpha: Some(0.5), ..clause(0.0) };
        let r = Req { form: Form::HybridTuple, clauses: vec![c], term: Some("alpha"), limit: 5, filter: None, vfilter: None, req_cs: None };
        (vec![vf(Some(32))], vec![ops], vec![r], false)
      }
      // compaction rebuilds segments from the docstore, which does not hold vectors
      _ => (
        vec![vf(None)],
        vec![vec![mk("a", &["alpha"], "red", 0.0)], vec![mk("b", &["alpha"], "red", 1.0)]],
        vec![node(clause(0.0), 2)],
        true,
      ),
    }
  }
}
