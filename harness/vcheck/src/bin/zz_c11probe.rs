use serde_json::{json, Value};
use vcore::{idx, Rng};
#[path = "../shared/paging.rs"]
mod paging;
fn main() {
  let dir = std::path::PathBuf::from("/tmp/c11probe-idx");
  let mode = std::env::args().nth(1).unwrap();
  let mut best: Option<(usize, Vec<Value>, String)> = None;
  for seed in 0..30000u64 {
    let mut rng = Rng::new(seed);
    let n = rng.urange(3, 9);
    if let Some((bn, _, _)) = best.as_ref() { if n >= *bn { continue; } }
    let ws = ["rust", "query", "fast"];
    let mut docs = Vec::new();
    for i in 0..n {
      let mut t = |rng: &mut Rng| -> String { let k = rng.urange(1, 4); (0..k).map(|_| *rng.pick(&ws)).collect::<Vec<_>>().join(" ") };
      if mode == "stale" {
        docs.push(json!({"_id": format!("d{i}"), "body": t(&mut rng), "title": t(&mut rng), "notes": t(&mut rng)}));
      } else {
        docs.push(json!({"_id": format!("d{i}"), "body": t(&mut rng)}));
      }
    }
    let _ = std::fs::remove_dir_all(&dir);
    let sch = idx::schema(&paging::schema_json()).unwrap();
    let index = searchlite_core::api::Index::create(&dir, sch, idx::opts(&dir, true)).unwrap();
    let mut w = index.writer().unwrap();
    for d in docs.iter() { w.add_document(&idx::doc(d)).unwrap(); }
    w.commit().unwrap();
    let reader = index.reader().unwrap();
    let base = if mode == "stale" { json!({"query": "rust", "execution": "wand", "return_stored": false}) }
      else { json!({"query": {"type":"bool","should":[{"type":"term","field":"body","value":"rust"},{"type":"term","field":"body","value":"query"}]}, "execution": "bmw", "bmw_block_size": 1, "return_stored": false}) };
    let mut fr = base.clone(); fr["limit"] = json!(20);
    let full = paging::hit_sigs(&idx::search(&reader, fr).unwrap());
    for page in 1..=2usize {
      let w = paging::walk(&reader, &base, page, 30);
      let got: Vec<paging::HitSig> = w.pages.iter().flat_map(|p| paging::hit_sigs(p)).collect();
      let hit = if mode == "stale" { w.stopped.is_some() } else { w.stopped.is_none() && got.iter().map(|h| &h.0).collect::<Vec<_>>() != full.iter().map(|h| &h.0).collect::<Vec<_>>() };
      if hit {
        best = Some((n, docs.clone(), format!("page={page} stopped={:?}\n full={}\n walk={}", w.stopped, paging::sigs_json(&full), paging::sigs_json(&got))));
        break;
      }
    }
  }
  if let Some((n, docs, s)) = best { println!("n={n}\n{}\n{s}", serde_json::to_string(&docs).unwrap()); } else { println!("none"); }
  let _ = std::fs::remove_dir_all(&dir);
}
