// temporary: run requests from a JSON script {"commits":[[doc,..],..], "requests":[req,..]}; "cursor":"@prev" is replaced by the previous next_cursor
use serde_json::{json, Value};
use vcore::idx;
#[path = "../shared/paging.rs"]
mod paging;
fn main() {
  let f = std::env::args().nth(1).unwrap();
  let v: Value = serde_json::from_str(&std::fs::read_to_string(f).unwrap()).unwrap();
  let dir = std::path::PathBuf::from(format!("/tmp/c11probe-idx-{}", std::process::id()));
  let _ = std::fs::remove_dir_all(&dir);
  let sch = idx::schema(&paging::schema_json()).unwrap();
  let index = searchlite_core::api::Index::create(&dir, sch, idx::opts(&dir, true)).unwrap();
  for c in v["commits"].as_array().unwrap() {
    let mut w = index.writer().unwrap();
    for d in c.as_array().unwrap() {
      if let Some(id) = d.get("_delete") { w.delete_document(id.as_str().unwrap()).unwrap(); } else { w.add_document(&idx::doc(d)).unwrap(); }
    }
    w.commit().unwrap();
  }
  let reader = index.reader().unwrap();
  let mut prev: Option<String> = None;
  for r in v["requests"].as_array().unwrap() {
    let mut r = r.clone();
    if r.get("cursor").and_then(|c| c.as_str()) == Some("@prev") { r["cursor"] = json!(prev.clone()); }
    match idx::search(&reader, r.clone()) {
      Ok(res) => {
        prev = res.next_cursor.clone();
        let mut out = serde_json::to_value(&res).unwrap();
        if let Some(o) = out.as_object_mut() { if let Some(p) = o.get_mut("profile") { if let Some(po) = p.as_object_mut() { po.remove("timings"); } } }
        println!("REQ {}\nRES {}\n", r, out);
      }
      Err(e) => println!("REQ {}\nERR {e:#}\n", r),
    }
  }
  let _ = std::fs::remove_dir_all(&dir);
}
