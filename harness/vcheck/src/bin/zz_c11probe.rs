use serde_json::{json, Value};
use vcore::idx;
#[path = "../shared/paging.rs"]
mod paging;
fn main() {
  let f = std::env::args().nth(1).unwrap();
  let v: Value = serde_json::from_str(&std::fs::read_to_string(f).unwrap()).unwrap();
  let case = &v["case"];
  let dir = std::path::PathBuf::from("/tmp/c11probe-idx");
  let _ = std::fs::remove_dir_all(&dir);
  let sch = idx::schema(&paging::schema_json()).unwrap();
  let index = searchlite_core::api::Index::create(&dir, sch, idx::opts(&dir, true)).unwrap();
  for c in case["corpus"].as_array().unwrap() {
    let mut w = index.writer().unwrap();
    for op in c.as_array().unwrap() {
      if let Some(d) = op.get("add") { w.add_document(&idx::doc(d)).unwrap(); } else { w.delete_document(op["del"].as_str().unwrap()).unwrap(); }
    }
    w.commit().unwrap();
  }
  let reader = index.reader().unwrap();
  let mut req = case["request"].clone();
  req["limit"] = json!(100);
  for exec in ["bm25","wand","bmw"] { req["execution"] = json!(exec); println!("exec {exec}");
  let mut seen: std::collections::BTreeMap<String, std::collections::BTreeSet<u32>> = Default::default();
  for _ in 0..200 {
    let r = idx::search(&reader, req.clone()).unwrap();
    for h in r.hits.iter() { seen.entry(h.doc_id.clone()).or_default().insert(h.score.to_bits()); }
  }
  for (k, v) in seen.iter() { if v.len() > 1 { println!("{k}: {:?}", v.iter().map(|b| f32::from_bits(*b)).collect::<Vec<_>>()); } }
  let docs: std::collections::BTreeMap<String, Value> = v["case"]["corpus"].as_array().unwrap().iter().flat_map(|c| c.as_array().unwrap().iter()).filter_map(|o| o.get("add")).map(|d| (d["_id"].as_str().unwrap().to_string(), d.clone())).collect();
  for (k, v) in seen.iter() { if v.len() > 1 { println!("{}", docs[k]); } }
  }
  req["execution"] = case["request"]["execution"].clone();
  let full = idx::search(&reader, req.clone()).unwrap();
  let fs = paging::hit_sigs(&full);
  for page in 1..=7usize {
    let mut broken = 0; let mut errs = std::collections::BTreeSet::new(); let mut differ = 0; let mut variants = std::collections::BTreeSet::new();
    for _ in 0..100 {
      let w = paging::walk(&reader, &case["request"], page, 100);
      if let Some(s) = w.stopped { broken += 1; errs.insert(s); continue; }
      let got: Vec<paging::HitSig> = w.pages.iter().flat_map(|p| paging::hit_sigs(p)).collect();
      if got != fs { differ += 1; }
      variants.insert(got);
    }
    println!("page={page} broken {broken}/100 {:?} differ={differ} distinct_walk_results={}", errs, variants.len());
  }
  let _ = std::fs::remove_dir_all(&dir);
}
