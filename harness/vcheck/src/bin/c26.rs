//! C26 — The C search entry point stays within the caller's buffer.
//! Sanitizer-style monitors around the real `searchlite_search` (linked from the
//! searchlite-ffi rlib): (1) guard pages + canaries: the output buffer ends exactly at a
//! PROT_NONE page and is preceded by a canary region, so an overrun of one byte is a
//! SIGSEGV in the worker and an underrun flips the canary; every capacity from 0 to
//! full_len+64 for each (index, query, cursor, aggs) tuple; the aggregation JSON is placed
//! so that it ends at a guard page too (a read past aggs_len faults). (2) `heap` mode: exact
//! size heap buffers, meant to run under AddressSanitizer / Miri builds of this binary.
use searchlite_core::api::Index;
use searchlite_ffi::{searchlite_add_json, searchlite_commit, searchlite_index_close, searchlite_index_open, searchlite_search, IndexHandle};
use serde_json::{json, Value};
use std::ffi::CString;
use std::os::raw::c_char;
use std::path::{Path, PathBuf};
use std::process::Command;
use std::time::Duration;
use vcore::{idx, sandbox, Ctx, Local, Rng};

const PAGE: usize = 4096;

/// A region whose last byte is immediately followed by an inaccessible page.
struct Guarded {
  base: *mut u8,
  total: usize,
  usable_pages: usize,
}

impl Guarded {
  fn new(usable_pages: usize) -> Guarded {
    let total = (usable_pages + 1) * PAGE;
    unsafe {
      let p = libc::mmap(std::ptr::null_mut(), total, libc::PROT_READ | libc::PROT_WRITE, libc::MAP_PRIVATE | libc::MAP_ANONYMOUS, -1, 0);
      assert!(p != libc::MAP_FAILED, "mmap failed");
      let guard = (p as *mut u8).add(usable_pages * PAGE);
      assert_eq!(libc::mprotect(guard as *mut libc::c_void, PAGE, libc::PROT_NONE), 0);
      Guarded { base: p as *mut u8, total, usable_pages }
    }
  }
  /// pointer to a buffer of `cap` bytes that ends exactly at the guard page
  fn buf(&self, cap: usize) -> *mut u8 {
    assert!(cap <= self.usable_pages * PAGE);
    unsafe { self.base.add(self.usable_pages * PAGE - cap) }
  }
  fn fill(&self, b: u8) {
    unsafe { std::ptr::write_bytes(self.base, b, self.usable_pages * PAGE) }
  }
  fn slice(&self) -> &[u8] {
    unsafe { std::slice::from_raw_parts(self.base, self.usable_pages * PAGE) }
  }
}

impl Drop for Guarded {
  fn drop(&mut self) {
    unsafe {
      libc::munmap(self.base as *mut libc::c_void, self.total);
    }
  }
}

fn schema() -> Value {
  json!({
    "doc_id_field": "_id",
    "text_fields": [{"name": "body", "analyzer": "default", "stored": true, "indexed": true}],
    "keyword_fields": [{"name": "tag", "stored": true, "indexed": true, "fast": true, "nullable": true}],
    "numeric_fields": [{"name": "n", "i64": true, "fast": true, "stored": true, "nullable": true}]
  })
}

fn build(dir: &Path, rng: &mut Rng) -> anyhow::Result<()> {
  let _ = std::fs::remove_dir_all(dir);
  let index = Index::create(dir, idx::schema(&schema())?, idx::opts(dir, false))?;
  let mut w = index.writer()?;
  let n = rng.urange(2, 14);
  for i in 0..n {
    let body = format!("rust {} {}", vcore::gen::sentence(rng, 1, 6), if rng.chance(0.3) { "日本語 😀 café" } else { "" });
    w.add_document(&idx::doc(&json!({"_id": format!("d{i}"), "body": body, "tag": rng.pick(vcore::gen::TAGS), "n": rng.range(0, 20)})))?;
    if rng.chance(0.2) {
      w.commit()?;
    }
  }
  w.commit()?;
  Ok(())
}

#[derive(Clone, Debug)]
struct Tuple {
  query: String,
  limit: usize,
  cursor: Option<String>,
  aggs: Option<String>,
  /// aggs_len relative to the true length: 0 exact, negative = shorter
  aggs_len_delta: i64,
}

fn gen_tuple(rng: &mut Rng, valid_cursor: &Option<String>) -> Tuple {
  let queries = [
    "rust".to_string(),
    "rust search".to_string(),
    json!({"type": "match_all"}).to_string(),
    json!({"type": "term", "field": "body", "value": "rust"}).to_string(),
    json!({"type": "bool", "must": [{"type": "match_all"}], "should": [{"type": "term", "field": "body", "value": "engine"}]}).to_string(),
    "nomatchatall".to_string(),
    "{not json".to_string(),
    "日本語".to_string(),
    "".to_string(),
    json!({"type": "regex", "field": "body", "value": "("}).to_string(),
  ];
  let cursor = match rng.below(6) {
    0 => valid_cursor.clone(),
    1 => Some("zz".repeat(21)),
    2 => Some("00".repeat(21)),
    3 => Some("abc".into()),
    _ => None,
  };
  let aggs = match rng.below(5) {
    0 => Some(json!({"t": {"type": "terms", "field": "tag", "size": 5}}).to_string()),
    1 => Some(json!({"s": {"type": "stats", "field": "n"}, "t": {"type": "terms", "field": "tag"}}).to_string()),
    2 => Some("{\"t\": {\"type\": ".to_string()),
    _ => None,
  };
  let aggs_len_delta = if aggs.is_some() && rng.chance(0.3) { -(rng.range(1, 6)) } else { 0 };
  Tuple { query: rng.pick(&queries).clone(), limit: rng.urange(1, 8), cursor, aggs, aggs_len_delta }
}

unsafe fn call(h: *mut IndexHandle, t: &Tuple, aggs_region: &Guarded, out: *mut c_char, cap: usize) -> usize {
  let q = CString::new(t.query.clone()).unwrap_or_else(|_| CString::new("x").unwrap());
  let c = t.cursor.as_ref().map(|c| CString::new(c.clone()).unwrap());
  let (ap, al) = match &t.aggs {
    Some(a) => {
      let bytes = a.as_bytes();
      let len = (bytes.len() as i64 + t.aggs_len_delta).max(0) as usize;
      // the aggregation bytes END at the guard page: reading byte aggs_len would fault
      let p = aggs_region.buf(len);
      std::ptr::copy_nonoverlapping(bytes.as_ptr(), p, len);
      (p as *const c_char, len)
    }
    None => (std::ptr::null(), 0),
  };
  searchlite_search(h, q.as_ptr(), t.limit, c.as_ref().map(|c| c.as_ptr()).unwrap_or(std::ptr::null()), ap, al, out, cap)
}

/// `c26 worker <dir> <seed> <guard|heap> <n_tuples> <margin> <out> [max_cap_step]`
fn worker(a: &[String]) -> i32 {
  let dir = PathBuf::from(&a[0]);
  let seed: u64 = a[1].parse().unwrap();
  let heap = a[2] == "heap";
  let n_tuples: usize = a[3].parse().unwrap();
  let margin: usize = a[4].parse().unwrap();
  let out = PathBuf::from(&a[5]);
  let step: usize = a.get(6).and_then(|s| s.parse().ok()).unwrap_or(1);
  let cur = out.with_extension("current");
  let mut rng = Rng::derive(seed, "c26", 0);
  build(&dir, &mut rng).expect("build index");
  let path = CString::new(dir.to_string_lossy().to_string()).unwrap();
  let mut problems: Vec<Value> = Vec::new();
  let mut calls = 0u64;
  let mut caps_total = 0u64;
  let mut tuples_ok = 0u64;
  unsafe {
    // null-argument matrix
    if !searchlite_index_open(std::ptr::null(), true).is_null() {
      problems.push(json!({"kind": "null-path-not-rejected"}));
    }
    if searchlite_add_json(std::ptr::null_mut(), path.as_ptr(), 1) != -1 {
      problems.push(json!({"kind": "null-handle-add-not-negative"}));
    }
    if searchlite_commit(std::ptr::null_mut()) != -1 {
      problems.push(json!({"kind": "null-handle-commit-not-negative"}));
    }
    searchlite_index_close(std::ptr::null_mut());
    let h = searchlite_index_open(path.as_ptr(), false);
    if h.is_null() {
      let _ = std::fs::write(&out, json!({"fatal": "cannot open index through FFI"}).to_string());
      return 0;
    }
    if searchlite_add_json(h, std::ptr::null(), 0) != -1 {
      problems.push(json!({"kind": "null-json-add-not-negative"}));
    }
    let region = Guarded::new(64);
    let aggs_region = Guarded::new(2);
    let q = CString::new("rust").unwrap();
    // null handle / null query / null buffer
    let b = region.buf(128);
    if searchlite_search(std::ptr::null_mut(), q.as_ptr(), 5, std::ptr::null(), std::ptr::null(), 0, b as *mut c_char, 128) != 0 {
      problems.push(json!({"kind": "null-handle-search-not-zero"}));
    }
    if searchlite_search(h, std::ptr::null(), 5, std::ptr::null(), std::ptr::null(), 0, b as *mut c_char, 128) != 0 {
      problems.push(json!({"kind": "null-query-search-not-zero"}));
    }
    if searchlite_search(h, q.as_ptr(), 5, std::ptr::null(), std::ptr::null(), 0, std::ptr::null_mut(), 128) != 0 {
      problems.push(json!({"kind": "null-buffer-search-not-zero"}));
    }
    calls += 8;
    // a valid cursor from a first page
    let big = region.buf(64 * PAGE);
    let n0 = searchlite_search(h, q.as_ptr(), 1, std::ptr::null(), std::ptr::null(), 0, big as *mut c_char, 64 * PAGE);
    let first: Value = serde_json::from_slice(std::slice::from_raw_parts(big, n0)).unwrap_or(Value::Null);
    let valid_cursor = first.get("next_cursor").and_then(|c| c.as_str()).map(|s| s.to_string());
    for ti in 0..n_tuples {
      let t = gen_tuple(&mut rng, &valid_cursor);
      let _ = std::fs::write(&cur, json!({"tuple": ti, "t": format!("{t:?}"), "phase": "full"}).to_string());
      // full response with a large buffer
      region.fill(0xA5);
      let cap_full = 60 * PAGE;
      let p = region.buf(cap_full);
      let full_len = call(h, &t, &aggs_region, p as *mut c_char, cap_full);
      calls += 1;
      let full: Vec<u8> = std::slice::from_raw_parts(p, full_len).to_vec();
      if full_len > 0 && *p.add(full_len) != 0 {
        problems.push(json!({"kind": "missing-nul", "tuple": format!("{t:?}"), "cap": cap_full}));
      }
      if full_len == 0 {
        // the search failed (error paths): nothing may be written for any capacity
        for cap in [0usize, 1, 2, 17, 300] {
          region.fill(0xA5);
          let pb = region.buf(cap);
          let _ = std::fs::write(&cur, json!({"tuple": ti, "t": format!("{t:?}"), "cap": cap, "phase": "error-path"}).to_string());
          let r = call(h, &t, &aggs_region, pb as *mut c_char, cap);
          calls += 1;
          if r != 0 {
            problems.push(json!({"kind": "error-path-nonzero-return", "tuple": format!("{t:?}"), "cap": cap, "ret": r}));
          }
          if region.slice().iter().any(|b| *b != 0xA5) {
            problems.push(json!({"kind": "error-path-wrote-to-buffer", "tuple": format!("{t:?}"), "cap": cap}));
          }
        }
        continue;
      }
      tuples_ok += 1;
      if serde_json::from_slice::<Value>(&full).is_err() {
        problems.push(json!({"kind": "full-response-not-json", "tuple": format!("{t:?}")}));
      }
      let max_cap = full_len + margin;
      let mut cap = 0usize;
      while cap <= max_cap {
        let _ = std::fs::write(&cur, json!({"tuple": ti, "t": format!("{t:?}"), "cap": cap, "full_len": full_len, "phase": "capacity"}).to_string());
        caps_total += 1;
        calls += 1;
        if heap {
          // exact-size heap allocation: for ASan / Miri builds
          let mut v: Vec<u8> = vec![0xA5; cap];
          let r = call(h, &t, &aggs_region, if cap == 0 { std::ptr::NonNull::<c_char>::dangling().as_ptr() } else { v.as_mut_ptr() as *mut c_char }, cap);
          check(&mut problems, &t, cap, r, &v, &full);
        } else {
          region.fill(0xA5);
          let pb = region.buf(cap);
          let r = call(h, &t, &aggs_region, pb as *mut c_char, cap);
          let got = std::slice::from_raw_parts(pb, cap).to_vec();
          check(&mut problems, &t, cap, r, &got, &full);
          // canary: everything before the buffer must be untouched
          let before = &region.slice()[..region.usable_pages * PAGE - cap];
          if before.iter().rev().take(PAGE).any(|b| *b != 0xA5) {
            problems.push(json!({"kind": "underrun-canary-flipped", "tuple": format!("{t:?}"), "cap": cap}));
          }
        }
        cap += if cap < 64 || cap + 64 >= full_len { 1 } else { step };
      }
    }
    searchlite_index_close(h);
  }
  let _ = std::fs::remove_file(&cur);
  std::fs::write(&out, json!({"calls": calls, "capacities": caps_total, "tuples_with_response": tuples_ok, "problems": problems}).to_string()).unwrap();
  0
}

fn check(problems: &mut Vec<Value>, t: &Tuple, cap: usize, ret: usize, buf: &[u8], full: &[u8]) {
  let mut bad = |kind: &str, extra: Value| {
    if problems.len() < 50 {
      problems.push(json!({"kind": kind, "tuple": format!("{t:?}"), "cap": cap, "ret": ret, "full_len": full.len(), "extra": extra}));
    }
  };
  if cap == 0 {
    if ret != 0 {
      bad("cap0-nonzero-return", json!(null));
    }
    return;
  }
  if ret > cap - 1 {
    bad("return-exceeds-capacity", json!(null));
    return;
  }
  if buf[ret] != 0 {
    bad("missing-nul-at-ret", json!(buf[ret]));
  }
  if buf[..ret] != full[..ret.min(full.len())] || ret > full.len() {
    bad("not-a-prefix-of-full-response", json!(null));
  }
  let want = full.len().min(cap - 1);
  if ret != want {
    bad("return-value-not-min(full,cap-1)", json!(want));
  }
  // bytes after the NUL inside the buffer must be untouched
  if buf[ret + 1..].iter().any(|b| *b != 0xA5) {
    bad("wrote-past-the-nul", json!(null));
  }
}

fn main() {
  let args: Vec<String> = std::env::args().skip(1).collect();
  if args.first().map(|s| s.as_str()) == Some("worker") {
    std::process::exit(worker(&args[1..]));
  }
  let mut ctx = Ctx::from_args("C26", "other", &args);
  let quick = ctx.quick();
  ctx.explanation = Some("Sanitizer-style runtime monitors around the real C ABI function, executed in worker processes: guard pages (PROT_NONE page directly after the caller's buffer, so a 1-byte overrun is a SIGSEGV observed by the parent), 0xA5 canaries before the buffer and after the NUL, byte-exact comparison with the full response, exhaustive over buffer capacities 0..full_len+margin per (index, query, cursor, aggregation JSON, aggs_len) tuple, plus the null-argument matrix. The aggregation JSON ends at a guard page, so a read past aggs_len faults. Thorough additionally runs the same matrix with exact-size heap buffers under an AddressSanitizer build when it is available. Both tiers also run a reduced matrix inside the Miri interpreter (harness/vmiri: exact-size allocations for the output buffer, the aggregation bytes and the C strings; any out-of-allocation access, uninitialised read or invalid pointer use is reported by the interpreter; counters calls[miri], miri_capacities).".into());
  ctx.rule = "evaluations = searchlite_search calls judged; distinct_nontrivial = distinct (tuple, capacity) pairs for tuples whose search succeeded (capacities below, at and above the full length are all covered per tuple).".into();
  ctx.assumptions = vec![
    "the caller honours the documented contract (valid C strings, aggs_json pointing to aggs_len readable bytes, buffer of buf_cap writable bytes)".into(),
    "a search that panics aborts the process (extern \"C\"); that is C16's subject and would show up here as a worker death".into(),
  ];
  let exe = sandbox::self_exe();
  let asan_exe = PathBuf::from("/verif/target/asan/x86_64-unknown-linux-gnu/verif/c26");
  let n_workers = ctx.n(6, 48);
  let (tuples, margin, step) = if quick { (12usize, 64usize, 3usize) } else { (8usize, 64usize, 1usize) };
  let use_asan = !quick && asan_exe.exists();
  ctx.set("asan_build_used", json!(use_asan));
  ctx.run_cases("worker", n_workers, |rng: &mut Rng, l: &mut Local, scratch| {
    let seed = rng.next_u64() % 1_000_000;
    let modes: Vec<(&str, PathBuf)> = if use_asan && l.case_idx % 3 == 0 { vec![("guard", exe.clone()), ("heap", asan_exe.clone())] } else { vec![("guard", exe.clone())] };
    for (mode, bin) in modes {
      let dir = scratch.join("idx");
      let out = scratch.join(format!("out-{mode}.json"));
      let _ = std::fs::remove_file(&out);
      let mut cmd = Command::new(&bin);
      cmd.arg("worker").arg(&dir).arg(seed.to_string()).arg(mode).arg(tuples.to_string()).arg(margin.to_string()).arg(&out).arg(step.to_string());
      cmd.env("ASAN_OPTIONS", "halt_on_error=1:abort_on_error=1:detect_leaks=0");
      sandbox::no_core(&mut cmd);
      let o = match sandbox::run(cmd, None, Duration::from_secs(600)) {
        Ok(o) => o,
        Err(e) => {
          l.inconclusive(format!("spawn: {e}"));
          continue;
        }
      };
      if !o.ok() || !out.exists() {
        let cur = std::fs::read_to_string(out.with_extension("current")).unwrap_or_default();
        if o.timed_out {
          l.inconclusive(format!("worker watchdog at {cur}"));
        } else {
          let asan = o.stderr_str().contains("AddressSanitizer");
          l.fail(
            if asan { "asan-report".to_string() } else { format!("worker-died:signal{:?}", o.signal) },
            format!("the FFI worker died (code {:?}, signal {:?}) at {cur}: {}", o.code, o.signal, o.stderr_str().chars().take(600).collect::<String>()),
            json!({"seed": seed, "mode": mode, "current": cur}),
          );
        }
        continue;
      }
      let v: Value = serde_json::from_str(&std::fs::read_to_string(&out).unwrap_or_default()).unwrap_or(Value::Null);
      if let Some(f) = v.get("fatal") {
        l.inconclusive(format!("{f}"));
        continue;
      }
      let calls = v["calls"].as_u64().unwrap_or(0);
      l.evals_add(calls);
      l.count(&format!("calls[{mode}]"), calls);
      l.count("capacities_tried", v["capacities"].as_u64().unwrap_or(0));
      l.count("tuples_with_full_response", v["tuples_with_response"].as_u64().unwrap_or(0));
      for i in 0..v["capacities"].as_u64().unwrap_or(0) {
        l.nontrivial(&(seed, mode, i));
      }
      for p in v["problems"].as_array().cloned().unwrap_or_default() {
        let kind = p["kind"].as_str().unwrap_or("?").to_string();
        l.fail(kind.clone(), format!("{kind}: {p}"), json!({"seed": seed, "mode": mode, "problem": p}));
      }
      if l.samples.is_empty() {
        l.sample(json!({"seed": seed, "mode": mode, "tuples": tuples, "capacities": v["capacities"], "calls": calls}));
      }
    }
  });
  // Miri lane: the same C ABI functions, called from Rust inside the Miri interpreter with exact-size
  // allocations for every pointer argument (harness/vmiri). The interpreter reports any access outside
  // an allocation, uninitialised reads and invalid pointer use; the program checks prefix/NUL/return
  // value itself. quick: one process, reduced matrix; thorough: 8 seeds, full matrix.
  let harness = PathBuf::from(std::env::var("VERIF_HARNESS").unwrap_or_else(|_| "/verif/harness".into()));
  let miri_cases = if std::env::var("VERIF_NO_MIRI").is_ok() || !harness.join("vmiri").exists() { 0 } else { ctx.n(1, 8) };
  ctx.set("miri_lane", json!(miri_cases > 0));
  ctx.run_cases("miri", miri_cases, |rng: &mut Rng, l: &mut Local, scratch| {
    let seed = rng.next_u64() % 1_000_000;
    let dir = scratch.join("miri-idx");
    let mut cmd = Command::new("cargo");
    cmd.current_dir(&harness).arg("+nightly").arg("miri").arg("run").arg("--offline").arg("-q").arg("-p").arg("vmiri").arg("--").arg(&dir).arg(seed.to_string()).arg(if quick { "small" } else { "full" });
    cmd.env("MIRIFLAGS", "-Zmiri-disable-isolation -Zmiri-ignore-leaks").env_remove("RUSTFLAGS").env_remove("CARGO_TARGET_DIR").env_remove("RUSTUP_TOOLCHAIN");
    let o = match sandbox::run(cmd, None, Duration::from_secs(if quick { 900 } else { 3000 })) {
      Ok(o) => o,
      Err(e) => {
        l.inconclusive(format!("miri spawn: {e}"));
        return;
      }
    };
    let (out, err) = (o.stdout_str(), o.stderr_str());
    if let Some(line) = out.lines().find(|x| x.starts_with("CONTRACT ")) {
      let stem: String = line.chars().filter(|c| !c.is_ascii_digit()).take(80).collect();
      l.fail(format!("miri-lane-contract:{stem}"), format!("under Miri the C search function broke its contract: {line}"), json!({"seed": seed, "stdout": out}));
      return;
    }
    if let Some(pos) = err.find("error: Undefined Behavior") {
      let first: String = err[pos..].lines().next().unwrap_or("").chars().filter(|c| !c.is_ascii_digit()).take(120).collect();
      l.fail(format!("miri-ub:{first}"), format!("Miri reported undefined behaviour while driving the C ABI: {}", err[pos..].chars().take(1500).collect::<String>()), json!({"seed": seed, "stderr": err[pos..].chars().take(4000).collect::<String>()}));
      return;
    }
    let Some(obs) = out.lines().find(|x| x.starts_with("MIRI-OBSERVED ")) else {
      l.inconclusive(format!("miri run gave no verdict (timed_out={}, code {:?}): {}", o.timed_out, o.code, err.chars().rev().take(400).collect::<String>().chars().rev().collect::<String>()));
      return;
    };
    let num = |k: &str| -> u64 { obs.split_whitespace().find_map(|kv| kv.strip_prefix(&format!("{k}="))).and_then(|v| v.parse().ok()).unwrap_or(0) };
    l.evals_add(num("calls"));
    l.count("calls[miri]", num("calls"));
    l.count("miri_capacities", num("capacities"));
    l.count("miri_truncating_calls", num("truncating"));
    l.count("miri_null_argument_cases", num("null_cases"));
    for i in 0..num("capacities") {
      l.nontrivial(&(seed, "miri", i));
    }
  });
  std::process::exit(ctx.finish());
}
