//! C02 — Queued operations survive crashes exactly once.
//! The real writer runs on a real directory through a Storage wrapper that (a) can stop
//! the world at any storage-operation boundary ("crash": that and every later operation
//! fail without effect) and (b) shadows the write-ahead log: which bytes are durable
//! (written before the last successful sync) and which form the unsynced tail, record by
//! record. For every crash point the unsynced tail is dropped, kept, cut after any record
//! or torn inside a record; every such image is recovered with the real code
//! (`Wal::last_pending_ops`, `Index::writer`, `commit`) and judged; up to three
//! crash/restart rounds with further appends, commits and rollbacks in between.
use searchlite_core::api::{Index, IndexWriter};
use searchlite_core::storage::{DynFile, FsStorage, Storage, StorageFile};
use searchlite_core::wal::{Wal, WalEntry};
use serde_json::{json, Value};
use std::collections::BTreeMap;
use std::io::{Read, Seek, SeekFrom, Write};
use std::path::Path;
use std::sync::{Arc, Mutex};
use vcheck::crashsim::{self, Image};
use vcheck::hist;
use vcore::gen;
use vcore::model::{self, Contents, Op};
use vcore::{idx, Ctx, Local, Rng};

#[derive(Clone, Debug, PartialEq)]
enum RecKind {
  Op(usize),
  Marker,
  Garbage,
}

#[derive(Clone, Debug)]
struct Rec {
  len: usize,
  kind: RecKind,
  /// true once a successful sync followed the record
  synced: bool,
}

#[derive(Clone, Debug)]
enum POp {
  Write { data: Vec<u8>, kind: RecKind },
  Trunc { len: usize },
}

#[derive(Clone, Debug, Default)]
struct Shadow {
  dur_bytes: Vec<u8>,
  dur_recs: Vec<Rec>,
  vol_len: usize,
  pending: Vec<POp>,
}

fn apply_pop(bytes: &mut Vec<u8>, recs: &mut Vec<Rec>, op: &POp, torn: Option<usize>) {
  match op {
    POp::Write { data, kind } => {
      let n = torn.unwrap_or(data.len()).min(data.len());
      bytes.extend_from_slice(&data[..n]);
      recs.push(Rec { len: n, kind: if n == data.len() { kind.clone() } else { RecKind::Garbage }, synced: false });
    }
    POp::Trunc { len } => {
      bytes.truncate(*len);
      let mut acc = 0;
      let mut keep = 0;
      for r in recs.iter() {
        if acc + r.len <= *len {
          acc += r.len;
          keep += 1;
        } else {
          break;
        }
      }
      recs.truncate(keep);
      if acc < *len {
        // truncation inside a record (never done by the engine): what remains is garbage
        recs.push(Rec { len: *len - acc, kind: RecKind::Garbage, synced: false });
      }
    }
  }
}

impl Shadow {
  fn variant(&self, ops: usize, torn: Option<usize>) -> (Vec<u8>, Vec<Rec>) {
    let mut b = self.dur_bytes.clone();
    let mut r = self.dur_recs.clone();
    for op in self.pending.iter().take(ops) {
      apply_pop(&mut b, &mut r, op, None);
    }
    if let Some(t) = torn {
      if let Some(op @ POp::Write { .. }) = self.pending.get(ops) {
        apply_pop(&mut b, &mut r, op, Some(t));
      }
    }
    (b, r)
  }
}

#[derive(Default)]
struct CrashState {
  counter: usize,
  crash_at: Option<usize>,
  frozen: bool,
  shadow: Shadow,
  cur_kind: Option<RecKind>,
  wal_writes_in_call: usize,
  wal_syncs: usize,
}

struct CrashStorage {
  inner: FsStorage,
  st: Arc<Mutex<CrashState>>,
}

struct CrashFile {
  inner: DynFile,
  st: Arc<Mutex<CrashState>>,
  is_wal: bool,
}

fn crashed() -> anyhow::Error {
  anyhow::anyhow!("simulated crash: storage is gone")
}
fn crashed_io() -> std::io::Error {
  std::io::Error::new(std::io::ErrorKind::Other, "simulated crash: storage is gone")
}

/// returns true when the operation may proceed
fn gate(st: &Arc<Mutex<CrashState>>) -> bool {
  let mut s = st.lock().unwrap();
  if s.frozen {
    return false;
  }
  if s.crash_at == Some(s.counter) {
    s.frozen = true;
    return false;
  }
  s.counter += 1;
  true
}

impl Read for CrashFile {
  fn read(&mut self, buf: &mut [u8]) -> std::io::Result<usize> {
    if !gate(&self.st) {
      return Err(crashed_io());
    }
    self.inner.read(buf)
  }
}
impl Write for CrashFile {
  fn write(&mut self, buf: &[u8]) -> std::io::Result<usize> {
    if !gate(&self.st) {
      return Err(crashed_io());
    }
    let n = self.inner.write(buf)?;
    if self.is_wal {
      let mut s = self.st.lock().unwrap();
      let kind = s.cur_kind.clone().unwrap_or(RecKind::Garbage);
      s.wal_writes_in_call += 1;
      s.shadow.pending.push(POp::Write { data: buf[..n].to_vec(), kind });
      s.shadow.vol_len += n;
    }
    Ok(n)
  }
  fn flush(&mut self) -> std::io::Result<()> {
    if !gate(&self.st) {
      return Err(crashed_io());
    }
    self.inner.flush()
  }
}
impl Seek for CrashFile {
  fn seek(&mut self, pos: SeekFrom) -> std::io::Result<u64> {
    if !gate(&self.st) {
      return Err(crashed_io());
    }
    self.inner.seek(pos)
  }
}
impl StorageFile for CrashFile {
  fn set_len(&mut self, len: u64) -> anyhow::Result<()> {
    if !gate(&self.st) {
      return Err(crashed());
    }
    self.inner.set_len(len)?;
    if self.is_wal {
      let mut s = self.st.lock().unwrap();
      s.shadow.pending.push(POp::Trunc { len: len as usize });
      s.shadow.vol_len = len as usize;
    }
    Ok(())
  }
  fn sync_all(&mut self) -> anyhow::Result<()> {
    if !gate(&self.st) {
      return Err(crashed());
    }
    self.inner.sync_all()?;
    if self.is_wal {
      let mut s = self.st.lock().unwrap();
      let n = s.shadow.pending.len();
      let (b, mut r) = s.shadow.variant(n, None);
      for x in r.iter_mut() {
        x.synced = true;
      }
      s.shadow.dur_bytes = b;
      s.shadow.dur_recs = r;
      s.shadow.pending.clear();
      s.wal_syncs += 1;
    }
    Ok(())
  }
}

impl CrashStorage {
  fn wrap(&self, f: DynFile, p: &Path) -> DynFile {
    Box::new(CrashFile { inner: f, st: self.st.clone(), is_wal: p.file_name().map(|n| n == "wal.log").unwrap_or(false) })
  }
}

macro_rules! gated {
  ($self:ident, $e:expr) => {{
    if !gate(&$self.st) {
      return Err(crashed());
    }
    $e
  }};
}

impl Storage for CrashStorage {
  fn root(&self) -> &Path {
    self.inner.root()
  }
  fn ensure_dir(&self, path: &Path) -> anyhow::Result<()> {
    gated!(self, self.inner.ensure_dir(path))
  }
  fn exists(&self, path: &Path) -> bool {
    self.inner.exists(path)
  }
  fn open_read(&self, path: &Path) -> anyhow::Result<DynFile> {
    gated!(self, self.inner.open_read(path)).map(|f| self.wrap(f, path))
  }
  fn open_write(&self, path: &Path) -> anyhow::Result<DynFile> {
    gated!(self, self.inner.open_write(path)).map(|f| self.wrap(f, path))
  }
  fn open_append(&self, path: &Path) -> anyhow::Result<DynFile> {
    gated!(self, self.inner.open_append(path)).map(|f| self.wrap(f, path))
  }
  fn read_to_end(&self, path: &Path) -> anyhow::Result<Vec<u8>> {
    gated!(self, self.inner.read_to_end(path))
  }
  fn write_all(&self, path: &Path, data: &[u8]) -> anyhow::Result<()> {
    gated!(self, self.inner.write_all(path, data))
  }
  fn atomic_write(&self, path: &Path, data: &[u8]) -> anyhow::Result<()> {
    gated!(self, self.inner.atomic_write(path, data))
  }
  fn remove(&self, path: &Path) -> anyhow::Result<()> {
    gated!(self, self.inner.remove(path))
  }
  fn remove_dir_all(&self, path: &Path) -> anyhow::Result<()> {
    gated!(self, self.inner.remove_dir_all(path))
  }
}

#[derive(Clone, Debug, PartialEq)]
enum Status {
  Pending,
  Inflight,
  RollingBack,
  Committed,
  RolledBack,
}

#[derive(Clone, Debug)]
enum Step {
  OpenWriter,
  DropWriter,
  Add(String, Value),
  Delete(String),
  Commit,
  Rollback,
}

impl Step {
  fn to_json(&self) -> Value {
    match self {
      Step::OpenWriter => json!("open_writer"),
      Step::DropWriter => json!("drop_writer"),
      Step::Add(id, d) => json!({"add": id, "body": d.get("body")}),
      Step::Delete(id) => json!({"delete": id}),
      Step::Commit => json!("commit"),
      Step::Rollback => json!("rollback"),
    }
  }
}

fn gen_steps(rng: &mut Rng, n: usize, ids: usize, version: &mut u64, writer_open: bool) -> Vec<Step> {
  let mut out = Vec::new();
  let mut open = writer_open;
  while out.len() < n {
    if !open {
      out.push(Step::OpenWriter);
      open = true;
      continue;
    }
    let r = rng.f64();
    if r < 0.50 {
      let id = format!("d{}", rng.usize(ids));
      *version += 1;
      out.push(Step::Add(id.clone(), gen::simple_doc(rng, &id, &format!("v{}", *version))));
    } else if r < 0.68 {
      out.push(Step::Delete(format!("d{}", rng.usize(ids))));
    } else if r < 0.84 {
      out.push(Step::Commit);
    } else if r < 0.90 {
      out.push(Step::Rollback);
    } else {
      out.push(Step::DropWriter);
      open = false;
    }
  }
  out
}

/// Harness-side knowledge that survives across rounds.
#[derive(Clone)]
struct World {
  ops: Vec<Op>,         // op id -> operation
  status: Vec<Status>,  // op id -> status
  committed: Contents,  // model: contents after the last successful commit
  queue: Vec<usize>,    // op ids queued in the live writer
  writer_open: bool,
}

struct RoundResult {
  total_ops: usize,
  crashed: bool,
  world: World,
  shadow: Shadow,
  files: Image,
  inflight_commit: Option<Vec<usize>>,
  problems: Vec<(String, String)>,
}

fn read_dir_image(root: &Path) -> Image {
  let mut img = Image::new();
  if let Ok(rd) = std::fs::read_dir(root) {
    for e in rd.flatten() {
      if e.path().is_file() {
        if let Ok(b) = std::fs::read(e.path()) {
          img.insert(e.file_name().to_string_lossy().to_string(), b);
        }
      }
    }
  }
  img
}

/// Run `steps` from `start` (files materialised at root, shadow describing wal.log), crashing
/// before storage operation `crash_at` (None: run to the end).
fn run_round(root: &Path, start_files: &Image, start_shadow: &Shadow, world: &World, steps: &[Step], crash_at: Option<usize>) -> Result<RoundResult, String> {
  crashsim::materialise(root, start_files).map_err(|e| format!("materialise: {e}"))?;
  let st = Arc::new(Mutex::new(CrashState { shadow: start_shadow.clone(), ..Default::default() }));
  let storage: Arc<dyn Storage> = Arc::new(CrashStorage { inner: FsStorage::new(root.to_path_buf()), st: st.clone() });
  let opts = idx::opts(root, false);
  let index = Index::open_with_storage(opts, storage.clone()).map_err(|e| format!("open start image: {e:#}"))?;
  let mut w = world.clone();
  let mut writer: Option<IndexWriter> = None;
  let mut problems = Vec::new();
  let mut inflight_commit = None;
  if w.writer_open {
    // the round starts with a recovered writer (opened before fault counting starts)
    writer = Some(index.writer().map_err(|e| format!("open recovered writer: {e:#}"))?);
  }
  st.lock().unwrap().crash_at = crash_at;
  st.lock().unwrap().counter = 0;
  for s in steps {
    if st.lock().unwrap().frozen {
      break;
    }
    {
      let mut g = st.lock().unwrap();
      g.wal_writes_in_call = 0;
      g.cur_kind = None;
    }
    match s {
      Step::OpenWriter => {
        let r = vcore::ctx::catch(|| index.writer());
        match r {
          Ok(Ok(x)) => {
            writer = Some(x);
            w.writer_open = true;
          }
          Ok(Err(e)) => {
            if !st.lock().unwrap().frozen {
              problems.push(("writer-open-fails".into(), format!("{e:#}")));
            }
          }
          Err(p) => problems.push((format!("panic:{}", vcore::ctx::panic_site(&p)), p)),
        }
      }
      Step::DropWriter => {
        // Drop syncs the log when operations are queued
        let had = !w.queue.is_empty();
        let syncs_before = st.lock().unwrap().wal_syncs;
        writer = None;
        w.writer_open = false;
        let g = st.lock().unwrap();
        if !g.frozen && had && g.wal_syncs == syncs_before {
          problems.push(("drop-did-not-sync".into(), "writer dropped with queued operations but no log sync observed".into()));
        }
        drop(g);
        // the queue lives on in the log; a later writer inherits it
      }
      Step::Add(id, d) => {
        let op_id = w.ops.len();
        w.ops.push(Op::Add { id: id.clone(), doc: d.clone() });
        w.status.push(Status::Pending);
        st.lock().unwrap().cur_kind = Some(RecKind::Op(op_id));
        let r = vcore::ctx::catch(|| writer.as_mut().unwrap().add_document(&idx::doc(d)));
        match r {
          Ok(Ok(_)) => w.queue.push(op_id),
          Ok(Err(e)) => {
            if !st.lock().unwrap().frozen {
              problems.push(("add-fails".into(), format!("{e:#}")));
            }
          }
          Err(p) => problems.push((format!("panic:{}", vcore::ctx::panic_site(&p)), p)),
        }
        if st.lock().unwrap().wal_writes_in_call > 1 {
          return Err("one add produced several log writes; record shadowing would be unsound".into());
        }
      }
      Step::Delete(id) => {
        let op_id = w.ops.len();
        w.ops.push(Op::Delete { id: id.clone() });
        w.status.push(Status::Pending);
        st.lock().unwrap().cur_kind = Some(RecKind::Op(op_id));
        let r = vcore::ctx::catch(|| writer.as_mut().unwrap().delete_document(id));
        match r {
          Ok(Ok(_)) => w.queue.push(op_id),
          Ok(Err(e)) => {
            if !st.lock().unwrap().frozen {
              problems.push(("delete-fails".into(), format!("{e:#}")));
            }
          }
          Err(p) => problems.push((format!("panic:{}", vcore::ctx::panic_site(&p)), p)),
        }
      }
      Step::Commit => {
        st.lock().unwrap().cur_kind = Some(RecKind::Marker);
        let q = w.queue.clone();
        for o in q.iter() {
          w.status[*o] = Status::Inflight;
        }
        let r = vcore::ctx::catch(|| writer.as_mut().unwrap().commit());
        match r {
          Ok(Ok(())) => {
            let ops: Vec<Op> = q.iter().map(|o| w.ops[*o].clone()).collect();
            model::apply(&mut w.committed, &ops);
            for o in q.iter() {
              w.status[*o] = Status::Committed;
            }
            w.queue.clear();
          }
          Ok(Err(e)) => {
            if st.lock().unwrap().frozen {
              inflight_commit = Some(q.clone());
            } else {
              problems.push(("commit-fails".into(), format!("{e:#}")));
              for o in q.iter() {
                w.status[*o] = Status::Pending;
              }
            }
          }
          Err(p) => problems.push((format!("panic:{}", vcore::ctx::panic_site(&p)), p)),
        }
      }
      Step::Rollback => {
        let q = w.queue.clone();
        for o in q.iter() {
          w.status[*o] = Status::RollingBack;
        }
        let r = vcore::ctx::catch(|| writer.as_mut().unwrap().rollback());
        match r {
          Ok(Ok(())) => {
            for o in q.iter() {
              w.status[*o] = Status::RolledBack;
            }
            w.queue.clear();
          }
          Ok(Err(e)) => {
            if !st.lock().unwrap().frozen {
              problems.push(("rollback-fails".into(), format!("{e:#}")));
            }
          }
          Err(p) => problems.push((format!("panic:{}", vcore::ctx::panic_site(&p)), p)),
        }
      }
    }
  }
  // crash (or end): destructors run against frozen storage and cannot change the disk
  let crashed = st.lock().unwrap().frozen;
  if !crashed {
    // a clean end is also a legitimate "crash" point: freeze before dropping the writer
    st.lock().unwrap().frozen = true;
  }
  drop(writer);
  drop(index);
  let g = st.lock().unwrap();
  let files = read_dir_image(root);
  Ok(RoundResult { total_ops: g.counter, crashed, world: w, shadow: g.shadow.clone(), files, inflight_commit, problems })
}

fn view(root: &Path) -> Result<BTreeMap<String, Value>, String> {
  let r = vcore::ctx::catch(|| -> anyhow::Result<_> {
    let index = Index::open(idx::opts(root, false))?;
    let reader = index.reader()?;
    idx::all_docs(&reader)
  });
  match r {
    Err(p) => Err(format!("panic:{}", vcore::ctx::panic_site(&p))),
    Ok(Err(e)) => Err(format!("error:{e:#}")),
    Ok(Ok(h)) => {
      let (v, d) = model::observed_view(&h);
      if !d.is_empty() {
        return Err(format!("duplicate-ids:{d:?}"));
      }
      Ok(v)
    }
  }
}

fn entry_matches(e: &WalEntry, op: &Op) -> bool {
  match (e, op) {
    (WalEntry::AddDoc(d), Op::Add { doc, .. }) => {
      let a = serde_json::to_value(&d.fields).unwrap_or(Value::Null);
      a == *doc
    }
    (WalEntry::DeleteDocId(x), Op::Delete { id }) => x == id,
    _ => false,
  }
}

struct Judged {
  recovered_ids: Vec<usize>,
  s_image: Contents,
}

/// Judge one durable image (already materialised at root). `recs` describes wal.log.
fn judge(root: &Path, schema: &gen::SchemaInfo, world: &World, recs: &[Rec], inflight: &Option<Vec<usize>>, problems: &mut Vec<(String, String)>) -> Option<Judged> {
  // committed contents of the image: last commit, or the in-flight commit fully applied
  let v0 = match view(root) {
    Ok(v) => v,
    Err(e) => {
      problems.push(("image-unopenable".into(), e));
      return None;
    }
  };
  let mut cands: Vec<Contents> = vec![world.committed.clone()];
  if let Some(q) = inflight {
    let mut c = world.committed.clone();
    let ops: Vec<Op> = q.iter().map(|o| world.ops[*o].clone()).collect();
    model::apply(&mut c, &ops);
    cands.push(c);
  }
  // Was the in-flight commit applied in this image? Only decidable when applying it changes the contents.
  let inflight_decidable = cands.len() == 2 && model::diff_views(&model::expected_view(schema, &cands[0]), &model::expected_view(schema, &cands[1])).is_some();
  let last_committed = cands[0].clone();
  let Some(s_image) = cands.into_iter().find(|c| model::diff_views(&model::expected_view(schema, c), &v0).is_none()) else {
    problems.push(("image-contents-neither-last-nor-inflight".into(), format!("ids {:?}", v0.keys().collect::<Vec<_>>())));
    return None;
  };
  // the image still shows the state before the in-flight commit: its operations are not committed yet
  let inflight_not_applied = inflight_decidable && model::diff_views(&model::expected_view(schema, &last_committed), &v0).is_none();
  // recovered operations, as the real writer would see them
  let storage = FsStorage::new(root.to_path_buf());
  let rec = vcore::ctx::catch(|| Wal::last_pending_ops(&storage, &root.join("wal.log")));
  let entries = match rec {
    Err(p) => {
      problems.push((format!("recovery-panic:{}", vcore::ctx::panic_site(&p)), p));
      return None;
    }
    Ok(Err(e)) => {
      problems.push(("recovery-error".into(), format!("{e:#}")));
      return None;
    }
    Ok(Ok(v)) => v,
  };
  // map recovered entries onto the log's records, in order
  let rec_ops: Vec<(usize, bool)> = recs.iter().filter_map(|r| if let RecKind::Op(o) = r.kind { Some((o, r.synced)) } else { None }).collect();
  // Identical operations can occur more than once in the log (two `delete d0` records carry the
  // same bytes), so an entry does not identify its record by content alone. Entries are matched
  // from the END of the log backwards: this is the order-preserving embedding that assigns every
  // entry the latest possible record, i.e. it attributes a recovered entry to a still-pending record
  // whenever any order-preserving attribution does (a left-to-right match blamed an earlier,
  // already committed twin and then reported the pending one as lost: a false alarm, seed 6).
  let mut ptr = rec_ops.len();
  let mut recovered_ids = Vec::new();
  for e in entries.iter().rev() {
    if matches!(e, WalEntry::Commit) {
      continue;
    }
    let mut found = None;
    while ptr > 0 {
      ptr -= 1;
      let (o, _) = rec_ops[ptr];
      if entry_matches(e, &world.ops[o]) {
        found = Some(o);
        break;
      }
    }
    match found {
      Some(o) => recovered_ids.push(o),
      None => {
        problems.push(("recovered-op-corrupt-duplicated-or-reordered".into(), format!("entry {:?} has no counterpart in log order", e)));
        return None;
      }
    }
  }
  recovered_ids.reverse();
  // every pending operation whose record survives completely must be recovered
  for (o, synced) in rec_ops.iter() {
    // the operations of a commit that was in flight are still owed when the image does not contain that
    // commit (they were synced by the commit attempt): losing them here loses them for good
    let owed = world.status[*o] == Status::Pending || (world.status[*o] == Status::Inflight && inflight_not_applied);
    if owed && !recovered_ids.contains(o) {
      let behind_garbage = {
        let mut seen_garbage = false;
        let mut res = false;
        for r in recs.iter() {
          if r.kind == RecKind::Garbage {
            seen_garbage = true;
          }
          if r.kind == RecKind::Op(*o) {
            res = seen_garbage;
          }
        }
        res
      };
      problems.push((
        format!("{}-op-not-recovered:{}:{}", if world.status[*o] == Status::Inflight { "inflight-commit-not-applied-and-its" } else { "pending" }, if *synced { "synced" } else { "unsynced-but-durable" }, if behind_garbage { "behind-torn-record" } else { "no-garbage-before" }),
        format!(
          "operation {} ({}) survives completely in the log but was not recovered [log records: {}; recovered: {:?}]",
          o,
          world.ops[*o].to_json(),
          recs.iter().map(|r| match &r.kind { RecKind::Op(x) => format!("op{}:{:?}{}", x, world.status[*x], if r.synced { "/synced" } else { "" }), k => format!("{k:?}") }).collect::<Vec<_>>().join(" "),
          recovered_ids
        ),
      ));
      break;
    }
  }
  // committing what was recovered must give the crash-free contents
  let live: Vec<Op> = recovered_ids
    .iter()
    .filter(|o| matches!(world.status[**o], Status::Pending | Status::Inflight | Status::RollingBack))
    .map(|o| world.ops[*o].clone())
    .collect();
  let mut expect = s_image.clone();
  model::apply(&mut expect, &live);
  let r = vcore::ctx::catch(|| -> anyhow::Result<()> {
    let index = Index::open(idx::opts(root, false))?;
    let mut w = index.writer()?;
    w.commit()?;
    Ok(())
  });
  match r {
    Err(p) => {
      problems.push((format!("recovery-commit-panic:{}", vcore::ctx::panic_site(&p)), p));
      return None;
    }
    Ok(Err(e)) => {
      problems.push(("recovery-commit-fails".into(), format!("{e:#}")));
      return None;
    }
    Ok(Ok(())) => {}
  }
  match view(root) {
    Err(e) => problems.push(("unopenable-after-recovery-commit".into(), e)),
    Ok(v) => {
      if let Some(d) = model::diff_views(&model::expected_view(schema, &expect), &v) {
        let stale: Vec<usize> = recovered_ids.iter().filter(|o| matches!(world.status[**o], Status::Committed | Status::RolledBack)).cloned().collect();
        problems.push((
          if stale.is_empty() { "contents-after-recovery-differ".into() } else { "stale-operation-reapplied".into() },
          format!("diff {d}; stale recovered ops {:?}", stale.iter().map(|o| world.ops[*o].to_json()).collect::<Vec<_>>()),
        ));
      }
    }
  }
  Some(Judged { recovered_ids, s_image })
}

fn main() {
  let args: Vec<String> = std::env::args().skip(1).collect();
  let mut ctx = Ctx::from_args("C02", "fault_enumeration", &args);
  let quick = ctx.quick();
  ctx.rule = "generated single-writer histories (open/drop writer, add, delete, commit, rollback) run on a real directory through a crash-capable Storage wrapper; for sampled (quick) / all (thorough) storage-operation boundaries the world stops, and the unsynced log tail is dropped, kept, cut after each record, or torn inside a record (every byte in thorough, sampled in quick); each image is recovered by the real code and judged: recovered list in log order, every surviving pending record recovered, contents after committing the recovered queue equal the crash-free model, nothing stale re-applied. With some probability the history continues after recovery for up to 3 crash rounds. evaluations = images judged; distinct_nontrivial = distinct (round, crash window, tail variant class, #records surviving, outcome) combinations.".into();
  ctx.assumptions = vec![
    "only the write-ahead log's unsynced tail varies between images (the property's quantifier); all other files are taken as they are on disk at the crash point; wal.log's directory entry is durable once created".into(),
    "one log write per queued operation (checked; otherwise the run is inconclusive)".into(),
    "re-applying the operations of a commit whose manifest was already persisted is allowed as long as contents do not change (README crash window)".into(),
  ];
  let schema = hist::schema();
  let n = ctx.n(40, 600);
  ctx.run_cases("hist", n, |rng: &mut Rng, l: &mut Local, scratch| {
    let root = scratch.join("idx");
    let _ = std::fs::remove_dir_all(&root);
    // fresh index
    if let Err(e) = Index::create(&root, idx::schema(&schema.to_json()).unwrap(), idx::opts(&root, false)) {
      l.inconclusive(format!("create: {e:#}"));
      return;
    }
    let mut files = read_dir_image(&root);
    let mut shadow = Shadow::default();
    let mut world = World { ops: vec![], status: vec![], committed: Contents::new(), queue: vec![], writer_open: false };
    let mut version = 0u64;
    let ids = rng.urange(2, 5);
    let mut history: Vec<Value> = Vec::new();
    for round in 0..3 {
      let n_steps = rng.urange(4, if quick { 10 } else { 14 });
      let steps = gen_steps(rng, n_steps, ids, &mut version, world.writer_open);
      let base = match run_round(&root, &files, &shadow, &world, &steps, None) {
        Ok(b) => b,
        Err(e) => {
          l.inconclusive(format!("fault-free round failed: {e}"));
          return;
        }
      };
      for (k, d) in base.problems.iter() {
        l.fail(format!("crash-free:{k}"), format!("crash-free run misbehaves: {d}"), json!({"history": history, "steps": steps.iter().map(|s| s.to_json()).collect::<Vec<_>>()}));
      }
      if !base.problems.is_empty() {
        return;
      }
      let total = base.total_ops;
      // crash points: all (thorough, round 0) or sampled
      let mut points: Vec<usize> = (0..=total).collect();
      let cap = if quick { 8 } else if round == 0 { usize::MAX } else { 10 };
      if points.len() > cap {
        rng.shuffle(&mut points);
        points.truncate(cap);
        points.sort_unstable();
      }
      let mut continuation: Option<(Image, Shadow, World, Vec<Value>)> = None;
      for cp in points {
        let rr = match run_round(&root, &files, &shadow, &world, &steps, if cp == total { None } else { Some(cp) }) {
          Ok(r) => r,
          Err(e) => {
            l.inconclusive(e);
            continue;
          }
        };
        l.count("crash_points", 1);
        // tail variants
        let np = rr.shadow.pending.len();
        let mut variants: Vec<(usize, Option<usize>, String)> = Vec::new();
        for j in 0..=np {
          variants.push((j, None, if j == 0 { "tail-dropped".into() } else if j == np { "tail-kept".into() } else { "tail-cut-at-record".into() }));
          if j < np {
            if let POp::Write { data, .. } = &rr.shadow.pending[j] {
              let len = data.len();
              let cuts: Vec<usize> = if !quick || len <= 12 {
                (1..len).collect()
              } else {
                let mut c: Vec<usize> = vec![1, 2, len / 2, len - 5, len - 4, len - 1];
                c.push(rng.urange(1, len - 1));
                c.retain(|x| *x > 0 && *x < len);
                c.sort_unstable();
                c.dedup();
                c
              };
              for t in cuts {
                variants.push((j, Some(t), "tail-torn-in-record".into()));
              }
            }
          }
        }
        let window = {
          // which call was in flight at the crash
          if !rr.crashed {
            "clean-end".to_string()
          } else if rr.inflight_commit.is_some() {
            "in-commit".to_string()
          } else if rr.world.status.iter().any(|s| *s == Status::RollingBack) {
            "in-rollback".to_string()
          } else {
            "in-add-delete-or-open".to_string()
          }
        };
        for (j, torn, vclass) in variants {
          let (wal_bytes, recs) = rr.shadow.variant(j, torn);
          let mut img = rr.files.clone();
          img.insert("wal.log".into(), wal_bytes.clone());
          if let Err(e) = crashsim::materialise(&root, &img) {
            l.inconclusive(format!("materialise: {e}"));
            continue;
          }
          let mut problems = Vec::new();
          let jd = judge(&root, &schema, &rr.world, &recs, &rr.inflight_commit, &mut problems);
          l.eval();
          let surviving = recs.iter().filter(|r| matches!(r.kind, RecKind::Op(_))).count();
          l.nontrivial(&(round, &window, &vclass, surviving.min(6), problems.is_empty()));
          l.count(&format!("images[{vclass}]"), 1);
          l.count(&format!("window[{window}]"), 1);
          l.count(&format!("round[{round}]"), 1);
          if l.samples.len() < 3 && torn.is_some() && surviving > 0 {
            l.sample(json!({"round": round, "previous_rounds": history, "steps": steps.iter().map(|s| s.to_json()).collect::<Vec<_>>(), "crash_before_storage_op": cp, "of": total,
              "window": window, "tail_variant": vclass, "torn_at": torn, "wal_len": wal_bytes.len(), "records_surviving": surviving}));
          }
          // root-cause hint: records appended after a torn record are unreachable by replay
          let after_garbage = {
            let first_g = recs.iter().position(|r| r.kind == RecKind::Garbage);
            first_g.map(|g| recs.iter().skip(g + 1).any(|r| r.kind != RecKind::Garbage)).unwrap_or(false)
          };
          for (k, d) in problems.iter() {
            let k0 = k.split(':').next().unwrap_or(k);
            l.fail(
              if after_garbage { format!("{k0}:log-has-records-appended-after-torn-record") } else { format!("{k}:{window}:{vclass}") },
              format!("round {round}, crash before storage op {cp}/{total} ({window}), log {vclass}: {k}: {d}"),
              json!({"previous_rounds": history, "steps": steps.iter().map(|s| s.to_json()).collect::<Vec<_>>(), "crash_before_storage_op": cp, "tail_ops_kept": j, "torn_at": torn, "wal_len": wal_bytes.len()}),
            );
          }
          // candidate for the next round: continue from this image with the recovered queue
          if let Some(jd) = jd {
            if problems.is_empty() && continuation.is_none() && rng.chance(0.08) || (problems.is_empty() && torn.is_some() && continuation.is_none() && rng.chance(0.15)) {
              let mut w2 = rr.world.clone();
              // what the next writer will hold: recovered live operations
              let live: Vec<usize> = jd.recovered_ids.iter().filter(|o| matches!(w2.status[**o], Status::Pending | Status::Inflight | Status::RollingBack)).cloned().collect();
              for (o, s) in w2.status.iter_mut().enumerate() {
                match s {
                  Status::Pending | Status::Inflight | Status::RollingBack => {
                    if live.contains(&o) {
                      *s = Status::Pending;
                    } else if *s == Status::Inflight && jd.s_image != rr.world.committed {
                      *s = Status::Committed;
                    } else {
                      // lost with the unsynced tail (or rolled back): gone for good
                      *s = Status::RolledBack;
                    }
                  }
                  _ => {}
                }
              }
              w2.committed = jd.s_image.clone();
              w2.queue = live;
              w2.writer_open = true;
              let sh = Shadow { dur_bytes: wal_bytes.clone(), dur_recs: recs.iter().map(|r| Rec { synced: true, ..r.clone() }).collect(), vol_len: wal_bytes.len(), pending: vec![] };
              let mut h2 = history.clone();
              h2.push(json!({"round": round, "steps": steps.iter().map(|s| s.to_json()).collect::<Vec<_>>(), "crash_before_storage_op": cp, "window": window, "tail_variant": vclass, "torn_at": torn}));
              continuation = Some((img.clone(), sh, w2, h2));
            }
          }
        }
      }
      match continuation {
        Some((f, s, w, h)) => {
          files = f;
          shadow = s;
          world = w;
          history = h;
          l.count("continuations", 1);
        }
        None => break,
      }
    }
    let _ = std::fs::remove_dir_all(&root);
  });
  std::process::exit(ctx.finish());
}
