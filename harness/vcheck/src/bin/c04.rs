//! C04 — Committed contents follow upsert/delete/rollback semantics.
//! Oracle: sequential content/queue model compared with a fresh reader after every call.
use searchlite_core::api::{Index, IndexWriter};
use searchlite_core::storage::{FsStorage, InMemoryStorage, Storage};
use serde_json::{json, Value};
use std::path::Path;
use std::sync::Arc;
use vcheck::hist::{self, Call, HistCfg};
use vcore::gen::SchemaInfo;
use vcore::model::{self, Handle, Model};
use vcore::{idx, Ctx, Local, Rng};

struct RunCfg {
  in_memory: bool,
  positions: bool,
}

#[derive(Debug)]
struct Divergence {
  step: usize,
  kind: String,
  detail: Value,
}

/// Execute a history against the real engine and the model; first divergence wins.
fn run_history(dir: &Path, schema: &SchemaInfo, calls: &[Call], cfg: &RunCfg, l: Option<&mut Local>) -> Option<Divergence> {
  let _ = std::fs::remove_dir_all(dir);
  std::fs::create_dir_all(dir).unwrap();
  let storage: Arc<dyn Storage> = if cfg.in_memory {
    Arc::new(InMemoryStorage::new(dir.to_path_buf()))
  } else {
    Arc::new(FsStorage::new(dir.to_path_buf()))
  };
  let opts = idx::opts_full(dir, cfg.in_memory, cfg.positions, 1.2, 0.75);
  let sch = idx::schema(&schema.to_json()).expect("schema");
  let mut index = match Index::create_with_storage(dir, sch, opts.clone(), storage.clone()) {
    Ok(i) => i,
    Err(e) => {
      return Some(Divergence { step: 0, kind: "api-error:create".into(), detail: json!(e.to_string()) })
    }
  };
  let mut m = Model::default();
  let nh = 3;
  let mut mh: Vec<Option<Handle>> = vec![None; nh];
  let mut wh: Vec<Option<IndexWriter>> = (0..nh).map(|_| None).collect();
  let mut compares = 0u64;
  let mut l = l;
  for (i, c) in calls.iter().enumerate() {
    hist::model_step(&mut m, &mut mh, c);
    let res = vcore::ctx::catch(|| -> anyhow::Result<()> {
      if let Call::Reopen = c {
        for w in wh.iter_mut() {
          *w = None;
        }
        index = Index::open_with_storage(opts.clone(), storage.clone())?;
        Ok(())
      } else {
        hist::engine_step(&index, &mut wh, c)
      }
    });
    match res {
      Err(p) => {
        return Some(Divergence {
          step: i,
          kind: format!("panic:{}:{}", c.kind(), vcore::ctx::panic_site(&p)),
          detail: json!(p),
        })
      }
      Ok(Err(e)) => {
        return Some(Divergence { step: i, kind: format!("api-error:{}", c.kind()), detail: json!(format!("{e:#}")) })
      }
      Ok(Ok(())) => {}
    }
    // a fresh reader after every call: queued ops must stay invisible, committed ones visible
    let view = vcore::ctx::catch(|| -> anyhow::Result<_> {
      let r = index.reader()?;
      idx::all_docs(&r)
    });
    let hits = match view {
      Err(p) => return Some(Divergence { step: i, kind: format!("panic:reader:{}", vcore::ctx::panic_site(&p)), detail: json!(p) }),
      Ok(Err(e)) => return Some(Divergence { step: i, kind: "api-error:reader".into(), detail: json!(format!("{e:#}")) }),
      Ok(Ok(h)) => h,
    };
    compares += 1;
    let (obs, dups) = model::observed_view(&hits);
    if !dups.is_empty() {
      return Some(Divergence { step: i, kind: "duplicate-id".into(), detail: json!(dups) });
    }
    let exp = model::expected_view(schema, &m.committed);
    if let Some(d) = model::diff_views(&exp, &obs) {
      return Some(Divergence { step: i, kind: format!("contents-differ-after:{}", c.kind()), detail: d });
    }
  }
  if let Some(l) = l.as_mut() {
    l.evals_add(compares);
  }
  None
}

/// True when two handles were alive at the same time and both appended while so.
fn overlapping_appends(calls: &[Call], upto: usize) -> bool {
  let mut alive = [false; 3];
  let mut appended_while_shared = [false; 3];
  for c in calls.iter().take(upto + 1) {
    match c {
      Call::Open(h) => {
        alive[*h] = true;
      }
      Call::Drop(h) => alive[*h] = false,
      Call::Reopen => alive = [false; 3],
      Call::Add(h, ..) | Call::Delete(h, _) => {
        // sticky: once two live handles shared the log while one appended, the log may be clobbered
        if alive.iter().filter(|a| **a).count() >= 2 {
          appended_while_shared[*h] = true;
        }
      }
      _ => {}
    }
  }
  appended_while_shared.iter().filter(|a| **a).count() >= 1
}

fn shrink(dir: &Path, schema: &SchemaInfo, calls: &[Call], cfg: &RunCfg, kind: &str) -> Vec<Call> {
  // greedy single-call removal keeping the history well formed and the divergence kind
  let mut cur: Vec<Call> = calls.to_vec();
  let well_formed = |cs: &[Call]| -> bool {
    let mut alive = [false; 3];
    for c in cs {
      match c {
        Call::Open(h) => {
          if alive[*h] {
            return false;
          }
          alive[*h] = true
        }
        Call::Drop(h) => {
          if !alive[*h] {
            return false;
          }
          alive[*h] = false
        }
        Call::Reopen => alive = [false; 3],
        Call::Add(h, ..) | Call::Delete(h, _) | Call::Commit(h) | Call::Rollback(h) => {
          if !alive[*h] {
            return false;
          }
        }
        Call::Compact => {}
      }
    }
    true
  };
  let mut changed = true;
  let mut budget = 400;
  while changed && budget > 0 {
    changed = false;
    let mut i = 0;
    while i < cur.len() && budget > 0 {
      let mut cand = cur.clone();
      cand.remove(i);
      if well_formed(&cand) {
        budget -= 1;
        if let Some(d) = run_history(dir, schema, &cand, cfg, None) {
          if d.kind == kind {
            cur = cand;
            changed = true;
            continue;
          }
        }
      }
      i += 1;
    }
  }
  cur
}

fn main() {
  let args: Vec<String> = std::env::args().skip(1).collect();
  let mut ctx = Ctx::from_args("C04", "exploration", &args);
  ctx.rule = "seeded histories of add/delete/commit/rollback/compact/reopen/open-handle/drop-handle calls over 3-8 ids and up to 3 writer handles, on Filesystem and InMemory storage, positions on/off; after EVERY call a fresh reader's match_all (stored fields) is compared with the sequential content/queue model. evaluations = model comparisons; a history is non-trivial (and counted once, by hash of its call sequence + configuration) when it contains at least one commit that changed the committed contents and at least one of delete/rollback/compact/reopen.".into();
  ctx.assumptions = vec![
    "storage is healthy (no injected faults) and the process does not crash".into(),
    "stored fields are compared modulo representation trivia: null/[]/absent equal, one-element array equals its element, numbers compare numerically".into(),
    "a handle opened while the shared log holds uncommitted records inherits them (DESIGN C04 model)".into(),
  ];
  let n = ctx.n(160, 6000);
  let schema = hist::schema();
  let quick = ctx.quick();
  ctx.run_cases("hist", n, |rng: &mut Rng, l: &mut Local, scratch| {
    let cfg = HistCfg {
      len: if quick { rng.urange(20, 120) } else { rng.urange(20, 300) },
      ids: rng.urange(3, 8),
      max_handles: rng.urange(1, 3),
      p_commit: 0.12,
      p_rollback: 0.04,
      p_compact: 0.04,
      p_reopen: 0.03,
    };
    let calls = hist::gen_history(rng, &cfg);
    let rc = RunCfg { in_memory: rng.chance(0.4), positions: rng.chance(0.7) };
    let dir = scratch.join("idx");
    let div = run_history(&dir, &schema, &calls, &rc, Some(l));
    // non-triviality
    let commits = calls.iter().filter(|c| matches!(c, Call::Commit(_))).count();
    let other = calls
      .iter()
      .filter(|c| matches!(c, Call::Delete(..) | Call::Rollback(_) | Call::Compact | Call::Reopen))
      .count();
    if commits > 0 && other > 0 {
      let text = serde_json::to_string(&calls.iter().map(|c| c.to_json()).collect::<Vec<_>>()).unwrap();
      l.nontrivial(&(text, rc.in_memory, rc.positions));
    }
    l.count(if rc.in_memory { "histories_inmemory" } else { "histories_filesystem" }, 1);
    l.count("calls", calls.len() as u64);
    if cfg.max_handles > 1 {
      l.count("histories_multi_handle", 1);
    }
    if l.samples.is_empty() {
      l.sample(json!({"storage": if rc.in_memory {"InMemory"} else {"Filesystem"}, "positions": rc.positions,
        "calls": calls.iter().take(25).map(|c| c.to_json()).collect::<Vec<_>>(), "total_calls": calls.len()}));
    }
    if let Some(d) = div {
      if l.fails.iter().any(|f| f.signature.ends_with(&d.kind)) {
        // already have a minimised witness of this kind from this worker: count only
        l.count(&format!("fail[{}]", d.kind), 1);
        let _ = std::fs::remove_dir_all(&dir);
        return;
      }
      // classify
      let min = shrink(&dir, &schema, &calls, &rc, &d.kind);
      let d2 = run_history(&dir, &schema, &min, &rc, None);
      let step = d2.as_ref().map(|x| x.step).unwrap_or(0);
      let mut sig = d.kind.clone();
      if rc.in_memory && overlapping_appends(&min, step) {
        // the same (minimised) history on a real directory
        let fs = RunCfg { in_memory: false, positions: rc.positions };
        if run_history(&dir, &schema, &min, &fs, None).is_none() {
          sig = format!("inmemory-multi-handle-log-clobber:{}", d.kind);
        }
      }
      l.fail(
        sig,
        format!("history diverges from the content model at step {}: {}", step, d.kind),
        json!({
          "storage": if rc.in_memory {"InMemory"} else {"Filesystem"}, "positions": rc.positions,
          "minimised_calls": min.iter().map(|c| c.to_json()).collect::<Vec<_>>(),
          "divergence": d2.map(|x| json!({"step": x.step, "kind": x.kind, "detail": x.detail})),
          "original_len": calls.len(),
        }),
      );
    }
    let _ = std::fs::remove_dir_all(&dir);
  });
  std::process::exit(ctx.finish());
}
