//! Shared by C12 and C30: corpus generator, commit-layout builder, an independent
//! aggregation oracle (computed from the original JSON documents and the documented
//! semantics only), a spec-driven comparator and a random aggregation-tree generator.
#![allow(dead_code)]
use searchlite_core::api::Index;
use serde_json::{json, Map, Value};
use std::cmp::Ordering;
use std::collections::{BTreeMap, BTreeSet};
use std::path::Path;
use vcore::{idx, Rng};

// ---------------------------------------------------------------------------------------------
// schema / corpus
// ---------------------------------------------------------------------------------------------

/// keyword vocabulary: lower-case ASCII only (keyword filters are case-insensitive, which is
/// another property's business), with keys that are prefixes of one another.
pub const KW: &[&str] = &["a", "ab", "abc", "b", "ba", "c", "red", "green", "blue", "x", "xy", "re"];
pub const BODY: &[&str] = &["rust", "search", "engine", "index", "query", "fast"];
pub const MISSING_KW: &str = "zz_none";
/// 2023-11-13T00:00:00Z (a Monday)
pub const TS_BASE: i64 = 1_699_833_600_000;

#[derive(Clone, Copy, PartialEq, Eq, Debug)]
pub enum FK {
  Kw,
  I64,
  F64,
}

pub fn field_kind(f: &str) -> FK {
  match f {
    "k1" | "k2" => FK::Kw,
    "x1" | "x2" => FK::F64,
    _ => FK::I64,
  }
}

pub const NUM_FIELDS: &[&str] = &["n1", "n2", "x1", "x2"];
pub const KW_FIELDS: &[&str] = &["k1", "k2"];

pub fn schema_json() -> Value {
  let kw = |n: &str| json!({"name": n, "stored": true, "indexed": true, "fast": true, "nullable": true});
  let num = |n: &str, i: bool| json!({"name": n, "i64": i, "fast": true, "stored": true, "nullable": true});
  json!({
    "doc_id_field": "_id",
    "analyzers": [],
    "text_fields": [{"name": "body", "analyzer": "default", "stored": true, "indexed": true, "nullable": true}],
    "keyword_fields": [kw("k1"), kw("k2")],
    "numeric_fields": [num("n1", true), num("n2", true), num("x1", false), num("x2", false), num("ts", true), num("seq", true)],
    "nested_fields": [],
  })
}

fn eighth(rng: &mut Rng, lo: i64, hi: i64) -> f64 {
  rng.range(lo, hi) as f64 / 8.0
}

/// 20..200 documents; single / multi-valued / missing keyword, i64 and f64 fast fields; small
/// zipf-distributed vocabularies so that per-segment and global counts disagree once the
/// corpus is split into several commits.
pub fn gen_corpus(rng: &mut Rng, n: usize) -> Vec<Value> {
  let mut seqs: Vec<i64> = (0..n as i64).collect();
  rng.shuffle(&mut seqs);
  let kwn = rng.urange(4, KW.len());
  let mut out = Vec::with_capacity(n);
  for i in 0..n {
    let mut m = Map::new();
    m.insert("_id".into(), json!(format!("d{i:03}")));
    let words: Vec<&str> = (0..rng.urange(1, 4)).map(|_| BODY[rng.zipf(BODY.len())]).collect();
    m.insert("body".into(), json!(words.join(" ")));
    // k1: single / missing
    match rng.below(20) {
      0 | 1 => {}
      2 => {
        m.insert("k1".into(), Value::Null);
      }
      _ => {
        m.insert("k1".into(), json!(KW[rng.zipf(kwn)]));
      }
    }
    // k2: multi-valued (duplicates inside one document allowed)
    let c = [0usize, 1, 1, 2, 2, 3][rng.usize(6)];
    let vals: Vec<&str> = (0..c).map(|_| KW[rng.zipf(kwn)]).collect();
    match c {
      0 => {
        if rng.chance(0.3) {
          m.insert("k2".into(), json!([]));
        }
      }
      1 if rng.chance(0.5) => {
        m.insert("k2".into(), json!(vals[0]));
      }
      _ => {
        m.insert("k2".into(), json!(vals));
      }
    }
    if rng.chance(0.85) {
      m.insert("n1".into(), json!(rng.range(-6, 12)));
    }
    let c = [0usize, 1, 2, 2, 3][rng.usize(5)];
    if c > 0 {
      let v: Vec<i64> = (0..c).map(|_| rng.range(-4, 8)).collect();
      m.insert("n2".into(), if c == 1 && rng.chance(0.5) { json!(v[0]) } else { json!(v) });
    }
    if rng.chance(0.85) {
      m.insert("x1".into(), json!(eighth(rng, -40, 120)));
    }
    let c = [0usize, 1, 2, 2, 3][rng.usize(5)];
    if c > 0 {
      let v: Vec<f64> = (0..c).map(|_| eighth(rng, -24, 64)).collect();
      m.insert("x2".into(), if c == 1 && rng.chance(0.5) { json!(v[0]) } else { json!(v) });
    }
    if rng.chance(0.9) {
      let day = rng.zipf(100) as i64;
      let minute = if rng.chance(0.15) { 0 } else { rng.range(0, 1439) };
      m.insert("ts".into(), json!(TS_BASE + day * 86_400_000 + minute * 60_000));
    }
    m.insert("seq".into(), json!(seqs[i]));
    out.push(Value::Object(m));
  }
  out
}

pub fn doc_id(d: &Value) -> &str {
  d.get("_id").and_then(|v| v.as_str()).unwrap_or("")
}

pub fn strs(d: &Value, f: &str) -> Vec<String> {
  match d.get(f) {
    Some(Value::String(s)) => vec![s.clone()],
    Some(Value::Array(a)) => a.iter().filter_map(|v| v.as_str().map(|s| s.to_string())).collect(),
    _ => vec![],
  }
}

pub fn nums(d: &Value, f: &str) -> Vec<f64> {
  match d.get(f) {
    Some(Value::Number(n)) => n.as_f64().into_iter().collect(),
    Some(Value::Array(a)) => a.iter().filter_map(|v| v.as_f64()).collect(),
    _ => vec![],
  }
}

fn nums_or(d: &Value, f: &str, missing: Option<f64>) -> Vec<f64> {
  let mut v = nums(d, f);
  if v.is_empty() {
    if let Some(m) = missing {
      v.push(m);
    }
  }
  v
}

// ---------------------------------------------------------------------------------------------
// query / filter matching (oracle side)
// ---------------------------------------------------------------------------------------------

pub fn eval_filter(d: &Value, f: &Value) -> bool {
  let Some(o) = f.as_object() else { return false };
  let Some((tag, body)) = o.iter().next() else { return false };
  match tag.as_str() {
    "KeywordEq" => {
      let v = body["value"].as_str().unwrap_or("");
      strs(d, body["field"].as_str().unwrap_or("")).iter().any(|s| s.eq_ignore_ascii_case(v))
    }
    "KeywordIn" => {
      let vs: Vec<&str> = body["values"].as_array().map(|a| a.iter().filter_map(|x| x.as_str()).collect()).unwrap_or_default();
      strs(d, body["field"].as_str().unwrap_or("")).iter().any(|s| vs.iter().any(|v| s.eq_ignore_ascii_case(v)))
    }
    "I64Range" => {
      let (lo, hi) = (body["min"].as_i64().unwrap_or(0) as f64, body["max"].as_i64().unwrap_or(0) as f64);
      nums(d, body["field"].as_str().unwrap_or("")).iter().any(|v| *v >= lo && *v <= hi)
    }
    "F64Range" => {
      let (lo, hi) = (body["min"].as_f64().unwrap_or(0.0), body["max"].as_f64().unwrap_or(0.0));
      nums(d, body["field"].as_str().unwrap_or("")).iter().any(|v| *v >= lo && *v <= hi)
    }
    "And" => body.as_array().map(|a| a.iter().all(|x| eval_filter(d, x))).unwrap_or(false),
    "Or" => body.as_array().map(|a| a.iter().any(|x| eval_filter(d, x))).unwrap_or(false),
    "Not" => !eval_filter(d, body),
    _ => false,
  }
}

/// `query` is match_all or a single term on `body`; `filter` is the request-level filter.
pub fn matches(d: &Value, query: &Value, filter: Option<&Value>) -> bool {
  let q = match query.get("type").and_then(|t| t.as_str()) {
    Some("match_all") => true,
    Some("term") => {
      let w = query["value"].as_str().unwrap_or("");
      d.get("body").and_then(|b| b.as_str()).map(|b| b.split_whitespace().any(|t| t == w)).unwrap_or(false)
    }
    _ => false,
  };
  q && filter.map(|f| eval_filter(d, f)).unwrap_or(true)
}

pub fn gen_filter(rng: &mut Rng, depth: usize) -> Value {
  let r = if depth == 0 { rng.below(5) } else { rng.below(8) };
  match r {
    0 | 1 => json!({"KeywordEq": {"field": *rng.pick(KW_FIELDS), "value": KW[rng.zipf(KW.len())]}}),
    2 => {
      let n = rng.urange(1, 3);
      let vs: Vec<&str> = (0..n).map(|_| KW[rng.zipf(KW.len())]).collect();
      json!({"KeywordIn": {"field": *rng.pick(KW_FIELDS), "values": vs}})
    }
    3 => {
      let lo = rng.range(-5, 8);
      json!({"I64Range": {"field": *rng.pick(&["n1", "n2"]), "min": lo, "max": lo + rng.range(0, 8)}})
    }
    4 => {
      let lo = eighth(rng, -40, 80);
      json!({"F64Range": {"field": *rng.pick(&["x1", "x2"]), "min": lo, "max": lo + eighth(rng, 0, 60)}})
    }
    5 => json!({"And": [gen_filter(rng, depth - 1), gen_filter(rng, depth - 1)]}),
    6 => json!({"Or": [gen_filter(rng, depth - 1), gen_filter(rng, depth - 1)]}),
    _ => json!({"Not": gen_filter(rng, depth - 1)}),
  }
}

// ---------------------------------------------------------------------------------------------
// dates (proleptic Gregorian, UTC) -- chrono is not a harness dependency
// ---------------------------------------------------------------------------------------------

pub fn days_from_civil(y: i64, m: i64, d: i64) -> i64 {
  let y = if m <= 2 { y - 1 } else { y };
  let era = if y >= 0 { y } else { y - 399 } / 400;
  let yoe = y - era * 400;
  let mp = (m + 9) % 12;
  let doy = (153 * mp + 2) / 5 + d - 1;
  let doe = yoe * 365 + yoe / 4 - yoe / 100 + doy;
  era * 146_097 + doe - 719_468
}

pub fn civil_from_days(z: i64) -> (i64, i64, i64) {
  let z = z + 719_468;
  let era = if z >= 0 { z } else { z - 146_096 } / 146_097;
  let doe = z - era * 146_097;
  let yoe = (doe - doe / 1460 + doe / 36_524 - doe / 146_096) / 365;
  let y = yoe + era * 400;
  let doy = doe - (365 * yoe + yoe / 4 - yoe / 100);
  let mp = (5 * doy + 2) / 153;
  let d = doy - (153 * mp + 2) / 5 + 1;
  let m = if mp < 10 { mp + 3 } else { mp - 9 };
  (if m <= 2 { y + 1 } else { y }, m, d)
}

const DAY_MS: i64 = 86_400_000;

pub fn rfc3339(ms: i64, tz_minutes: i64) -> String {
  let local = ms + tz_minutes * 60_000;
  let days = local.div_euclid(DAY_MS);
  let rem = local.rem_euclid(DAY_MS);
  let (y, m, d) = civil_from_days(days);
  let (h, mi, s, milli) = (rem / 3_600_000, rem / 60_000 % 60, rem / 1000 % 60, rem % 1000);
  let frac = if milli != 0 { format!(".{milli:03}") } else { String::new() };
  let tz = if tz_minutes == 0 {
    "Z".to_string()
  } else {
    format!("{}{:02}:{:02}", if tz_minutes < 0 { '-' } else { '+' }, tz_minutes.abs() / 60, tz_minutes.abs() % 60)
  };
  format!("{y:04}-{m:02}-{d:02}T{h:02}:{mi:02}:{s:02}{frac}{tz}")
}

/// numeric string or the RFC3339 shapes produced by `rfc3339`
pub fn parse_date(s: &str) -> Option<f64> {
  let b = s.as_bytes();
  if b.len() >= 20 && b[4] == b'-' && b[7] == b'-' && b[10] == b'T' {
    let num = |a: usize, z: usize| s.get(a..z).and_then(|x| x.parse::<i64>().ok());
    let (y, m, d, h, mi, sec) = (num(0, 4)?, num(5, 7)?, num(8, 10)?, num(11, 13)?, num(14, 16)?, num(17, 19)?);
    let mut pos = 19;
    let mut milli = 0;
    if b[pos] == b'.' {
      milli = num(pos + 1, pos + 4)?;
      pos += 4;
    }
    let tz = match b[pos] {
      b'Z' => 0,
      sign @ (b'+' | b'-') => {
        let v = num(pos + 1, pos + 3)? * 60 + num(pos + 4, pos + 6)?;
        if sign == b'-' {
          -v
        } else {
          v
        }
      }
      _ => return None,
    };
    let ms = days_from_civil(y, m, d) * DAY_MS + h * 3_600_000 + mi * 60_000 + sec * 1000 + milli - tz * 60_000;
    return Some(ms as f64);
  }
  s.parse::<f64>().ok()
}

/// "30m", "1h", "90s", "1d", "1500ms" -> milliseconds
pub fn parse_interval_ms(s: &str) -> Option<i64> {
  let idx = s.find(|c: char| !(c.is_ascii_digit() || c == '.')).unwrap_or(s.len());
  if idx == 0 {
    return None;
  }
  let v: f64 = s[..idx].parse().ok()?;
  let mult = match &s[idx..] {
    "" | "s" => 1.0,
    "ms" => 0.001,
    "m" => 60.0,
    "h" => 3600.0,
    "d" => 86_400.0,
    "w" => 604_800.0,
    _ => return None,
  };
  Some((v * mult * 1000.0) as i64)
}

#[derive(Clone, Copy, PartialEq, Eq, Debug)]
pub enum Cal {
  Day,
  Week,
  Month,
  Quarter,
  Year,
}

pub fn parse_cal(s: &str) -> Option<Cal> {
  match s.to_ascii_lowercase().as_str() {
    "day" | "1d" => Some(Cal::Day),
    "week" | "1w" => Some(Cal::Week),
    "month" | "1m" => Some(Cal::Month),
    "quarter" | "1q" => Some(Cal::Quarter),
    "year" | "1y" => Some(Cal::Year),
    _ => None,
  }
}

pub fn trunc_cal(ms: i64, unit: Cal) -> i64 {
  let days = ms.div_euclid(DAY_MS);
  let (y, m, _d) = civil_from_days(days);
  let start = match unit {
    Cal::Day => days,
    // 1970-01-01 was a Thursday; weeks start on Monday
    Cal::Week => days - (days + 3).rem_euclid(7),
    Cal::Month => days_from_civil(y, m, 1),
    Cal::Quarter => days_from_civil(y, (m - 1) / 3 * 3 + 1, 1),
    Cal::Year => days_from_civil(y, 1, 1),
  };
  start * DAY_MS
}

/// start of the unit following the one that starts at `start_ms`
pub fn next_cal(start_ms: i64, unit: Cal) -> i64 {
  let days = start_ms.div_euclid(DAY_MS);
  let (y, m, _) = civil_from_days(days);
  let next = match unit {
    Cal::Day => days + 1,
    Cal::Week => days + 7,
    Cal::Month => {
      if m == 12 {
        days_from_civil(y + 1, 1, 1)
      } else {
        days_from_civil(y, m + 1, 1)
      }
    }
    Cal::Quarter => {
      if m + 3 > 12 {
        days_from_civil(y + 1, m + 3 - 12, 1)
      } else {
        days_from_civil(y, m + 3, 1)
      }
    }
    Cal::Year => days_from_civil(y + 1, 1, 1),
  };
  next * DAY_MS
}

// ---------------------------------------------------------------------------------------------
// oracle
// ---------------------------------------------------------------------------------------------

/// `dh_ceil`: fixed-interval date_histogram bucket keys rounded up instead of down. The README
/// does not say which way a timestamp is assigned to a fixed interval and the repository's own
/// test (`date_histogram_fixed_interval_respects_offset_and_missing`) pins the rounded-up keys,
/// so the checks accept either convention (applied consistently within one response).
#[derive(Clone, Copy, Default)]
pub struct Oracle {
  pub dh_ceil: bool,
}

fn fmt_f64(p: f64) -> String {
  format!("{p}")
}

fn opt_f64(v: Option<&Value>) -> Option<f64> {
  v.and_then(|x| x.as_f64().or_else(|| x.as_str().and_then(|s| s.parse().ok())))
}

fn key_string(k: &Value) -> String {
  k.as_str().map(|s| s.to_string()).unwrap_or_else(|| k.to_string())
}

fn sub_specs(spec: &Value) -> Option<&Map<String, Value>> {
  spec.get("aggs").and_then(|a| a.as_object()).filter(|m| !m.is_empty())
}

#[derive(Clone, Debug, PartialEq)]
pub enum KeyPart {
  S(String),
  N(f64),
}

impl KeyPart {
  pub fn cmp(&self, o: &KeyPart) -> Ordering {
    match (self, o) {
      (KeyPart::S(a), KeyPart::S(b)) => a.cmp(b),
      (KeyPart::N(a), KeyPart::N(b)) => a.total_cmp(b),
      (KeyPart::S(_), KeyPart::N(_)) => Ordering::Less,
      (KeyPart::N(_), KeyPart::S(_)) => Ordering::Greater,
    }
  }
  pub fn json(&self) -> Value {
    match self {
      KeyPart::S(s) => json!(s),
      KeyPart::N(n) => json!(n),
    }
  }
}

pub fn cmp_parts(a: &[KeyPart], b: &[KeyPart]) -> Ordering {
  for (x, y) in a.iter().zip(b.iter()) {
    let o = x.cmp(y);
    if o != Ordering::Equal {
      return o;
    }
  }
  a.len().cmp(&b.len())
}

/// composite key object -> parts in source order
pub fn composite_parts(key: &Value, sources: &[Value]) -> Option<Vec<KeyPart>> {
  let o = key.as_object()?;
  let mut out = Vec::new();
  for s in sources {
    let v = o.get(s["name"].as_str()?)?;
    if s["type"] == "terms" {
      out.push(KeyPart::S(v.as_str()?.to_string()));
    } else {
      out.push(KeyPart::N(v.as_f64()?));
    }
  }
  Some(out)
}

impl Oracle {
  pub fn aggs(&self, specs: &Map<String, Value>, docs: &[&Value]) -> Value {
    let mut out = Map::new();
    for (name, spec) in specs {
      out.insert(name.clone(), self.node(spec, docs));
    }
    Value::Object(out)
  }

  fn bucket(&self, spec: &Value, key: Value, docs: &[&Value]) -> Value {
    let mut b = Map::new();
    b.insert("key".into(), key);
    b.insert("doc_count".into(), json!(docs.len()));
    if let Some(sub) = sub_specs(spec) {
      b.insert("aggregations".into(), self.aggs(sub, docs));
    }
    Value::Object(b)
  }

  pub fn node(&self, spec: &Value, docs: &[&Value]) -> Value {
    let ty = spec["type"].as_str().unwrap_or("");
    let field = spec.get("field").and_then(|f| f.as_str()).unwrap_or("");
    match ty {
      "terms" | "rare_terms" => {
        let rare = ty == "rare_terms";
        let missing = if rare { None } else { spec.get("missing").filter(|m| !m.is_null()) };
        let mut groups: BTreeMap<String, (Value, Vec<&Value>)> = BTreeMap::new();
        for d in docs {
          let set: BTreeSet<String> = strs(d, field).into_iter().collect();
          if set.is_empty() {
            if let Some(m) = missing {
              groups.entry(key_string(m)).or_insert_with(|| (m.clone(), vec![])).1.push(d);
            }
            continue;
          }
          for s in set {
            groups.entry(s.clone()).or_insert_with(|| (json!(s), vec![])).1.push(d);
          }
        }
        let mut list: Vec<(String, Value, Vec<&Value>)> = groups.into_iter().map(|(k, (v, ds))| (k, v, ds)).collect();
        if rare {
          let max = spec.get("max_doc_count").and_then(|v| v.as_u64()).unwrap_or(1) as usize;
          list.retain(|(_, _, ds)| !ds.is_empty() && ds.len() <= max);
          list.sort_by(|a, b| a.2.len().cmp(&b.2.len()).then_with(|| a.0.cmp(&b.0)));
        } else {
          let min = spec.get("min_doc_count").and_then(|v| v.as_u64()).unwrap_or(1) as usize;
          list.retain(|(_, _, ds)| ds.len() >= min);
          list.sort_by(|a, b| b.2.len().cmp(&a.2.len()).then_with(|| a.0.cmp(&b.0)));
        }
        if let Some(size) = spec.get("size").and_then(|v| v.as_u64()) {
          list.truncate(size as usize);
        }
        let buckets: Vec<Value> = list.into_iter().map(|(_, k, ds)| self.bucket(spec, k, &ds)).collect();
        json!({"type": ty, "buckets": buckets})
      }
      "range" | "date_range" => {
        let date = ty == "date_range";
        let bound = |v: Option<&Value>| -> Option<f64> {
          let v = v.filter(|x| !x.is_null())?;
          if date {
            v.as_str().and_then(parse_date).or_else(|| v.as_f64())
          } else {
            v.as_f64()
          }
        };
        let missing = if date { bound(spec.get("missing")) } else { opt_f64(spec.get("missing")) };
        let mut buckets = Vec::new();
        for r in spec["ranges"].as_array().cloned().unwrap_or_default() {
          let (from, to) = (bound(r.get("from")), bound(r.get("to")));
          let ds: Vec<&Value> = docs
            .iter()
            .copied()
            .filter(|d| nums_or(d, field, missing).iter().any(|v| from.map(|f| *v >= f).unwrap_or(true) && to.map(|t| *v < t).unwrap_or(true)))
            .collect();
          let key = match r.get("key").and_then(|k| k.as_str()) {
            Some(k) => json!(k),
            None => json!({"from": from, "to": to}),
          };
          buckets.push(self.bucket(spec, key, &ds));
        }
        json!({"type": ty, "buckets": buckets, "keyed": spec["keyed"].as_bool().unwrap_or(false)})
      }
      "histogram" => {
        let interval = spec["interval"].as_f64().unwrap_or(1.0);
        let offset = spec.get("offset").and_then(|v| v.as_f64()).unwrap_or(0.0);
        let missing = spec.get("missing").and_then(|v| v.as_f64());
        let b2 = |k: &str| spec.get(k).filter(|v| !v.is_null()).map(|b| (b["min"].as_f64().unwrap_or(0.0), b["max"].as_f64().unwrap_or(0.0)));
        let (ext, hard) = (b2("extended_bounds"), b2("hard_bounds"));
        let min_dc = spec.get("min_doc_count").and_then(|v| v.as_u64());
        let bid = |v: f64| ((v - offset) / interval).floor() as i64;
        let mut groups: BTreeMap<i64, Vec<&Value>> = BTreeMap::new();
        for d in docs {
          let mut seen = BTreeSet::new();
          for v in nums_or(d, field, missing) {
            if let Some((lo, hi)) = hard {
              if v < lo || v > hi {
                continue;
              }
            }
            if seen.insert(bid(v)) {
              groups.entry(bid(v)).or_default().push(d);
            }
          }
        }
        let thr = min_dc.unwrap_or(1).max(1) as usize;
        groups.retain(|_, ds| ds.len() >= thr);
        let zeros_ok = min_dc.unwrap_or(0) == 0;
        if zeros_ok {
          if let Some((lo, hi)) = ext {
            for b in bid(lo)..=bid(hi) {
              groups.entry(b).or_default();
            }
          }
        }
        let buckets: Vec<Value> = groups.iter().map(|(b, ds)| self.bucket(spec, json!(*b as f64 * interval + offset), ds)).collect();
        json!({"type": ty, "buckets": buckets, "_zeros_optional": zeros_ok})
      }
      "date_histogram" => {
        let off = spec.get("offset").and_then(|v| v.as_str()).and_then(parse_interval_ms).unwrap_or(0);
        let cal = spec.get("calendar_interval").and_then(|v| v.as_str()).and_then(parse_cal);
        let step = spec.get("fixed_interval").and_then(|v| v.as_str()).and_then(parse_interval_ms).unwrap_or(DAY_MS);
        let ceil = self.dh_ceil;
        let start = |v: i64| -> i64 {
          match cal {
            Some(u) => trunc_cal(v - off, u) + off,
            None => {
              let q = if ceil { -(-(v - off)).div_euclid(step) } else { (v - off).div_euclid(step) };
              q * step + off
            }
          }
        };
        let next = |s: i64| -> i64 {
          match cal {
            Some(u) => next_cal(s - off, u) + off,
            None => s + step,
          }
        };
        let date = |v: Option<&Value>| -> Option<i64> { v.and_then(|x| x.as_str()).and_then(parse_date).map(|f| f as i64) };
        let b2 = |k: &str| spec.get(k).filter(|v| !v.is_null()).and_then(|b| Some((date(b.get("min"))?, date(b.get("max"))?)));
        let (ext, hard) = (b2("extended_bounds"), b2("hard_bounds"));
        let missing = date(spec.get("missing"));
        let min_dc = spec.get("min_doc_count").and_then(|v| v.as_u64());
        let mut groups: BTreeMap<i64, Vec<&Value>> = BTreeMap::new();
        for d in docs {
          let mut seen = BTreeSet::new();
          for v in nums_or(d, field, missing.map(|m| m as f64)) {
            let v = v as i64;
            if let Some((lo, hi)) = hard {
              if v < lo || v > hi {
                continue;
              }
            }
            if seen.insert(start(v)) {
              groups.entry(start(v)).or_default().push(d);
            }
          }
        }
        let thr = min_dc.unwrap_or(1).max(1) as usize;
        groups.retain(|_, ds| ds.len() >= thr);
        let zeros_ok = min_dc.unwrap_or(0) == 0;
        if zeros_ok {
          if let Some((lo, hi)) = ext {
            let (mut s, e) = (start(lo), start(hi));
            let mut guard = 0;
            while s <= e && guard < 20_000 {
              groups.entry(s).or_default();
              s = next(s);
              guard += 1;
            }
          }
        }
        let buckets: Vec<Value> = groups.iter().map(|(b, ds)| self.bucket(spec, json!(*b), ds)).collect();
        json!({"type": ty, "buckets": buckets, "_zeros_optional": zeros_ok})
      }
      "filter" => {
        let ds: Vec<&Value> = docs.iter().copied().filter(|d| eval_filter(d, &spec["filter"])).collect();
        let mut o = Map::new();
        o.insert("type".into(), json!("filter"));
        o.insert("doc_count".into(), json!(ds.len()));
        if let Some(sub) = sub_specs(spec) {
          o.insert("aggregations".into(), self.aggs(sub, &ds));
        }
        Value::Object(o)
      }
      "composite" => {
        let sources = spec["sources"].as_array().cloned().unwrap_or_default();
        let mut groups: Vec<(Vec<KeyPart>, Vec<&Value>)> = Vec::new();
        let mut index: BTreeMap<String, usize> = BTreeMap::new();
        'docs: for d in docs {
          let mut per: Vec<Vec<KeyPart>> = Vec::new();
          for s in sources.iter() {
            let f = s["field"].as_str().unwrap_or("");
            let vals: Vec<KeyPart> = if s["type"] == "terms" {
              strs(d, f).into_iter().map(KeyPart::S).collect()
            } else {
              let iv = s["interval"].as_f64().unwrap_or(1.0);
              nums(d, f).into_iter().map(|v| KeyPart::N((v / iv).floor() * iv)).collect()
            };
            if vals.is_empty() {
              continue 'docs;
            }
            per.push(vals);
          }
          let mut combos: Vec<Vec<KeyPart>> = vec![vec![]];
          for vals in per.iter() {
            let mut next = Vec::new();
            for c in combos.iter() {
              for v in vals.iter() {
                let mut c2 = c.clone();
                c2.push(v.clone());
                next.push(c2);
              }
            }
            combos = next;
          }
          let mut seen = BTreeSet::new();
          for c in combos {
            let ks = format!("{c:?}");
            if !seen.insert(ks.clone()) {
              continue;
            }
            match index.get(&ks) {
              Some(i) => groups[*i].1.push(d),
              None => {
                index.insert(ks, groups.len());
                groups.push((c, vec![d]));
              }
            }
          }
        }
        groups.sort_by(|a, b| cmp_parts(&a.0, &b.0));
        if let Some(after) = spec.get("after").filter(|a| !a.is_null()).and_then(|a| composite_parts(a, &sources)) {
          groups.retain(|g| cmp_parts(&g.0, &after) == Ordering::Greater);
        }
        let size = spec["size"].as_u64().unwrap_or(10) as usize;
        let more = groups.len() > size;
        groups.truncate(size);
        let keyj = |parts: &[KeyPart]| -> Value {
          let mut o = Map::new();
          for (p, s) in parts.iter().zip(sources.iter()) {
            o.insert(s["name"].as_str().unwrap_or("").to_string(), p.json());
          }
          Value::Object(o)
        };
        let buckets: Vec<Value> = groups.iter().map(|(k, ds)| self.bucket(spec, keyj(k), ds)).collect();
        let mut o = Map::new();
        o.insert("type".into(), json!("composite"));
        if more {
          if let Some((k, _)) = groups.last() {
            o.insert("after_key".into(), keyj(k));
          }
        }
        o.insert("buckets".into(), Value::Array(buckets));
        Value::Object(o)
      }
      "stats" | "extended_stats" => {
        let missing = opt_f64(spec.get("missing"));
        let vals: Vec<f64> = docs.iter().flat_map(|d| nums_or(d, field, missing)).collect();
        let n = vals.len();
        if n == 0 {
          return json!({"type": ty, "count": 0, "_empty": true});
        }
        let sum: f64 = vals.iter().sum();
        let avg = sum / n as f64;
        let (mn, mx) = vals.iter().fold((f64::INFINITY, f64::NEG_INFINITY), |(a, b), v| (a.min(*v), b.max(*v)));
        let mut o = json!({"type": ty, "count": n, "min": mn, "max": mx, "sum": sum, "avg": avg});
        if ty == "extended_stats" {
          let var = vals.iter().map(|v| (v - avg) * (v - avg)).sum::<f64>() / n as f64;
          o["variance"] = json!(var);
          o["std_deviation"] = json!(var.sqrt());
        }
        o
      }
      "value_count" => {
        let missing = opt_f64(spec.get("missing"));
        let n: usize = docs.iter().map(|d| nums_or(d, field, missing).len()).sum();
        json!({"type": ty, "value": n})
      }
      "cardinality" => {
        let mut set: BTreeSet<String> = BTreeSet::new();
        let missing = spec.get("missing").filter(|m| !m.is_null());
        for d in docs {
          match field_kind(field) {
            FK::Kw => {
              let mut v = strs(d, field);
              if v.is_empty() {
                if let Some(m) = missing.and_then(|m| m.as_str()) {
                  v.push(m.to_string());
                }
              }
              set.extend(v);
            }
            _ => {
              let mut v = nums(d, field);
              if v.is_empty() {
                if let Some(m) = missing.and_then(|m| m.as_f64()) {
                  v.push(m);
                }
              }
              set.extend(v.into_iter().map(|x| format!("{:016x}", (x + 0.0).to_bits())));
            }
          }
        }
        json!({"type": ty, "value": set.len()})
      }
      "percentiles" => {
        let missing = opt_f64(spec.get("missing"));
        let mut vals: Vec<f64> = docs.iter().flat_map(|d| nums_or(d, field, missing)).collect();
        vals.sort_by(|a, b| a.total_cmp(b));
        let percents: Vec<f64> = spec
          .get("percents")
          .and_then(|p| p.as_array())
          .map(|a| a.iter().filter_map(|x| x.as_f64()).collect())
          .unwrap_or_else(|| vec![1.0, 5.0, 25.0, 50.0, 75.0, 95.0, 99.0]);
        let n = vals.len();
        if n == 0 {
          return json!({"type": ty, "_empty": true, "_keys": percents.iter().map(|p| fmt_f64(*p)).collect::<Vec<_>>()});
        }
        // The README does not pin the interpolation rule of the exact mode. Every common sample
        // quantile definition (Hyndman-Fan types 1..9) lies between the order statistics with
        // 0-based ranks floor(n p) - 1 and ceil(n p) (clamped), so only that bracket is demanded.
        let mut values = Map::new();
        for p in percents {
          let q = (p / 100.0).clamp(0.0, 1.0);
          let np = n as f64 * q;
          let lo = ((np + 1e-9).floor() as i64 - 1).clamp(0, n as i64 - 1) as usize;
          let hi = ((np - 1e-9).ceil() as i64).clamp(0, n as i64 - 1) as usize;
          values.insert(fmt_f64(p), json!({"lo": vals[lo], "hi": vals[hi.max(lo)]}));
        }
        json!({"type": ty, "values": values, "_n": n})
      }
      "percentile_ranks" => {
        let missing = opt_f64(spec.get("missing"));
        let vals: Vec<f64> = docs.iter().flat_map(|d| nums_or(d, field, missing)).collect();
        let targets: Vec<f64> = spec["values"].as_array().map(|a| a.iter().filter_map(|x| x.as_f64()).collect()).unwrap_or_default();
        if vals.is_empty() {
          return json!({"type": ty, "_empty": true, "_keys": targets.iter().map(|p| fmt_f64(*p)).collect::<Vec<_>>()});
        }
        let mut values = Map::new();
        for t in targets {
          let c = vals.iter().filter(|v| **v <= t).count();
          values.insert(fmt_f64(t), json!(c as f64 / vals.len() as f64 * 100.0));
        }
        json!({"type": ty, "values": values, "_n": vals.len()})
      }
      "top_hits" => {
        let size = spec["size"].as_u64().unwrap_or(1) as usize;
        let from = spec.get("from").and_then(|v| v.as_u64()).unwrap_or(0) as usize;
        let sort: Vec<(String, bool)> = spec["sort"]
          .as_array()
          .map(|a| a.iter().map(|s| (s["field"].as_str().unwrap_or("").to_string(), s.get("order").and_then(|o| o.as_str()) == Some("desc"))).collect())
          .unwrap_or_default();
        let mut ds: Vec<&Value> = docs.to_vec();
        // documented: multi-valued -> min for asc / max for desc; documents missing the field last
        let keyv = |d: &Value, f: &str, desc: bool| -> Option<f64> {
          let v = nums(d, f);
          if v.is_empty() {
            None
          } else if desc {
            Some(v.iter().cloned().fold(f64::NEG_INFINITY, f64::max))
          } else {
            Some(v.iter().cloned().fold(f64::INFINITY, f64::min))
          }
        };
        ds.sort_by(|a, b| {
          for (f, desc) in sort.iter() {
            let o = match (keyv(a, f, *desc), keyv(b, f, *desc)) {
              (None, None) => Ordering::Equal,
              (None, Some(_)) => Ordering::Greater,
              (Some(_), None) => Ordering::Less,
              (Some(x), Some(y)) => {
                if *desc {
                  y.total_cmp(&x)
                } else {
                  x.total_cmp(&y)
                }
              }
            };
            if o != Ordering::Equal {
              return o;
            }
          }
          Ordering::Equal
        });
        let fields: Option<Vec<String>> = spec.get("fields").and_then(|f| f.as_array()).map(|a| a.iter().filter_map(|x| x.as_str().map(|s| s.to_string())).collect());
        let hits: Vec<Value> = ds
          .iter()
          .skip(from)
          .take(size)
          .map(|d| {
            let mut h = Map::new();
            h.insert("doc_id".into(), json!(doc_id(d)));
            if let Some(fs) = fields.as_ref() {
              let mut o = Map::new();
              for f in fs {
                if let Some(v) = d.get(f).filter(|v| !v.is_null()) {
                  o.insert(f.clone(), v.clone());
                }
              }
              h.insert("fields".into(), Value::Object(o));
            }
            Value::Object(h)
          })
          .collect();
        json!({"type": ty, "total": docs.len(), "hits": hits})
      }
      other => json!({"type": other, "_unsupported": true}),
    }
  }
}

// ---------------------------------------------------------------------------------------------
// comparison
// ---------------------------------------------------------------------------------------------

pub const TOL: f64 = 1e-9;

pub fn close(a: f64, b: f64) -> bool {
  (a - b).abs() <= TOL * a.abs().max(b.abs()).max(1.0)
}

pub fn key_eq(a: &Value, b: &Value) -> bool {
  match (a, b) {
    (Value::Number(x), Value::Number(y)) => match (x.as_f64(), y.as_f64()) {
      (Some(x), Some(y)) => close(x, y),
      _ => x == y,
    },
    (Value::Object(x), Value::Object(y)) => x.len() == y.len() && x.iter().all(|(k, v)| y.get(k).map(|w| key_eq(v, w)).unwrap_or(false)),
    (Value::Array(x), Value::Array(y)) => x.len() == y.len() && x.iter().zip(y.iter()).all(|(v, w)| key_eq(v, w)),
    _ => a == b,
  }
}

#[derive(Clone, Debug)]
pub struct Mismatch {
  /// names from the request root down to the aggregation whose own result differs
  pub path: Vec<String>,
  pub kind: String,
  pub what: String,
}

fn brief(buckets: &[Value]) -> String {
  let v: Vec<String> = buckets.iter().take(12).map(|b| format!("{}:{}", b["key"], b["doc_count"])).collect();
  format!("[{}{}]", v.join(", "), if buckets.len() > 12 { ", ..." } else { "" })
}

pub fn compare_aggs(specs: &Map<String, Value>, exp: &Value, act: &Value, path: &mut Vec<String>) -> Option<Mismatch> {
  let mut out = Vec::new();
  compare_all(specs, exp, act, path, &mut out);
  out.into_iter().next()
}

/// Every aggregation whose own result differs (children of a differing node are not visited;
/// one entry per spec path even if several parent buckets show it).
pub fn compare_all(specs: &Map<String, Value>, exp: &Value, act: &Value, path: &mut Vec<String>, out: &mut Vec<Mismatch>) {
  for (name, spec) in specs {
    path.push(name.clone());
    let kind = spec["type"].as_str().unwrap_or("").to_string();
    match (exp.get(name), act.get(name)) {
      (Some(e), Some(a)) => compare_node(spec, e, a, path, out),
      (Some(_), None) => push_mm(out, Mismatch { path: path.clone(), kind, what: "aggregation missing from the response".into() }),
      _ => {}
    }
    path.pop();
  }
}

fn push_mm(out: &mut Vec<Mismatch>, m: Mismatch) {
  if out.len() < 64 && !out.iter().any(|o| o.path == m.path) {
    out.push(m);
  }
}

/// stored-field representation trivia: null / [] / absent are the same, [x] is x
fn norm_fields(v: &Value) -> Value {
  match v {
    Value::Object(o) => {
      let mut m = Map::new();
      for (k, x) in o {
        let x = match x {
          Value::Array(a) if a.len() == 1 => a[0].clone(),
          other => other.clone(),
        };
        if x.is_null() || x.as_array().map(|a| a.is_empty()).unwrap_or(false) {
          continue;
        }
        m.insert(k.clone(), x);
      }
      Value::Object(m)
    }
    other => other.clone(),
  }
}

fn num_field(e: &Value, a: &Value, k: &str) -> Option<String> {
  let (x, y) = (e.get(k).and_then(|v| v.as_f64()), a.get(k).and_then(|v| v.as_f64()));
  match (x, y) {
    (Some(x), Some(y)) if close(x, y) => None,
    _ => Some(format!("{k}: expected {:?} got {:?}", e.get(k), a.get(k))),
  }
}

pub fn compare_node(spec: &Value, exp: &Value, act: &Value, path: &mut Vec<String>, out: &mut Vec<Mismatch>) {
  if let Some(m) = compare_own(spec, exp, act, path, out) {
    push_mm(out, m);
  }
}

fn compare_own(spec: &Value, exp: &Value, act: &Value, path: &mut Vec<String>, out: &mut Vec<Mismatch>) -> Option<Mismatch> {
  let kind = spec["type"].as_str().unwrap_or("").to_string();
  let mm = |path: &Vec<String>, what: String| Some(Mismatch { path: path.clone(), kind: kind.clone(), what });
  if act.get("type").and_then(|t| t.as_str()) != Some(kind.as_str()) {
    return mm(path, format!("response type {:?}", act.get("type")));
  }
  if act.get("sampled").and_then(|s| s.as_bool()) == Some(true) {
    return mm(path, "response marked sampled".into());
  }
  match kind.as_str() {
    "terms" | "rare_terms" | "range" | "date_range" | "histogram" | "date_histogram" | "composite" => {
      let eb = exp["buckets"].as_array().cloned().unwrap_or_default();
      let mut ab = act["buckets"].as_array().cloned().unwrap_or_default();
      if exp.get("_zeros_optional").and_then(|z| z.as_bool()) == Some(true) {
        // empty buckets outside the range the request forces are neither required nor forbidden
        ab.retain(|b| b["doc_count"].as_u64() != Some(0) || eb.iter().any(|e| key_eq(&e["key"], &b["key"])));
      }
      let same = eb.len() == ab.len() && eb.iter().zip(ab.iter()).all(|(e, a)| key_eq(&e["key"], &a["key"]) && e["doc_count"].as_u64() == a["doc_count"].as_u64());
      if !same {
        return mm(path, format!("buckets expected {} got {}", brief(&eb), brief(&ab)));
      }
      if kind == "composite" {
        let (ek, ak) = (exp.get("after_key"), act.get("after_key").filter(|k| !k.is_null()));
        let ok = match (ek, ak) {
          (None, None) => true,
          (Some(e), Some(a)) => key_eq(e, a),
          _ => false,
        };
        if !ok {
          return mm(path, format!("after_key expected {ek:?} got {ak:?}"));
        }
      }
      if kind == "range" || kind == "date_range" {
        if exp.get("keyed") != act.get("keyed") {
          return mm(path, format!("keyed expected {:?} got {:?}", exp.get("keyed"), act.get("keyed")));
        }
      }
      if let Some(sub) = sub_specs(spec) {
        for (e, a) in eb.iter().zip(ab.iter()) {
          if e["doc_count"].as_u64() == Some(0) {
            continue; // what an empty bucket reports for its sub-aggregations is not documented
          }
          path.push("aggs".into());
          let before = out.len();
          compare_all(sub, &e["aggregations"], a.get("aggregations").unwrap_or(&Value::Null), path, out);
          path.pop();
          for m in out.iter_mut().skip(before) {
            m.what = format!("in bucket {}: {}", e["key"], m.what);
          }
        }
      }
      None
    }
    "filter" => {
      if exp["doc_count"].as_u64() != act["doc_count"].as_u64() {
        return mm(path, format!("doc_count expected {} got {}", exp["doc_count"], act["doc_count"]));
      }
      if let Some(sub) = sub_specs(spec) {
        if exp["doc_count"].as_u64() == Some(0) {
          return None;
        }
        path.push("aggs".into());
        compare_all(sub, &exp["aggregations"], act.get("aggregations").unwrap_or(&Value::Null), path, out);
        path.pop();
        return None;
      }
      None
    }
    "stats" | "extended_stats" => {
      if exp["count"].as_u64() != act["count"].as_u64() {
        return mm(path, format!("count expected {} got {}", exp["count"], act["count"]));
      }
      if exp.get("_empty").is_some() {
        return None; // min/max/avg of nothing: not documented
      }
      let mut keys = vec!["min", "max", "sum", "avg"];
      if kind == "extended_stats" {
        keys.extend(["variance", "std_deviation"]);
      }
      for k in keys {
        if let Some(w) = num_field(exp, act, k) {
          return mm(path, w);
        }
      }
      None
    }
    "value_count" | "cardinality" => {
      if exp["value"].as_u64() != act["value"].as_u64() {
        return mm(path, format!("value expected {} got {}", exp["value"], act["value"]));
      }
      None
    }
    "percentiles" | "percentile_ranks" => {
      let av = act.get("values").and_then(|v| v.as_object()).cloned().unwrap_or_default();
      if exp.get("_empty").is_some() {
        let keys: BTreeSet<String> = exp["_keys"].as_array().map(|a| a.iter().filter_map(|k| k.as_str().map(|s| s.to_string())).collect()).unwrap_or_default();
        let got: BTreeSet<String> = av.keys().cloned().collect();
        if keys != got {
          return mm(path, format!("keys expected {keys:?} got {got:?}"));
        }
        return None;
      }
      let ev = exp["values"].as_object().cloned().unwrap_or_default();
      if ev.len() != av.len() {
        return mm(path, format!("keys expected {:?} got {:?}", ev.keys().collect::<Vec<_>>(), av.keys().collect::<Vec<_>>()));
      }
      for (k, e) in ev.iter() {
        let Some(a) = av.get(k).and_then(|x| x.as_f64()) else {
          return mm(path, format!("missing key {k}"));
        };
        if kind == "percentiles" {
          let (lo, hi) = (e["lo"].as_f64().unwrap_or(0.0), e["hi"].as_f64().unwrap_or(0.0));
          let slack = TOL * lo.abs().max(hi.abs()).max(1.0);
          if a < lo - slack || a > hi + slack {
            return mm(path, format!("percentile {k}: {a} outside the order-statistic bracket [{lo}, {hi}] (n={})", exp["_n"]));
          }
        } else if !close(e.as_f64().unwrap_or(f64::NAN), a) {
          return mm(path, format!("rank of {k}: expected {e} got {a} (n={})", exp["_n"]));
        }
      }
      None
    }
    "top_hits" => {
      if exp["total"].as_u64() != act["total"].as_u64() {
        return mm(path, format!("total expected {} got {}", exp["total"], act["total"]));
      }
      let eh = exp["hits"].as_array().cloned().unwrap_or_default();
      let ah = act["hits"].as_array().cloned().unwrap_or_default();
      let ids = |h: &[Value]| -> Vec<String> { h.iter().map(|x| x["doc_id"].as_str().unwrap_or("?").to_string()).collect() };
      if ids(&eh) != ids(&ah) {
        return mm(path, format!("hits expected {:?} got {:?}", ids(&eh), ids(&ah)));
      }
      for (e, a) in eh.iter().zip(ah.iter()) {
        if let Some(ef) = e.get("fields") {
          if !key_eq(&norm_fields(ef), &norm_fields(a.get("fields").unwrap_or(&Value::Null))) {
            return mm(path, format!("fields of {} expected {} got {:?}", e["doc_id"], ef, a.get("fields")));
          }
        }
      }
      None
    }
    _ => None,
  }
}

/// Generic response equality used for layout invariance: numbers within `TOL` relative, everything
/// else identical; the score of a top_hits hit is not compared (BM25 statistics are per segment).
pub fn json_close(a: &Value, b: &Value, at: &mut Vec<String>) -> Option<String> {
  match (a, b) {
    (Value::Number(x), Value::Number(y)) => {
      let ok = match (x.as_f64(), y.as_f64()) {
        (Some(x), Some(y)) => close(x, y),
        _ => x == y,
      };
      if ok {
        None
      } else {
        Some(format!("{}: {} vs {}", at.join("/"), a, b))
      }
    }
    (Value::Object(x), Value::Object(y)) => {
      let hit = x.contains_key("doc_id");
      let keys: BTreeSet<&String> = x.keys().chain(y.keys()).collect();
      for k in keys {
        if hit && k == "score" {
          continue;
        }
        at.push(k.clone());
        let r = match (x.get(k), y.get(k)) {
          (Some(v), Some(w)) => json_close(v, w, at),
          (v, w) => Some(format!("{}: {:?} vs {:?}", at.join("/"), v.map(|x| x.to_string()), w.map(|x| x.to_string()))),
        };
        at.pop();
        if r.is_some() {
          return r;
        }
      }
      None
    }
    (Value::Array(x), Value::Array(y)) => {
      if x.len() != y.len() {
        let short = |v: &Vec<Value>| -> String {
          if v.iter().all(|b| b.get("key").is_some()) {
            brief(v)
          } else {
            format!("{} items", v.len())
          }
        };
        return Some(format!("{}: {} vs {}", at.join("/"), short(x), short(y)));
      }
      for (i, (v, w)) in x.iter().zip(y.iter()).enumerate() {
        at.push(i.to_string());
        let r = json_close(v, w, at);
        at.pop();
        if r.is_some() {
          return r;
        }
      }
      None
    }
    _ => {
      if a == b {
        None
      } else {
        Some(format!("{}: {} vs {}", at.join("/"), a, b))
      }
    }
  }
}

// ---------------------------------------------------------------------------------------------
// spec navigation helpers (for classification)
// ---------------------------------------------------------------------------------------------

/// path = [name, "aggs", name, ...] -> the spec node it designates
pub fn spec_at<'a>(specs: &'a Map<String, Value>, path: &[String]) -> Option<&'a Value> {
  let mut cur = specs.get(path.first()?)?;
  let mut i = 1;
  while i + 1 < path.len() {
    cur = cur.get("aggs")?.get(&path[i + 1])?;
    i += 2;
  }
  Some(cur)
}

pub fn spec_at_mut<'a>(specs: &'a mut Map<String, Value>, path: &[String]) -> Option<&'a mut Value> {
  let mut cur = specs.get_mut(path.first()?)?;
  let mut i = 1;
  while i + 1 < path.len() {
    cur = cur.get_mut("aggs")?.get_mut(&path[i + 1])?;
    i += 2;
  }
  Some(cur)
}

/// all nodes of a request's aggregation forest, pre-order: (depth, kind)
pub fn walk_kinds(specs: &Map<String, Value>, depth: usize, out: &mut Vec<(usize, String)>) {
  for spec in specs.values() {
    out.push((depth, spec["type"].as_str().unwrap_or("").to_string()));
    if let Some(sub) = sub_specs(spec) {
      walk_kinds(sub, depth + 1, out);
    }
  }
}

// ---------------------------------------------------------------------------------------------
// layouts
// ---------------------------------------------------------------------------------------------

#[derive(Clone, Debug)]
pub enum Op {
  Add(usize),
  Del(usize),
  /// a document that is not part of the corpus and is deleted again before the end
  AddGhost(usize),
  DelGhost(usize),
}

#[derive(Clone, Debug)]
pub struct Plan {
  pub name: &'static str,
  pub commits: Vec<Vec<Op>>,
  pub compact: bool,
}

fn split(order: &[usize], sizes: &[usize]) -> Vec<Vec<Op>> {
  let mut out = Vec::new();
  let mut it = order.iter();
  for n in sizes {
    let c: Vec<Op> = it.by_ref().take(*n).map(|i| Op::Add(*i)).collect();
    if !c.is_empty() {
      out.push(c);
    }
  }
  let rest: Vec<Op> = it.map(|i| Op::Add(*i)).collect();
  if !rest.is_empty() {
    out.push(rest);
  }
  out
}

fn doc_order(rng: &mut Rng, docs: &[Value]) -> Vec<usize> {
  let mut order: Vec<usize> = (0..docs.len()).collect();
  match rng.below(3) {
    0 => {}
    1 => rng.shuffle(&mut order),
    _ => {
      // deal the documents of every k1 key round-robin so each commit sees ~1 of each key
      order.sort_by_key(|i| strs(&docs[*i], "k1").first().cloned().unwrap_or_default());
      let k = rng.urange(2, 5);
      let mut dealt: Vec<Vec<usize>> = vec![vec![]; k];
      for (j, i) in order.iter().enumerate() {
        dealt[j % k].push(*i);
      }
      order = dealt.concat();
    }
  }
  order
}

pub fn plan_single(docs: &[Value]) -> Plan {
  Plan { name: "single", commits: vec![(0..docs.len()).map(Op::Add).collect()], compact: false }
}

pub fn plan_commits(rng: &mut Rng, docs: &[Value], max_commits: usize) -> Plan {
  let order = doc_order(rng, docs);
  let k = rng.urange(2, max_commits.max(2));
  let sizes: Vec<usize> = if rng.chance(0.5) {
    let per = (docs.len() + k - 1) / k;
    vec![per.max(1); k]
  } else {
    vcore::gen::layout(rng, docs.len(), k)
  };
  Plan { name: "commits", commits: split(&order, &sizes), compact: false }
}

pub fn plan_one_per_commit(rng: &mut Rng, docs: &[Value]) -> Plan {
  let order = doc_order(rng, docs);
  let per = if docs.len() <= 60 { 1 } else { (docs.len() + 49) / 50 };
  let sizes = vec![per; docs.len() / per + 1];
  Plan { name: "tiny-commits", commits: split(&order, &sizes), compact: false }
}

/// several commits with interleaved deletes + re-adds of corpus documents and ghost documents
pub fn plan_churn(rng: &mut Rng, docs: &[Value]) -> Plan {
  let base = plan_commits(rng, docs, 5);
  let mut commits = base.commits;
  let mut committed: Vec<usize> = Vec::new();
  let mut pending_readd: Vec<usize> = Vec::new();
  let mut ghosts_alive: Vec<usize> = Vec::new();
  let mut ghost_id = 0;
  let n = commits.len();
  for (ci, c) in commits.iter_mut().enumerate() {
    let adds: Vec<usize> = c.iter().filter_map(|o| if let Op::Add(i) = o { Some(*i) } else { None }).collect();
    // re-add what the previous commit deleted
    for i in pending_readd.drain(..) {
      c.push(Op::Add(i));
    }
    for g in ghosts_alive.drain(..) {
      c.push(Op::DelGhost(g));
    }
    if ci + 1 < n {
      if !committed.is_empty() {
        for _ in 0..rng.urange(1, 4) {
          let i = committed[rng.usize(committed.len())];
          if !pending_readd.contains(&i) {
            c.push(Op::Del(i));
            pending_readd.push(i);
          }
        }
      }
      for _ in 0..rng.urange(0, 3) {
        c.push(Op::AddGhost(ghost_id));
        ghosts_alive.push(ghost_id);
        ghost_id += 1;
      }
      if rng.chance(0.3) {
        // upsert of a committed document with identical content
        if let Some(i) = committed.get(rng.usize(committed.len().max(1))) {
          if !pending_readd.contains(i) {
            c.push(Op::Add(*i));
          }
        }
      }
    }
    committed.extend(adds);
  }
  Plan { name: "churn", commits, compact: false }
}

pub fn plan_compacted(rng: &mut Rng, docs: &[Value]) -> Plan {
  let mut p = if rng.chance(0.5) { plan_churn(rng, docs) } else { plan_commits(rng, docs, 6) };
  p.name = "compacted";
  p.compact = true;
  p
}

pub fn ghost_doc(rng: &mut Rng, g: usize) -> Value {
  json!({"_id": format!("g{g:03}"), "body": "rust search ghost", "k1": KW[rng.zipf(KW.len())], "k2": [KW[rng.zipf(KW.len())], "ghost"],
         "n1": rng.range(-6, 12), "n2": [rng.range(-4, 8)], "x1": eighth(rng, -40, 120), "x2": [eighth(rng, -24, 64)],
         "ts": TS_BASE + rng.range(0, 99) * 86_400_000, "seq": 100_000 + g as i64})
}

pub fn build_plan(path: &Path, docs: &[Value], plan: &Plan, rng: &mut Rng) -> anyhow::Result<Index> {
  let sch = idx::schema(&schema_json())?;
  let index = Index::create(path, sch, idx::opts(path, true))?;
  {
    let mut w = index.writer()?;
    for c in plan.commits.iter() {
      for op in c {
        match op {
          Op::Add(i) => {
            w.add_document(&idx::doc(&docs[*i]))?;
          }
          Op::Del(i) => w.delete_document(doc_id(&docs[*i]))?,
          Op::AddGhost(g) => {
            w.add_document(&idx::doc(&ghost_doc(rng, *g)))?;
          }
          Op::DelGhost(g) => w.delete_document(&format!("g{g:03}"))?,
        }
      }
      w.commit()?;
    }
  }
  if plan.compact {
    index.compact()?;
  }
  Ok(index)
}

pub fn plan_stats(plan: &Plan) -> (usize, usize, usize) {
  let dels = plan.commits.iter().flatten().filter(|o| matches!(o, Op::Del(_) | Op::DelGhost(_))).count();
  let ghosts = plan.commits.iter().flatten().filter(|o| matches!(o, Op::AddGhost(_))).count();
  (plan.commits.len(), dels, ghosts)
}

// ---------------------------------------------------------------------------------------------
// aggregation tree generator
// ---------------------------------------------------------------------------------------------

pub struct Info {
  /// generate only requests that avoid every trigger of the findings already attributed
  /// (bucket limits / thresholds, top_hits.from, i64 composite histogram sources, ...), so that
  /// the rest of the response is judged on every layout instead of being masked by them
  pub clean: bool,
  /// numeric fields whose corpus-wide value count (+ documents, for `missing`) stays within the
  /// exact-mode limit of percentiles (256 values)
  pub pct_fields: Vec<&'static str>,
}

pub fn corpus_info(docs: &[Value]) -> Info {
  let mut pct_fields = Vec::new();
  for f in ["n1", "n2", "x1", "x2"] {
    let n: usize = docs.iter().map(|d| nums(d, f).len().max(1)).sum();
    if n <= 256 {
      pct_fields.push(f);
    }
  }
  Info { clean: false, pct_fields }
}

fn sixteenth(rng: &mut Rng, lo: i64, hi: i64) -> f64 {
  // odd multiples of 1/16: never equal to a field value (multiples of 1/8) or a `missing` fill
  (rng.range(lo, hi) * 2 + 1) as f64 / 16.0
}

fn ts_bound(rng: &mut Rng) -> i64 {
  // :30 seconds -> never equal to a document timestamp (whole minutes)
  TS_BASE + rng.range(-2, 40) * 86_400_000 + rng.range(0, 1439) * 60_000 + 30_000
}

fn date_str(rng: &mut Rng, ms: i64) -> String {
  match rng.below(3) {
    0 => format!("{ms}"),
    1 => rfc3339(ms, 0),
    _ => rfc3339(ms, *rng.pick(&[120, -300, 330])),
  }
}

pub fn gen_sources(rng: &mut Rng, allow_i64_hist: bool) -> Vec<Value> {
  let n = [1usize, 1, 2, 2, 3][rng.usize(5)];
  let mut out = Vec::new();
  for i in 0..n {
    if rng.chance(0.5) {
      out.push(json!({"type": "terms", "name": format!("s{i}"), "field": *rng.pick(KW_FIELDS)}));
    } else {
      let fields: &[&str] = if allow_i64_hist { &["x1", "x2", "n1", "n2"] } else { &["x1", "x2"] };
      out.push(json!({"type": "histogram", "name": format!("s{i}"), "field": *rng.pick(fields), "interval": *rng.pick(&[1.0, 2.0, 2.5, 5.0, 0.5])}));
    }
  }
  out
}

pub fn gen_metric(rng: &mut Rng, info: &Info) -> Value {
  let num = *rng.pick(NUM_FIELDS);
  let missing_num = |rng: &mut Rng| -> Value {
    if rng.chance(0.25) {
      json!(eighth(rng, -16, 40))
    } else {
      Value::Null
    }
  };
  let mut v = match rng.below(9) {
    0 => json!({"type": "stats", "field": num}),
    1 => json!({"type": "extended_stats", "field": num}),
    2 => json!({"type": "value_count", "field": num}),
    3 => {
      let f = *rng.pick(&["k1", "k2", "n1", "n2", "x1", "x2"]);
      let mut c = json!({"type": "cardinality", "field": f});
      if rng.chance(0.3) {
        // far above the number of distinct values of any corpus field: the count stays exact
        c["precision_threshold"] = json!(*rng.pick(&[1000usize, 3000, 40_000]));
      }
      if rng.chance(0.25) {
        c["missing"] = match field_kind(f) {
          FK::Kw => json!(MISSING_KW),
          FK::I64 => json!(rng.range(-3, 20)),
          FK::F64 => json!(eighth(rng, -16, 40)),
        };
      }
      return c;
    }
    4 | 5 if !info.pct_fields.is_empty() => {
      let f = *rng.pick(&info.pct_fields);
      if rng.chance(0.5) {
        let mut p = json!({"type": "percentiles", "field": f});
        if rng.chance(0.6) {
          let n = rng.urange(1, 4);
          let ps: Vec<f64> = (0..n).map(|_| *rng.pick(&[0.0, 10.0, 25.0, 50.0, 75.0, 90.0, 99.9, 100.0, 33.3])).collect();
          let set: BTreeSet<String> = ps.iter().map(|p| fmt_f64(*p)).collect();
          if set.len() == ps.len() {
            p["percents"] = json!(ps);
          }
        }
        p
      } else {
        let n = rng.urange(1, 3);
        let mut ts: Vec<f64> = (0..n).map(|_| if rng.chance(0.7) { eighth(rng, -40, 120) } else { sixteenth(rng, -20, 60) }).collect();
        ts.sort_by(|a, b| a.total_cmp(b));
        ts.dedup();
        json!({"type": "percentile_ranks", "field": f, "values": ts})
      }
    }
    6 | 7 => {
      let mut sort = Vec::new();
      if rng.chance(0.4) {
        sort.push(json!({"field": *rng.pick(&["n1", "x1", "n2", "x2"]), "order": *rng.pick(&["asc", "desc"])}));
      }
      if rng.chance(0.8) {
        sort.push(json!({"field": "seq", "order": *rng.pick(&["asc", "desc"])}));
      } else {
        sort.push(json!({"field": "seq"}));
      }
      let from = if info.clean { 0 } else { [0usize, 0, 1, 2, 3][rng.usize(5)] };
      let mut t = json!({"type": "top_hits", "size": rng.urange(1, 4), "from": from, "sort": sort});
      match rng.below(4) {
        0 => t["fields"] = json!(["seq"]),
        1 => t["fields"] = json!(["seq", "k1"]),
        _ => {}
      }
      return t;
    }
    _ => json!({"type": "stats", "field": num}),
  };
  let m = missing_num(rng);
  if !m.is_null() {
    v["missing"] = m;
  }
  v
}

pub fn gen_node(rng: &mut Rng, depth_left: usize, info: &Info) -> Value {
  if depth_left == 0 || rng.chance(0.2) {
    return gen_metric(rng, info);
  }
  let mut v = match rng.below(16) {
    0 | 1 | 2 | 3 => {
      let mut t = json!({"type": "terms", "field": *rng.pick(KW_FIELDS)});
      if rng.chance(0.6) && !info.clean {
        t["size"] = json!(rng.urange(1, 5));
      }
      if rng.chance(0.5) {
        t["min_doc_count"] = json!(if info.clean { 1 } else { rng.urange(1, 4) });
      }
      if rng.chance(0.3) {
        t["missing"] = json!(MISSING_KW);
      }
      t
    }
    4 | 5 if info.clean => json!({"type": "terms", "field": *rng.pick(KW_FIELDS), "missing": MISSING_KW}),
    4 | 5 => {
      let mut t = json!({"type": "rare_terms", "field": *rng.pick(KW_FIELDS)});
      if rng.chance(0.7) {
        t["max_doc_count"] = json!(rng.urange(1, 5));
      }
      if rng.chance(0.3) {
        t["size"] = json!(rng.urange(1, 4));
      }
      t
    }
    6 | 7 => {
      let n = rng.urange(1, 4);
      let mut ranges = Vec::new();
      for i in 0..n {
        let lo = sixteenth(rng, -48, 100);
        let hi = lo + rng.range(1, 60) as f64 / 8.0;
        let mut r = Map::new();
        match rng.below(5) {
          0 => {
            r.insert("to".into(), json!(hi));
          }
          1 => {
            r.insert("from".into(), json!(lo));
          }
          _ => {
            r.insert("from".into(), json!(lo));
            r.insert("to".into(), json!(hi));
          }
        }
        if rng.chance(0.5) {
          r.insert("key".into(), json!(format!("r{i}")));
        }
        ranges.push(Value::Object(r));
      }
      if !info.clean && rng.chance(0.04) {
        // two ranges that report the same bucket key
        let r = ranges[rng.usize(ranges.len())].clone();
        ranges.push(r);
      }
      let mut t = json!({"type": "range", "field": *rng.pick(NUM_FIELDS), "keyed": rng.chance(0.3), "ranges": ranges});
      if rng.chance(0.25) {
        t["missing"] = json!(eighth(rng, -16, 40));
      }
      t
    }
    8 => {
      let n = rng.urange(1, 3);
      let mut ranges = Vec::new();
      for i in 0..n {
        let lo = ts_bound(rng);
        let hi = lo + rng.range(1, 30) * 86_400_000;
        let mut r = Map::new();
        match rng.below(5) {
          0 => {
            r.insert("to".into(), json!(date_str(rng, hi)));
          }
          1 => {
            r.insert("from".into(), json!(date_str(rng, lo)));
          }
          _ => {
            r.insert("from".into(), json!(date_str(rng, lo)));
            r.insert("to".into(), json!(date_str(rng, hi)));
          }
        }
        if rng.chance(0.5) {
          r.insert("key".into(), json!(format!("r{i}")));
        }
        ranges.push(Value::Object(r));
      }
      let mut t = json!({"type": "date_range", "field": "ts", "keyed": rng.chance(0.3), "ranges": ranges});
      if rng.chance(0.25) {
        let m = TS_BASE + rng.range(0, 30) * 86_400_000;
        t["missing"] = if rng.chance(0.5) { json!(rfc3339(m, 0)) } else { json!(m) };
      }
      t
    }
    9 | 10 | 11 => {
      let interval = *rng.pick(&[0.5, 1.0, 2.0, 2.5, 5.0]);
      let mut t = json!({"type": "histogram", "field": *rng.pick(NUM_FIELDS), "interval": interval});
      if rng.chance(0.3) {
        t["offset"] = json!(*rng.pick(&[0.25, 1.0, -0.5, 0.125]));
      }
      if rng.chance(0.6) {
        let m = if info.clean { rng.usize(2) } else { [0usize, 1, 2, 2, 3][rng.usize(5)] };
        t["min_doc_count"] = json!(m);
      }
      let hard = if rng.chance(0.25) {
        let lo = sixteenth(rng, -48, 20);
        Some((lo, lo + rng.range(8, 120) as f64 / 8.0))
      } else {
        None
      };
      if let Some((lo, hi)) = hard {
        t["hard_bounds"] = json!({"min": lo, "max": hi});
      }
      if rng.chance(0.3) {
        let (lo, hi) = match hard {
          Some((hlo, hhi)) => {
            let lo = hlo + rng.range(0, 16) as f64 / 8.0;
            (lo.min(hhi), (lo + rng.range(0, 60) as f64 / 8.0).min(hhi))
          }
          None => {
            let lo = sixteenth(rng, -60, 40);
            (lo, lo + rng.range(0, 100) as f64 / 8.0)
          }
        };
        t["extended_bounds"] = json!({"min": lo, "max": hi});
      }
      if rng.chance(0.25) {
        t["missing"] = json!(eighth(rng, -16, 40));
      }
      t
    }
    12 => {
      let mut t = json!({"type": "date_histogram", "field": "ts"});
      if rng.chance(0.55) {
        t["fixed_interval"] = json!(*rng.pick(&["1d", "12h", "6h", "90m", "7d", "86400s", "2d"]));
      } else {
        t["calendar_interval"] = json!(*rng.pick(&["day", "week", "month", "quarter", "year", "1d", "1w", "1M"]));
      }
      if rng.chance(0.3) {
        t["offset"] = json!(*rng.pick(&["1h", "30m", "6h", "90s"]));
      }
      if rng.chance(0.6) {
        let m = if info.clean { rng.usize(2) } else { [0usize, 1, 2, 3][rng.usize(4)] };
        t["min_doc_count"] = json!(m);
      }
      let hard = if rng.chance(0.25) {
        let lo = ts_bound(rng);
        Some((lo, lo + rng.range(1, 40) * 86_400_000))
      } else {
        None
      };
      if let Some((lo, hi)) = hard {
        t["hard_bounds"] = json!({"min": date_str(rng, lo), "max": date_str(rng, hi)});
      }
      if rng.chance(0.3) {
        let (lo, hi) = match hard {
          Some((hlo, hhi)) => {
            let lo = (hlo + rng.range(0, 5) * 86_400_000).min(hhi);
            (lo, (lo + rng.range(0, 20) * 86_400_000).min(hhi))
          }
          None => {
            let lo = ts_bound(rng);
            (lo, lo + rng.range(0, 25) * 86_400_000)
          }
        };
        t["extended_bounds"] = json!({"min": date_str(rng, lo), "max": date_str(rng, hi)});
      }
      if rng.chance(0.25) {
        let m = TS_BASE + rng.range(0, 30) * 86_400_000 + rng.range(0, 1439) * 60_000;
        t["missing"] = if rng.chance(0.5) { json!(rfc3339(m, 0)) } else { json!(format!("{m}")) };
      }
      if info.clean && t.get("calendar_interval").is_some() && t.get("extended_bounds").is_some() {
        t.as_object_mut().map(|o| o.remove("offset"));
      }
      t
    }
    13 => json!({"type": "filter", "filter": gen_filter(rng, 2)}),
    _ => {
      let size = if rng.chance(0.4) { 1000 } else { rng.urange(1, 12) };
      json!({"type": "composite", "sources": gen_sources(rng, !info.clean), "size": size})
    }
  };
  let kids = [0usize, 1, 1, 2][rng.usize(4)];
  if kids > 0 {
    let mut m = Map::new();
    for i in 0..kids {
      m.insert(format!("c{}_{i}", depth_left), gen_node(rng, depth_left - 1, info));
    }
    v["aggs"] = Value::Object(m);
  }
  v
}

pub fn gen_query(rng: &mut Rng) -> (Value, Option<Value>) {
  let q = if rng.chance(0.55) { json!({"type": "match_all"}) } else { json!({"type": "term", "field": "body", "value": BODY[rng.zipf(BODY.len())]}) };
  let f = if rng.chance(0.2) { Some(gen_filter(rng, 1)) } else { None };
  (q, f)
}
