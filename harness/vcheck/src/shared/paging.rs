//! Generators and helpers shared by the metamorphic paging checks C11, C13 and C20:
//! tie-heavy corpora over several segments, queries / filters with an independent
//! evaluator, sort plans, aggregation trees, cursor walks and response comparison.
#![allow(dead_code)]
use anyhow::Result;
use searchlite_core::api::{Index, IndexReader, SearchResult};
use serde_json::{json, Map, Value};
use std::collections::BTreeMap;
use std::path::Path;
use vcore::{idx, Rng};

pub const WORDS: &[&str] = &["rust", "search", "engine", "index", "query", "fast", "segment", "cursor", "page", "token"];
pub const TAGS: &[&str] = &["red", "green", "blue", "x", "yz", "été"];
pub const CATS: &[&str] = &["a", "b", "c", "dd"];
pub const TEXT_FIELDS: &[&str] = &["body", "title", "notes"];

pub fn schema_json() -> Value {
  let text = |name: &str, nullable: bool| json!({"name": name, "analyzer": "default", "stored": true, "indexed": true, "nullable": nullable});
  let kw = |name: &str| json!({"name": name, "stored": true, "indexed": true, "fast": true, "nullable": true});
  let num = |name: &str, i: bool| json!({"name": name, "i64": i, "fast": true, "stored": true, "nullable": true});
  json!({
    "doc_id_field": "_id",
    "analyzers": [],
    "text_fields": [text("body", false), text("title", true), text("notes", true)],
    "keyword_fields": [kw("tag"), kw("cat"), kw("uid")],
    "numeric_fields": [num("n", true), num("x", false), num("r", false)],
    "nested_fields": [],
  })
}

fn words(rng: &mut Rng, lo: usize, hi: usize) -> String {
  let n = rng.urange(lo, hi);
  (0..n).map(|_| WORDS[rng.zipf(WORDS.len())]).collect::<Vec<_>>().join(" ")
}

/// One document. `bodies` is a small pool of body texts so that many documents share
/// the exact same text (equal BM25 scores inside a segment).
pub fn gen_doc(rng: &mut Rng, id: &str, bodies: &[String], rough: bool) -> Value {
  gen_doc_with(rng, id, bodies, rough, true)
}

/// `big_ints = false` keeps every numeric value small and exactly representable, so that sums
/// over them do not depend on the order of addition (used where aggregations are compared).
pub fn gen_doc_with(rng: &mut Rng, id: &str, bodies: &[String], rough: bool, big_ints: bool) -> Value {
  let mut m = Map::new();
  m.insert("_id".into(), json!(id));
  m.insert("uid".into(), json!(id));
  m.insert("body".into(), json!(rng.pick(bodies).clone()));
  if rng.chance(0.5) {
    m.insert("title".into(), json!(words(rng, 1, 2)));
  }
  if rng.chance(0.4) {
    m.insert("notes".into(), json!(words(rng, 1, 3)));
  }
  match rng.below(6) {
    0 => {}
    1 => {
      m.insert("tag".into(), Value::Null);
    }
    2 | 3 => {
      m.insert("tag".into(), json!(rng.pick(TAGS)));
    }
    _ => {
      let k = rng.urange(2, 3);
      let v: Vec<&str> = (0..k).map(|_| *rng.pick(TAGS)).collect();
      m.insert("tag".into(), json!(v));
    }
  }
  if rng.chance(0.75) {
    m.insert("cat".into(), json!(rng.pick(CATS)));
  }
  match rng.below(5) {
    0 => {}
    1 | 2 => {
      m.insert("n".into(), json!(rng.range(0, 3)));
    }
    3 => {
      m.insert("n".into(), json!([rng.range(-2, 4), rng.range(-2, 4)]));
    }
    _ => {
      let big = [9_007_199_254_740_993i64, -9_007_199_254_740_993, 4_000_000_000, 7];
      let v = *rng.pick(&big);
      m.insert("n".into(), json!(if big_ints { v } else { 7 }));
    }
  }
  match rng.below(4) {
    0 => {}
    1 | 2 => {
      m.insert("x".into(), json!(rng.range(-4, 4) as f64 / 8.0));
    }
    _ => {
      m.insert("x".into(), json!([rng.range(-4, 4) as f64 / 8.0, rng.range(-4, 4) as f64 / 8.0]));
    }
  }
  if rough && rng.chance(0.7) {
    // values whose shortest decimal form is long: exercises value round trips inside cursors
    let v = match rng.below(4) {
      0 => 0.1 * rng.range(1, 9) as f64,
      1 => (rng.range(1, 40) as f64) / 3.0,
      2 => f64::from_bits(0x3FB9_9999_9999_999A + rng.below(7)),
      _ => (rng.f64() - 0.5) * 1e-3,
    };
    m.insert("r".into(), json!(v));
  }
  Value::Object(m)
}

/// A write history: commits of adds (possibly of ids that already exist = upsert) and deletes.
#[derive(Clone, Debug)]
pub struct Corpus {
  pub commits: Vec<Vec<Op>>,
  pub n_ids: usize,
}

#[derive(Clone, Debug)]
pub enum Op {
  Add(Value),
  Del(String),
}

impl Corpus {
  /// Latest live version of every document (the committed contents).
  pub fn live(&self) -> BTreeMap<String, Value> {
    let mut m = BTreeMap::new();
    for c in self.commits.iter() {
      for op in c {
        match op {
          Op::Add(d) => {
            m.insert(d["_id"].as_str().unwrap().to_string(), d.clone());
          }
          Op::Del(id) => {
            m.remove(id);
          }
        }
      }
    }
    m
  }
  pub fn to_json(&self) -> Value {
    json!(self
      .commits
      .iter()
      .map(|c| c
        .iter()
        .map(|o| match o {
          Op::Add(d) => json!({"add": d}),
          Op::Del(id) => json!({"del": id}),
        })
        .collect::<Vec<_>>())
      .collect::<Vec<_>>())
  }
}

pub fn gen_corpus(rng: &mut Rng, n_docs: usize, max_commits: usize) -> Corpus {
  gen_corpus_with(rng, n_docs, max_commits, true)
}

pub fn gen_corpus_with(rng: &mut Rng, n_docs: usize, max_commits: usize, big_ints: bool) -> Corpus {
  let n_bodies = rng.urange(2, 7);
  let bodies: Vec<String> = (0..n_bodies).map(|_| words(rng, 1, 5)).collect();
  let rough = rng.chance(0.35);
  let layout = vcore::gen::layout(rng, n_docs, max_commits);
  let mut commits = Vec::new();
  let mut next = 0usize;
  for (ci, n) in layout.iter().enumerate() {
    let mut ops = Vec::new();
    for _ in 0..*n {
      // a later commit sometimes re-adds an existing id (upsert => tombstone in an older segment)
      let id = if ci > 0 && next > 0 && rng.chance(0.12) { format!("d{}", rng.usize(next)) } else {
        next += 1;
        format!("d{}", next - 1)
      };
      ops.push(Op::Add(gen_doc_with(rng, &id, &bodies, rough, big_ints)));
    }
    if ci > 0 && next > 0 && rng.chance(0.3) {
      for _ in 0..rng.urange(1, 3) {
        ops.push(Op::Del(format!("d{}", rng.usize(next))));
      }
    }
    commits.push(ops);
  }
  Corpus { commits, n_ids: next }
}

pub fn apply_commit(index: &Index, ops: &[Op]) -> Result<()> {
  let mut w = index.writer()?;
  for op in ops {
    match op {
      Op::Add(d) => {
        w.add_document(&idx::doc(d))?;
      }
      Op::Del(id) => w.delete_document(id)?,
    }
  }
  w.commit()?;
  Ok(())
}

pub fn build_index(path: &Path, corpus: &Corpus) -> Result<Index> {
  let _ = std::fs::remove_dir_all(path);
  let sch = idx::schema(&schema_json())?;
  let index = Index::create(path, sch, idx::opts(path, true))?;
  for c in corpus.commits.iter() {
    apply_commit(&index, c)?;
  }
  Ok(index)
}

// ---------------------------------------------------------------- queries

#[derive(Clone, Debug)]
pub enum Q {
  All,
  Term(String, String),
  /// plain query string: OR of the words over all text fields
  Str(Vec<String>),
  /// bool with only must + must_not term clauses
  Must(Vec<(String, String)>, Vec<(String, String)>),
  /// bool with only should term clauses (any one must match)
  Should(Vec<(String, String)>),
  /// anything else: no independent evaluation
  Opaque(Value),
}

fn term_json(f: &str, v: &str) -> Value {
  json!({"type": "term", "field": f, "value": v})
}

impl Q {
  pub fn to_json(&self) -> Value {
    match self {
      Q::All => json!({"type": "match_all"}),
      Q::Term(f, v) => term_json(f, v),
      Q::Str(ws) => json!(ws.join(" ")),
      Q::Must(m, n) => json!({"type": "bool",
        "must": m.iter().map(|(f, v)| term_json(f, v)).collect::<Vec<_>>(),
        "must_not": n.iter().map(|(f, v)| term_json(f, v)).collect::<Vec<_>>()}),
      Q::Should(s) => json!({"type": "bool", "should": s.iter().map(|(f, v)| term_json(f, v)).collect::<Vec<_>>()}),
      Q::Opaque(v) => v.clone(),
    }
  }
  /// Independent evaluation on the original JSON document (lower-case ASCII words,
  /// default analyzer = split on non-alphanumerics + lowercase). None = not modelled.
  pub fn eval(&self, doc: &Value) -> Option<bool> {
    let has = |f: &str, w: &str| -> bool { doc.get(f).and_then(|v| v.as_str()).map(|s| s.split_whitespace().any(|t| t == w)).unwrap_or(false) };
    Some(match self {
      Q::All => true,
      Q::Term(f, v) => has(f, v),
      Q::Str(ws) => ws.iter().any(|w| TEXT_FIELDS.iter().any(|f| has(f, w))),
      Q::Must(m, n) => m.iter().all(|(f, v)| has(f, v)) && !n.iter().any(|(f, v)| has(f, v)),
      Q::Should(s) => s.iter().any(|(f, v)| has(f, v)),
      Q::Opaque(_) => return None,
    })
  }
  pub fn scoring_terms(&self) -> usize {
    match self {
      Q::All => 0,
      Q::Term(..) => 1,
      Q::Str(w) => w.len(),
      Q::Must(m, _) => m.len(),
      Q::Should(s) => s.len(),
      Q::Opaque(_) => 9,
    }
  }
}

fn field_term(rng: &mut Rng) -> (String, String) {
  let f = if rng.chance(0.7) { "body" } else { *rng.pick(&TEXT_FIELDS[1..]) };
  (f.to_string(), WORDS[rng.zipf(WORDS.len())].to_string())
}

pub fn gen_query(rng: &mut Rng) -> Q {
  match rng.below(10) {
    0 | 1 => Q::All,
    2 | 3 => {
      let (f, v) = field_term(rng);
      Q::Term(f, v)
    }
    4 | 5 | 6 => {
      let n = rng.urange(1, 4);
      Q::Str((0..n).map(|_| WORDS[rng.zipf(WORDS.len())].to_string()).collect())
    }
    7 => {
      let m = (0..rng.urange(1, 2)).map(|_| field_term(rng)).collect();
      let n = (0..rng.urange(0, 1)).map(|_| field_term(rng)).collect();
      Q::Must(m, n)
    }
    _ => Q::Should((0..rng.urange(1, 3)).map(|_| field_term(rng)).collect()),
  }
}

/// Scoring-heavy query shapes without an independent evaluator (used by C13/C20).
pub fn gen_opaque_query(rng: &mut Rng) -> Q {
  let (f, v) = field_term(rng);
  let inner = if rng.chance(0.5) { term_json(&f, &v) } else { json!({"type": "query_string", "query": words(rng, 1, 3)}) };
  let v = match rng.below(6) {
    0 => json!({"type": "function_score", "query": inner,
      "functions": [{"type": "field_value_factor", "field": "x", "factor": 1.5, "modifier": "none", "missing": 1.0}],
      "boost_mode": *rng.pick(&["multiply", "sum", "replace"])}),
    1 => json!({"type": "function_score", "query": inner,
      "functions": [{"type": "weight", "weight": 2.0, "filter": {"KeywordEq": {"field": "tag", "value": "red"}}},
                    {"type": "weight", "weight": 0.5}],
      "score_mode": *rng.pick(&["sum", "multiply", "max"]), "boost_mode": "multiply"}),
    2 => json!({"type": "constant_score", "filter": {"KeywordIn": {"field": "tag", "values": ["red", "blue"]}}, "boost": 2.0}),
    3 => json!({"type": "dis_max", "queries": [inner, term_json("title", WORDS[rng.zipf(WORDS.len())])], "tie_breaker": 0.3}),
    4 => json!({"type": "bool", "must": [inner], "should": [term_json("body", WORDS[rng.zipf(WORDS.len())]), term_json("notes", WORDS[rng.zipf(WORDS.len())])]}),
    _ => json!({"type": "multi_match", "query": words(rng, 1, 3), "fields": ["body", "title", "notes"],
      "match_type": *rng.pick(&["best_fields", "most_fields", "cross_fields"])}),
  };
  Q::Opaque(v)
}

// ---------------------------------------------------------------- filters

#[derive(Clone, Debug)]
pub enum F {
  KwEq(String, String),
  KwIn(String, Vec<String>),
  I64(String, i64, i64),
  F64(String, f64, f64),
  And(Vec<F>),
  Or(Vec<F>),
  Not(Box<F>),
}

fn values_of(doc: &Value, f: &str) -> Vec<Value> {
  match doc.get(f) {
    None | Some(Value::Null) => vec![],
    Some(Value::Array(a)) => a.iter().filter(|v| !v.is_null()).cloned().collect(),
    Some(v) => vec![v.clone()],
  }
}

impl F {
  pub fn to_json(&self) -> Value {
    match self {
      F::KwEq(f, v) => json!({"KeywordEq": {"field": f, "value": v}}),
      F::KwIn(f, v) => json!({"KeywordIn": {"field": f, "values": v}}),
      F::I64(f, a, b) => json!({"I64Range": {"field": f, "min": a, "max": b}}),
      F::F64(f, a, b) => json!({"F64Range": {"field": f, "min": a, "max": b}}),
      F::And(v) => json!({"And": v.iter().map(|x| x.to_json()).collect::<Vec<_>>()}),
      F::Or(v) => json!({"Or": v.iter().map(|x| x.to_json()).collect::<Vec<_>>()}),
      F::Not(x) => json!({"Not": x.to_json()}),
    }
  }
  /// Independent evaluation (all generated keyword values are lower case, so the engine's
  /// case-insensitive keyword comparison cannot matter).
  pub fn eval(&self, doc: &Value) -> bool {
    match self {
      F::KwEq(f, v) => values_of(doc, f).iter().any(|x| x.as_str() == Some(v.as_str())),
      F::KwIn(f, vs) => values_of(doc, f).iter().any(|x| vs.iter().any(|v| x.as_str() == Some(v.as_str()))),
      F::I64(f, a, b) => values_of(doc, f).iter().any(|x| x.as_i64().map(|i| i >= *a && i <= *b).unwrap_or(false)),
      F::F64(f, a, b) => values_of(doc, f).iter().any(|x| x.as_f64().map(|i| i >= *a && i <= *b).unwrap_or(false)),
      F::And(v) => v.iter().all(|x| x.eval(doc)),
      F::Or(v) => v.iter().any(|x| x.eval(doc)),
      F::Not(x) => !x.eval(doc),
    }
  }
}

pub fn gen_filter_leaf(rng: &mut Rng) -> F {
  match rng.below(5) {
    0 => F::KwEq("tag".into(), rng.pick(TAGS).to_string()),
    1 => F::KwIn("cat".into(), vec![rng.pick(CATS).to_string(), rng.pick(CATS).to_string()]),
    2 | 3 => {
      let a = rng.range(-2, 3);
      F::I64("n".into(), a, a + rng.range(0, 4))
    }
    _ => {
      let a = rng.range(-4, 3) as f64 / 8.0;
      F::F64("x".into(), a, a + rng.range(0, 5) as f64 / 8.0)
    }
  }
}

pub fn gen_filter(rng: &mut Rng) -> F {
  match rng.below(8) {
    0 => F::And(vec![gen_filter_leaf(rng), gen_filter_leaf(rng)]),
    1 | 2 => F::Or(vec![gen_filter_leaf(rng), gen_filter_leaf(rng)]),
    3 | 4 => F::Not(Box::new(gen_filter_leaf(rng))),
    _ => gen_filter_leaf(rng),
  }
}

// ---------------------------------------------------------------- sort plans

pub const SORT_FIELDS: &[&str] = &["_score", "n", "x", "r", "tag", "cat"];

/// 0-3 keys (0 = default order by score). Each key: field + optional explicit order.
pub fn gen_sort(rng: &mut Rng) -> Vec<Value> {
  let k = match rng.below(10) {
    0 | 1 => 0,
    2..=5 => 1,
    6..=8 => 2,
    _ => 3,
  };
  let mut used: Vec<&str> = Vec::new();
  let mut out = Vec::new();
  for _ in 0..k {
    let f = *rng.pick(SORT_FIELDS);
    if used.contains(&f) {
      continue;
    }
    used.push(f);
    out.push(match rng.below(3) {
      0 => json!({"field": f}),
      1 => json!({"field": f, "order": "asc"}),
      _ => json!({"field": f, "order": "desc"}),
    });
  }
  out
}

/// Documented resolution of a sort array: `[]` = `_score` desc; default order asc, desc for `_score`.
pub fn resolve_sort(sort: &[Value]) -> Vec<(String, bool)> {
  if sort.is_empty() {
    return vec![("_score".into(), true)];
  }
  sort
    .iter()
    .map(|s| {
      let f = s["field"].as_str().unwrap_or("").to_string();
      let desc = match s.get("order").and_then(|o| o.as_str()) {
        Some("desc") => true,
        Some("asc") => false,
        _ => f == "_score",
      };
      (f, desc)
    })
    .collect()
}

pub fn sort_uses_score(sort: &[Value]) -> bool {
  resolve_sort(sort).iter().any(|(f, _)| f == "_score")
}

pub fn gen_exec(rng: &mut Rng) -> (String, Option<usize>) {
  match rng.below(6) {
    0 | 1 => ("bm25".into(), None),
    2 | 3 => ("wand".into(), None),
    4 => ("bmw".into(), None),
    _ => ("bmw".into(), Some(rng.urange(1, 4))),
  }
}

pub fn apply_exec(req: &mut Value, exec: &(String, Option<usize>)) {
  req["execution"] = json!(exec.0);
  match exec.1 {
    Some(b) => req["bmw_block_size"] = json!(b),
    None => {
      req.as_object_mut().unwrap().remove("bmw_block_size");
    }
  }
}

// ---------------------------------------------------------------- aggregations (exact kinds only)

pub fn gen_metric(rng: &mut Rng) -> Value {
  let f = *rng.pick(&["n", "x"]);
  match rng.below(5) {
    0 => json!({"type": "stats", "field": f}),
    1 => json!({"type": "extended_stats", "field": f}),
    2 => json!({"type": "value_count", "field": f}),
    3 => json!({"type": "cardinality", "field": *rng.pick(&["tag", "cat", "n"])}),
    _ => {
      if rng.chance(0.5) {
        json!({"type": "stats", "field": f, "missing": 0})
      } else {
        json!({"type": "value_count", "field": f, "missing": 1})
      }
    }
  }
}

pub fn gen_agg(rng: &mut Rng, depth: usize) -> Value {
  let mut v = match rng.below(if depth == 0 { 9 } else { 6 }) {
    0 | 1 => {
      let mut t = json!({"type": "terms", "field": *rng.pick(&["tag", "cat"])});
      if rng.chance(0.5) {
        t["size"] = json!(rng.urange(1, 8));
      }
      if rng.chance(0.2) {
        t["min_doc_count"] = json!(rng.urange(0, 3));
      }
      if rng.chance(0.2) {
        t["missing"] = json!("none");
      }
      t
    }
    2 => {
      let f = *rng.pick(&["n", "x"]);
      let (a, b) = if f == "n" { (0.0, 2.0) } else { (-0.25, 0.25) };
      json!({"type": "range", "field": f, "keyed": rng.chance(0.3),
        "ranges": [{"key": "lo", "to": a}, {"key": "mid", "from": a, "to": b}, {"key": "hi", "from": b}]})
    }
    3 => {
      let mut h = if rng.chance(0.5) { json!({"type": "histogram", "field": "n", "interval": 2.0}) } else { json!({"type": "histogram", "field": "x", "interval": 0.25}) };
      if rng.chance(0.3) {
        h["min_doc_count"] = json!(rng.urange(0, 2));
      }
      h
    }
    4 => json!({"type": "filter", "filter": gen_filter_leaf(rng).to_json()}),
    _ => return gen_metric(rng),
  };
  if depth < 2 && rng.chance(0.5) {
    let mut sub = Map::new();
    for i in 0..rng.urange(1, 2) {
      sub.insert(format!("s{i}"), gen_agg(rng, depth + 1));
    }
    v["aggs"] = Value::Object(sub);
  }
  v
}

pub fn gen_aggs(rng: &mut Rng) -> Value {
  let mut m = Map::new();
  for i in 0..rng.urange(1, 3) {
    m.insert(format!("a{i}"), gen_agg(rng, 0));
  }
  Value::Object(m)
}

pub fn gen_suggest(rng: &mut Rng) -> Value {
  let mut m = Map::new();
  for i in 0..rng.urange(1, 2) {
    let w = WORDS[rng.zipf(WORDS.len())];
    let plen = rng.urange(1, w.len().min(3));
    let mut s = json!({"type": "completion", "field": *rng.pick(TEXT_FIELDS), "prefix": &w[..plen], "size": rng.urange(1, 6)});
    if rng.chance(0.25) {
      s["fuzzy"] = json!({"max_edits": 1, "prefix_length": 1, "max_expansions": 20, "min_length": 2});
    }
    m.insert(format!("g{i}"), s);
  }
  Value::Object(m)
}

// ---------------------------------------------------------------- running requests

pub type HitSig = (String, u32);

pub fn hit_sigs(res: &SearchResult) -> Vec<HitSig> {
  res.hits.iter().map(|h| (h.doc_id.clone(), h.score.to_bits())).collect()
}

pub fn sigs_json(s: &[HitSig]) -> Value {
  json!(s.iter().map(|(id, b)| json!([id, f32::from_bits(*b)])).collect::<Vec<_>>())
}

/// Outcome of one engine call: Ok, Err(message) or a caught panic.
pub enum Call {
  Ok(Box<SearchResult>),
  Err(String),
  Panic(String),
}

pub fn call(reader: &IndexReader, req: &Value) -> Call {
  let r = vcore::ctx::catch(|| idx::search(reader, req.clone()));
  match r {
    Ok(Ok(r)) => Call::Ok(Box::new(r)),
    Ok(Err(e)) => Call::Err(format!("{e:#}")),
    Err(p) => Call::Panic(p),
  }
}

pub struct Walk {
  pub pages: Vec<SearchResult>,
  /// cursor that produced page i+1 (cursors[i] = pages[i].next_cursor)
  pub cursors: Vec<String>,
  /// Some(..) when the walk stopped on an error / panic / page cap
  pub stopped: Option<String>,
}

/// Follow next_cursor from the first page until it is absent (at most `max_pages`).
pub fn walk(reader: &IndexReader, base: &Value, page: usize, max_pages: usize) -> Walk {
  let mut w = Walk { pages: Vec::new(), cursors: Vec::new(), stopped: None };
  let mut req = base.clone();
  req["limit"] = json!(page);
  req.as_object_mut().unwrap().remove("cursor");
  loop {
    if w.pages.len() >= max_pages {
      w.stopped = Some("page-cap".into());
      return w;
    }
    match call(reader, &req) {
      Call::Ok(r) => {
        let next = r.next_cursor.clone();
        w.pages.push(*r);
        match next {
          Some(c) => {
            req["cursor"] = json!(c);
            w.cursors.push(c);
          }
          None => return w,
        }
      }
      Call::Err(e) => {
        w.stopped = Some(format!("error: {e}"));
        return w;
      }
      Call::Panic(p) => {
        w.stopped = Some(format!("panic: {p}"));
        return w;
      }
    }
  }
}

/// Structural comparison of two JSON values with a relative numeric tolerance.
/// Returns the path of the first difference.
pub fn json_diff(a: &Value, b: &Value, tol: f64, path: &str) -> Option<String> {
  match (a, b) {
    (Value::Number(x), Value::Number(y)) => {
      if x == y {
        return None;
      }
      let (x, y) = (x.as_f64().unwrap_or(f64::NAN), y.as_f64().unwrap_or(f64::NAN));
      let scale = x.abs().max(y.abs()).max(1e-300);
      if (x - y).abs() <= tol * scale || (x - y).abs() <= 1e-12 {
        None
      } else {
        Some(format!("{path}: {x} vs {y}"))
      }
    }
    (Value::Array(x), Value::Array(y)) => {
      if x.len() != y.len() {
        return Some(format!("{path}: array length {} vs {}", x.len(), y.len()));
      }
      x.iter().zip(y.iter()).enumerate().find_map(|(i, (p, q))| json_diff(p, q, tol, &format!("{path}[{i}]")))
    }
    (Value::Object(x), Value::Object(y)) => {
      for k in x.keys() {
        if !y.contains_key(k) {
          return Some(format!("{path}.{k}: missing on the right"));
        }
      }
      for k in y.keys() {
        if !x.contains_key(k) {
          return Some(format!("{path}.{k}: missing on the left"));
        }
      }
      x.iter().find_map(|(k, p)| json_diff(p, &y[k], tol, &format!("{path}.{k}")))
    }
    _ => {
      if a == b {
        None
      } else {
        Some(format!("{path}: {} vs {}", short(a), short(b)))
      }
    }
  }
}

pub fn short(v: &Value) -> String {
  let s = v.to_string();
  if s.len() > 160 {
    format!("{}...", s.chars().take(160).collect::<String>())
  } else {
    s
  }
}

pub fn aggs_json(res: &SearchResult) -> Value {
  serde_json::to_value(&res.aggregations).unwrap_or(Value::Null)
}

pub fn suggest_json(res: &SearchResult) -> Value {
  serde_json::to_value(&res.suggest).unwrap_or(Value::Null)
}

/// Leading words of an error message with digits and quoted/hex payloads stripped: a stable class name.
pub fn err_stem(e: &str) -> String {
  let mut out = String::new();
  for w in e.split_whitespace().take(6) {
    let w: String = w.chars().filter(|c| c.is_ascii_alphabetic() || *c == '_').collect();
    if w.is_empty() {
      continue;
    }
    if !out.is_empty() {
      out.push('-');
    }
    out.push_str(&w);
  }
  out
}
