//! C07 generators: schemas, corpora/histories, query trees.
#![allow(dead_code)]
use super::c07_model::*;
use serde_json::{json, Map, Value};
use std::collections::{BTreeMap, BTreeSet};
use vcore::gen::{INFLECTED, MIXED_CASE, STOPWORDS, UNICODE_WORDS, WORDS};
use vcore::Rng;

#[derive(Clone, Debug)]
pub enum Op {
  Add(Value),
  Del(String),
}
#[derive(Clone, Debug)]
pub struct Hist {
  pub commits: Vec<Vec<Op>>,
  pub compact: bool,
}
impl Hist {
  pub fn to_json(&self) -> Value {
    json!({"commits": self.commits.iter().map(|c| c.iter().map(|o| match o {
      Op::Add(d) => json!({"add": d}),
      Op::Del(id) => json!({"delete": id}),
    }).collect::<Vec<_>>()).collect::<Vec<_>>(), "compact_at_end": self.compact})
  }
}
pub struct Corpus {
  pub hist: Hist,
  pub vocab: Vec<String>,
  pub kwvals: Vec<String>,
  pub deletes: usize,
  pub upserts: usize,
}

const SYN_SOURCES: &[&str] = &["fast", "fox", "apple", "search", "rust"];
const KW_VALUES: &[&str] = &["red", "green", "blue", "Red", "GREEN", "cyan", "x", "yz", "alpha-1", "reddish", "gr"];

pub fn gen_schema(rng: &mut Rng) -> Sch {
  let n_ana = rng.urange(0, 3);
  let mut anas: Vec<Ana> = Vec::new();
  for i in 0..n_ana {
    let tokenizer = *rng.pick(&["default", "whitespace", "unicode", "whitespace", "default"]);
    let mut filters: Vec<Value> = Vec::new();
    let mut lowercases = tokenizer != "whitespace";
    if rng.chance(if tokenizer == "whitespace" { 0.6 } else { 0.2 }) {
      filters.push(if rng.chance(0.5) { json!("lowercase") } else { json!({"lowercase": true}) });
      lowercases = true;
    }
    if rng.chance(0.45) {
      filters.push(if rng.chance(0.6) { json!({"stopwords": "en"}) } else { json!({"stopwords": ["the", "rust", "of"]}) });
    }
    let stem = rng.chance(0.4);
    let stem_first = rng.chance(0.3);
    if stem && stem_first {
      filters.push(json!({"stemmer": "english"}));
    }
    if rng.chance(0.45) {
      let mut rules = Vec::new();
      for _ in 0..rng.urange(1, 2) {
        let from = *rng.pick(SYN_SOURCES);
        let nto = rng.urange(1, 2);
        let to: Vec<String> = (0..nto).map(|_| WORDS[rng.usize(12)].to_string()).collect();
        rules.push(json!({"from": [from], "to": to}));
      }
      filters.push(json!({"synonyms": rules}));
    }
    if stem && !stem_first {
      filters.push(json!({"stemmer": "english"}));
    }
    anas.push(Ana { name: format!("a{i}"), tokenizer: tokenizer.to_string(), filters, lowercases });
  }
  let n_text = rng.urange(1, 4);
  let mut text = Vec::new();
  for i in 0..n_text {
    let pick = |rng: &mut Rng| -> String {
      if anas.is_empty() || rng.chance(0.3) {
        "default".to_string()
      } else {
        anas[rng.usize(anas.len())].name.clone()
      }
    };
    let analyzer = pick(rng);
    let search_analyzer = if rng.chance(0.15) { Some(pick(rng)) } else { None };
    text.push(TField { name: format!("t{i}"), analyzer, search_analyzer });
  }
  let n_kw = rng.urange(0, 3);
  let kw: Vec<String> = (0..n_kw).map(|i| format!("k{i}")).collect();
  let json = json!({
    "doc_id_field": "_id",
    "analyzers": anas.iter().map(|a| json!({"name": a.name, "tokenizer": a.tokenizer, "filters": a.filters})).collect::<Vec<_>>(),
    "text_fields": text.iter().map(|t| {
      let mut m = json!({"name": t.name, "analyzer": t.analyzer, "stored": true, "indexed": true, "nullable": true});
      if let Some(s) = t.search_analyzer.as_ref() { m["search_analyzer"] = json!(s); }
      m
    }).collect::<Vec<_>>(),
    "keyword_fields": kw.iter().map(|k| json!({"name": k, "stored": true, "indexed": true, "fast": true, "nullable": true})).collect::<Vec<_>>(),
    "numeric_fields": [{"name": "pop", "i64": true, "fast": true, "stored": true}],
    "nested_fields": [],
  });
  Sch { anas, text, kw, json }
}

fn gen_vocab(rng: &mut Rng) -> Vec<String> {
  let mut v: BTreeSet<String> = BTreeSet::new();
  let n = rng.urange(5, 10);
  for _ in 0..n {
    v.insert(WORDS[rng.zipf(WORDS.len())].to_string());
  }
  for s in SYN_SOURCES {
    if rng.chance(0.4) {
      v.insert(s.to_string());
    }
  }
  for _ in 0..rng.urange(0, 2) {
    v.insert(rng.pick(INFLECTED).to_string());
  }
  for _ in 0..rng.urange(0, 2) {
    v.insert(rng.pick(STOPWORDS).to_string());
  }
  for _ in 0..rng.urange(0, 2) {
    v.insert(rng.pick(MIXED_CASE).to_string());
  }
  if rng.chance(0.4) {
    v.insert(rng.pick(UNICODE_WORDS).to_string());
  }
  // near-misses for prefix / fuzzy / wildcard diversity
  for (a, b) in [("rust", "rusty"), ("rust", "rest"), ("fox", "fix"), ("search", "sear"), ("rank", "rnak"), ("log", "logs")] {
    if v.contains(a) && rng.chance(0.5) {
      v.insert(b.to_string());
    }
  }
  v.into_iter().collect()
}

fn gen_text(rng: &mut Rng, vocab: &[String]) -> String {
  let n = rng.urange(0, 6);
  let seps = [" ", " ", " ", " ", ", ", ". ", "-", "  "];
  let mut s = String::new();
  for i in 0..n {
    if i > 0 {
      s.push_str(seps[rng.usize(seps.len())]);
    }
    s.push_str(&vocab[rng.zipf(vocab.len())]);
  }
  s
}

pub fn gen_doc(rng: &mut Rng, sch: &Sch, id: &str, vocab: &[String], kwvals: &[String]) -> Value {
  let mut m = Map::new();
  m.insert("_id".into(), json!(id));
  for t in sch.text.iter() {
    match rng.below(10) {
      0 => {}
      1 | 2 => {
        let k = rng.urange(2, 3);
        let mut vals: Vec<String> = (0..k).map(|_| gen_text(rng, vocab)).collect();
        if rng.chance(0.15) {
          vals[0] = String::new();
        }
        m.insert(t.name.clone(), json!(vals));
      }
      _ => {
        m.insert(t.name.clone(), json!(gen_text(rng, vocab)));
      }
    }
  }
  for k in sch.kw.iter() {
    match rng.below(5) {
      0 => {}
      1 => {
        m.insert(k.clone(), json!([rng.pick(kwvals), rng.pick(kwvals)]));
      }
      _ => {
        m.insert(k.clone(), json!(rng.pick(kwvals)));
      }
    }
  }
  m.insert("pop".into(), json!(rng.range(1, 50)));
  Value::Object(m)
}

pub fn gen_corpus(rng: &mut Rng, sch: &Sch, max_docs: usize) -> Corpus {
  let vocab = gen_vocab(rng);
  let nk = rng.urange(3, 6);
  let kwvals: Vec<String> = rng.subset(KW_VALUES.len(), nk).into_iter().map(|i| KW_VALUES[i].to_string()).collect();
  let n_docs = rng.urange(5, max_docs);
  let n_commits = rng.urange(1, 5);
  let mut commits: Vec<Vec<Op>> = Vec::new();
  let mut live: BTreeSet<String> = BTreeSet::new();
  let mut next = 0usize;
  let mut deletes = 0;
  let mut upserts = 0;
  for c in 0..n_commits {
    let mut ops = Vec::new();
    let mut touched: BTreeSet<String> = BTreeSet::new();
    let remaining = n_docs - next;
    let adds = if c + 1 == n_commits { remaining } else { rng.urange(0, remaining) };
    for _ in 0..adds {
      let id = format!("d{next}");
      next += 1;
      ops.push(Op::Add(gen_doc(rng, sch, &id, &vocab, &kwvals)));
      touched.insert(id);
    }
    let prior: Vec<String> = live.iter().cloned().collect();
    for id in prior.iter() {
      if rng.chance(0.12) {
        ops.push(Op::Del(id.clone()));
        touched.insert(id.clone());
        live.remove(id);
        deletes += 1;
      } else if rng.chance(0.12) {
        ops.push(Op::Add(gen_doc(rng, sch, id, &vocab, &kwvals)));
        upserts += 1;
      }
    }
    rng.shuffle(&mut ops);
    for o in ops.iter() {
      if let Op::Add(d) = o {
        live.insert(d["_id"].as_str().unwrap().to_string());
      }
    }
    commits.push(ops);
  }
  let compact = rng.chance(0.2);
  Corpus { hist: Hist { commits, compact }, vocab, kwvals, deletes, upserts }
}

pub struct GenCtx<'a> {
  pub sch: &'a Sch,
  pub an: &'a Analyzers,
  pub vocab: Vec<String>,
  pub kwvals: Vec<String>,
  /// (field, words) of live values, raw words without punctuation
  pub sentences: Vec<(String, Vec<String>)>,
}

fn raw_words(s: &str) -> Vec<String> {
  s.split_whitespace()
    .flat_map(|w| w.split('-').map(|x| x.to_string()).collect::<Vec<_>>())
    .map(|w| w.trim_matches(|c: char| c == ',' || c == '.').to_string())
    .filter(|w| !w.is_empty())
    .collect()
}

impl<'a> GenCtx<'a> {
  pub fn new(sch: &'a Sch, an: &'a Analyzers, corpus: &Corpus, live: &BTreeMap<String, Value>) -> GenCtx<'a> {
    let mut sentences = Vec::new();
    for d in live.values() {
      for t in sch.text.iter() {
        let vals: Vec<String> = match d.get(&t.name) {
          Some(Value::String(s)) => vec![s.clone()],
          Some(Value::Array(a)) => a.iter().filter_map(|x| x.as_str().map(|s| s.to_string())).collect(),
          _ => vec![],
        };
        // one entry per value plus one for the concatenation (phrases across values)
        let mut all = Vec::new();
        for v in vals.iter() {
          let w = raw_words(v);
          if !w.is_empty() {
            sentences.push((t.name.clone(), w.clone()));
          }
          all.extend(w);
        }
        if vals.len() > 1 && !all.is_empty() {
          sentences.push((t.name.clone(), all));
        }
      }
    }
    let mut vocab = corpus.vocab.clone();
    vocab.push("zebra".to_string()); // never indexed
    GenCtx { sch, an, vocab, kwvals: corpus.kwvals.clone(), sentences }
  }
  fn word(&self, rng: &mut Rng) -> String {
    let w = self.vocab[rng.zipf(self.vocab.len())].clone();
    match rng.below(12) {
      0 => w.to_uppercase(),
      1 => {
        let mut c = w.chars();
        match c.next() {
          Some(f) => f.to_uppercase().collect::<String>() + c.as_str(),
          None => w,
        }
      }
      _ => w,
    }
  }
  fn ascii_word(&self, rng: &mut Rng) -> String {
    for _ in 0..8 {
      let w = &self.vocab[rng.usize(self.vocab.len())];
      if w.chars().all(|c| c.is_ascii_lowercase()) && w.len() >= 2 {
        return w.clone();
      }
    }
    "rust".to_string()
  }
  fn tfield(&self, rng: &mut Rng) -> String {
    self.sch.text[rng.usize(self.sch.text.len())].name.clone()
  }
  fn any_field(&self, rng: &mut Rng) -> String {
    if !self.sch.kw.is_empty() && rng.chance(0.2) {
      self.sch.kw[rng.usize(self.sch.kw.len())].clone()
    } else {
      self.tfield(rng)
    }
  }
  fn value_for(&self, rng: &mut Rng, field: &str) -> String {
    if self.sch.is_kw(field) {
      let v = rng.pick(&self.kwvals).clone();
      if rng.chance(0.15) {
        v.to_uppercase()
      } else {
        v
      }
    } else {
      self.word(rng)
    }
  }
}

fn gen_filter(rng: &mut Rng, g: &GenCtx, depth: usize) -> F {
  let leaf = |rng: &mut Rng| -> F {
    if g.sch.kw.is_empty() || rng.chance(0.35) {
      let a = rng.range(1, 40);
      F::Pop(a, a + rng.range(0, 25))
    } else {
      let f = g.sch.kw[rng.usize(g.sch.kw.len())].clone();
      let mut v = rng.pick(&g.kwvals).clone();
      if rng.chance(0.2) {
        v = v.to_ascii_uppercase();
      }
      if rng.chance(0.3) {
        F::KwIn(f, vec![v, rng.pick(&g.kwvals).clone()])
      } else {
        F::KwEq(f, v)
      }
    }
  };
  if depth == 0 || rng.chance(0.6) {
    return leaf(rng);
  }
  match rng.below(3) {
    0 => F::And(vec![gen_filter(rng, g, depth - 1), gen_filter(rng, g, depth - 1)]),
    1 => F::Or(vec![gen_filter(rng, g, depth - 1), gen_filter(rng, g, depth - 1)]),
    _ => F::Not(Box::new(gen_filter(rng, g, depth - 1))),
  }
}

fn gen_phrase_words(rng: &mut Rng, g: &GenCtx, field: Option<&str>) -> (Vec<String>, usize) {
  // returns words and a slop hint (number of skipped words)
  let cands: Vec<&(String, Vec<String>)> = g.sentences.iter().filter(|(f, w)| w.len() >= 2 && field.map(|x| x == f).unwrap_or(true)).collect();
  if !cands.is_empty() && rng.chance(0.7) {
    let (_, ws) = cands[rng.usize(cands.len())];
    let len = rng.urange(2, 3.min(ws.len()));
    let start = rng.usize(ws.len() - len + 1);
    let mut out: Vec<String> = ws[start..start + len].to_vec();
    let mut skipped = 0;
    if len == 3 && rng.chance(0.4) {
      out.remove(1);
      skipped = 1;
    } else if rng.chance(0.1) {
      out.swap(0, 1);
    }
    (out, skipped)
  } else {
    let n = rng.urange(1, 3);
    ((0..n).map(|_| g.word(rng)).collect(), 0)
  }
}

fn gen_regex(rng: &mut Rng, g: &GenCtx) -> Re {
  let w: Vec<char> = g.ascii_word(rng).chars().collect();
  let lit = |cs: &[char]| -> Vec<Re> { cs.iter().map(|c| Re::Ch(*c)).collect() };
  let n = w.len();
  match rng.below(9) {
    0 => {
      // prefix(alt1|alt2)
      let k = rng.urange(1, n - 1);
      let other: Vec<char> = g.ascii_word(rng).chars().collect();
      let mut v = lit(&w[..k]);
      v.push(Re::Alt(vec![Re::Cat(lit(&w[k..])), Re::Cat(lit(&other[other.len().min(k)..]))]));
      Re::Cat(v)
    }
    1 => {
      let k = rng.usize(n);
      let mut v = lit(&w);
      v[k] = Re::Any;
      Re::Cat(v)
    }
    2 => {
      let k = rng.urange(1, n);
      let mut v = lit(&w[..k]);
      v.push(Re::Star(Box::new(Re::Any)));
      Re::Cat(v)
    }
    3 => {
      let other: Vec<char> = g.ascii_word(rng).chars().collect();
      Re::Alt(vec![Re::Cat(lit(&w)), Re::Cat(lit(&other))])
    }
    4 => {
      // last char optional: rust?
      let mut v = lit(&w[..n - 1]);
      v.push(Re::Opt(Box::new(Re::Ch(w[n - 1]))));
      Re::Cat(v)
    }
    5 => {
      let k = rng.usize(n);
      let mut v = lit(&w);
      v[k] = Re::Class(vec![('a', 'm'), (w[k], w[k])]);
      Re::Cat(v)
    }
    6 => {
      let k = rng.usize(n);
      let mut v = lit(&w);
      v[k] = Re::Plus(Box::new(Re::Ch(w[k])));
      Re::Cat(v)
    }
    7 => {
      // word followed by optional s / y: rusty? , logs*
      let mut v = lit(&w);
      let c = *rng.pick(&['s', 'y']);
      v.push(if rng.chance(0.5) { Re::Opt(Box::new(Re::Ch(c))) } else { Re::Star(Box::new(Re::Ch(c))) });
      Re::Cat(v)
    }
    _ => Re::Cat(lit(&w)),
  }
}

fn gen_wildcard(rng: &mut Rng, g: &GenCtx) -> String {
  let w: Vec<char> = g.ascii_word(rng).chars().collect();
  let n = w.len();
  let s = |cs: &[char]| -> String { cs.iter().collect() };
  match rng.below(7) {
    0 => format!("{}*", s(&w[..rng.urange(1, n)])),
    1 => format!("*{}", s(&w[rng.urange(0, n - 1)..])),
    2 => {
      let k = rng.usize(n);
      let mut v = w.clone();
      v[k] = '?';
      s(&v)
    }
    3 => {
      if n >= 3 {
        format!("{}*{}", s(&w[..1]), s(&w[n - 1..]))
      } else {
        format!("{}*", s(&w[..1]))
      }
    }
    4 => format!("{}?", s(&w)),
    5 => "*".to_string(),
    _ => {
      if rng.chance(0.3) {
        s(&w).to_uppercase() + "*"
      } else {
        s(&w)
      }
    }
  }
}

fn gen_prefix(rng: &mut Rng, g: &GenCtx, field: &str) -> String {
  for _ in 0..10 {
    let w = g.value_for(rng, field);
    let cs: Vec<char> = w.chars().collect();
    if cs.is_empty() {
      continue;
    }
    let k = rng.urange(1, cs.len());
    let p: String = cs[..k].iter().collect();
    if g.sch.is_kw(field) {
      return p;
    }
    let toks = g.an.search_toks(field, &p);
    if toks.len() == 1 {
      return p;
    }
  }
  "zz".to_string()
}

pub struct Knobs {
  pub allow_neg: bool,
  pub allow_exp: bool,
}

fn gen_leaf(rng: &mut Rng, g: &GenCtx, k: &Knobs) -> Q {
  let r = rng.below(100);
  if r < 28 {
    let field = g.any_field(rng);
    let value = g.value_for(rng, &field);
    let boost = match rng.below(8) {
      0 => Some(2.0),
      1 => Some(0.0),
      2 => Some(0.5),
      _ => None,
    };
    Q::Term { field, value, boost }
  } else if r < 43 {
    // query_string
    let n = rng.urange(1, 3);
    let mut parts = Vec::new();
    for _ in 0..n {
      let f = if rng.chance(0.3) { Some(g.any_field(rng)) } else { None };
      let pr = rng.below(10);
      if pr < 6 {
        let w = match f.as_ref() {
          Some(x) if g.sch.is_kw(x) => {
            let v = g.value_for(rng, x);
            if v.contains('-') { "red".to_string() } else { v }
          }
          _ => g.word(rng),
        };
        parts.push(QsPart::Term(f, w));
      } else if pr < 8 && k.allow_neg {
        let f = f.filter(|x| g.sch.is_text(x));
        parts.push(QsPart::Not(f, g.word(rng)));
      } else {
        let f = f.filter(|x| g.sch.is_text(x));
        let (ws, _) = gen_phrase_words(rng, g, f.as_deref());
        parts.push(QsPart::Phrase(f, ws));
      }
    }
    let fields = if rng.chance(0.3) {
      let k = rng.urange(1, g.sch.text.len());
      Some(rng.subset(g.sch.text.len(), k).into_iter().map(|i| g.sch.text[i].name.clone()).collect())
    } else {
      None
    };
    Q::Qs { parts, fields }
  } else if r < 55 {
    let field = if rng.chance(0.75) { Some(g.tfield(rng)) } else { None };
    let (terms, skipped) = gen_phrase_words(rng, g, field.as_deref());
    let slop = match rng.below(5) {
      0 => None,
      1 => Some(0),
      2 => Some(skipped),
      3 => Some(skipped + 1),
      _ => Some(rng.urange(0, 3)),
    };
    Q::Phrase { field, terms, slop }
  } else if r < 61 {
    Q::MatchAll
  } else if r < 73 {
    let nw = rng.urange(1, 4);
    let words: Vec<String> = (0..nw).map(|_| g.word(rng)).collect();
    let nots = if k.allow_neg && rng.chance(0.2) { vec![g.word(rng)] } else { vec![] };
    let nf = rng.urange(1, g.sch.text.len());
    let mut fields: Vec<String> = rng.subset(g.sch.text.len(), nf).into_iter().map(|i| g.sch.text[i].name.clone()).collect();
    if !g.sch.kw.is_empty() && rng.chance(0.1) {
      fields.push(g.sch.kw[0].clone());
    }
    let mtype = rng.pick(&["best_fields", "most_fields", "cross_fields"]).to_string();
    let (op_and, msm) = match rng.below(6) {
      0 => (Some(true), None),
      1 => (Some(false), None),
      2 => (None, Some(Msm::Count(rng.urange(1, nw)))),
      3 => (None, Some(Msm::Pct(*rng.pick(&[10, 20, 25, 30, 33, 40, 50, 60, 66, 70, 75, 80, 90, 100])))),
      4 => (Some(false), Some(Msm::Pct(*rng.pick(&[25, 50, 75, 100])))),
      _ => (None, None),
    };
    Q::Mm { words, nots, fields, mtype, op_and, msm }
  } else if r < 79 {
    Q::Const { filter: gen_filter(rng, g, 2) }
  } else if r < 82 {
    Q::Rank { modifier: rng.pick(&[None, Some("log"), Some("log1p"), Some("sqrt"), Some("reciprocal"), Some("none")]).map(|s| s.to_string()) }
  } else if !k.allow_exp {
    Q::Term { field: g.tfield(rng), value: g.word(rng), boost: None }
  } else if r < 88 {
    let field = g.any_field(rng);
    let value = gen_prefix(rng, g, &field);
    Q::Prefix { field, value }
  } else if r < 94 {
    let field = if rng.chance(0.9) { g.tfield(rng) } else { g.any_field(rng) };
    let mut value = gen_wildcard(rng, g);
    for _ in 0..6 {
      if !matches!(pattern_mode(g.sch, g.an, &field, &value), PatMode::Ambiguous) {
        break;
      }
      value = gen_wildcard(rng, g);
    }
    Q::Wildcard { field, value }
  } else {
    let field = if rng.chance(0.9) { g.tfield(rng) } else { g.any_field(rng) };
    let mut re = gen_regex(rng, g);
    for _ in 0..6 {
      if !matches!(pattern_mode(g.sch, g.an, &field, &re_string(&re)), PatMode::Ambiguous) {
        break;
      }
      re = gen_regex(rng, g);
    }
    Q::Regex { field, re }
  }
}

fn gen_nonscored(rng: &mut Rng, g: &GenCtx) -> Q {
  match rng.below(4) {
    0 => Q::MatchAll,
    1 => Q::Const { filter: gen_filter(rng, g, 1) },
    2 => {
      let field = Some(g.tfield(rng));
      let (terms, skipped) = gen_phrase_words(rng, g, field.as_deref());
      Q::Phrase { field, terms, slop: Some(skipped) }
    }
    _ => Q::Rank { modifier: None },
  }
}

pub fn gen_q(rng: &mut Rng, g: &GenCtx, k: &Knobs, depth: usize) -> Q {
  if depth <= 1 || rng.chance(0.3) {
    return gen_leaf(rng, g, k);
  }
  let r = rng.below(100);
  if r < 62 {
    let (mut must, mut should, mut must_not, mut filter) = (vec![], vec![], vec![], vec![]);
    if rng.chance(0.25) {
      // the mix the suite never tries: required non-scored clause + optional scored clause
      if rng.chance(0.6) {
        must.push(gen_nonscored(rng, g));
      } else {
        filter.push(gen_filter(rng, g, 1));
      }
      for _ in 0..rng.urange(1, 2) {
        should.push(gen_q(rng, g, k, depth - 1));
      }
    } else {
      for _ in 0..rng.urange(0, 2) {
        must.push(gen_q(rng, g, k, depth - 1));
      }
      for _ in 0..rng.urange(0, 3) {
        should.push(gen_q(rng, g, k, depth - 1));
      }
      if k.allow_neg && rng.chance(0.3) {
        for _ in 0..rng.urange(1, 2) {
          must_not.push(gen_q(rng, g, k, depth - 1));
        }
      }
      if rng.chance(0.25) {
        filter.push(gen_filter(rng, g, 1));
      }
    }
    if must.is_empty() && should.is_empty() && must_not.is_empty() && filter.is_empty() {
      should.push(gen_leaf(rng, g, k));
    }
    let msm = if !should.is_empty() && rng.chance(0.3) {
      let lo = if must.is_empty() && filter.is_empty() { 1 } else { 0 };
      Some(rng.urange(lo, should.len() + 1))
    } else {
      None
    };
    let boost = if rng.chance(0.1) { Some(1.5) } else { None };
    Q::Bool { must, should, must_not, filter, msm, boost }
  } else if r < 82 {
    let n = rng.urange(1, 3);
    let mut queries: Vec<Q> = (0..n).map(|_| gen_q(rng, g, k, depth - 1)).collect();
    if rng.chance(0.2) {
      queries.push(gen_nonscored(rng, g));
    }
    Q::DisMax { queries, tie: if rng.chance(0.5) { Some(0.3) } else { None } }
  } else if r < 92 {
    Q::Func { query: Box::new(gen_q(rng, g, k, depth - 1)), variant: rng.below(5) as u8 }
  } else {
    Q::Script { query: Box::new(gen_q(rng, g, k, depth - 1)), variant: rng.below(3) as u8 }
  }
}

pub fn gen_request(rng: &mut Rng, g: &GenCtx) -> Req {
  let fuzzy = if rng.chance(0.12) {
    Some(Fz { max_edits: rng.below(3) as u8, prefix_length: rng.urange(0, 2), min_length: rng.urange(1, 4) })
  } else {
    None
  };
  let k = Knobs { allow_neg: fuzzy.is_none(), allow_exp: true };
  let depth = rng.urange(1, 4);
  let q = gen_q(rng, g, &k, depth);
  let fields = if rng.chance(0.15) {
    let n = rng.urange(1, g.sch.text.len());
    Some(rng.subset(g.sch.text.len(), n).into_iter().map(|i| g.sch.text[i].name.clone()).collect())
  } else {
    None
  };
  let legacy_string = rng.chance(0.4);
  Req { q, fields, fuzzy, legacy_string }
}

/// dedicated generator: `term(field, word)` for source words of live documents
pub fn word_requests(rng: &mut Rng, g: &GenCtx, max: usize) -> Vec<Req> {
  let mut seen: BTreeSet<(String, String)> = BTreeSet::new();
  for (f, ws) in g.sentences.iter() {
    for w in ws {
      seen.insert((f.clone(), w.clone()));
    }
  }
  let mut all: Vec<(String, String)> = seen.into_iter().collect();
  rng.shuffle(&mut all);
  all.truncate(max);
  all.into_iter().map(|(field, value)| Req { q: Q::Term { field, value, boost: None }, fields: None, fuzzy: None, legacy_string: false }).collect()
}
